#!/bin/sh
# Run once after a fresh restore, offline. Builds nothing that depends on /repo:
# every check rebuilds its engine from /repo's current working tree.
set -e
cd "$(dirname "$0")"
mkdir -p build evidence replays
for t in clang++ g++ python3; do command -v $t >/dev/null || { echo "missing tool: $t"; exit 1; }; done
# sanitizer runtimes present?
printf 'int main(){return 0;}\n' > build/.probe.cpp
clang++ -fsanitize=address,undefined build/.probe.cpp -o build/.probe_asan && ./build/.probe_asan
g++ -fsanitize=thread build/.probe.cpp -o build/.probe_tsan && ./build/.probe_tsan
rm -f build/.probe.cpp build/.probe_asan build/.probe_tsan
python3 vlib/mkmanifest.py >/dev/null
echo "setup ok"
