"""Generates table version pools for C07 / C08: each pool is a set of entries (id, fungible alternative types);
a seeded walk applies allowed evolution steps (add, remove, mark deleted, reorder, swap to a fungible alternative;
ids never reused) and emits every visited version as a C++ table type plus three nesting contexts."""
import os
import random
import typegen as tg


def entry_pools(rng, npools):
    P = tg.prim
    pools = []
    for p in range(npools):
        s_small = tg.struct([tg.Member(P("u16")), tg.Member(P("string"))], "TP%dS" % p)
        cands = [
            # (alternatives, first = most constrained); all alternatives of one entry are documented-fungible
            [tg.arr(P("i32"), 3), tg.vec(P("i32")), tg.wrapper(tg.LBuf(P("i32"), 5, P("u8")), "TP%dWLB" % p)],
            [P("string")], [P("u64")], [P("i16"), tg.wrapper(P("i16"), "TP%dWi16" % p)],
            [tg.mp(P("u8"), P("string")), tg.ump(P("u8"), P("string"))],
            [tg.pair(P("u32"), P("string")), tg.tup(P("u32"), P("string"))],
            [tg.arr(P("string"), 2), tg.vec(P("string")), tg.tup(P("string"), P("string"))],
            [tg.opt(P("u32"))], [tg.var(P("i32"), P("string"))], [s_small], [tg.vec(s_small)], [P("double")], [tg.enum("u8")],
            [tg.res(tg.enum("i32"), P("string"))], [tg.arr(P("u8"), 4), tg.vec(P("u8"))],
            [tg.arr(tg.enum("i32"), 3), tg.vec(tg.enum("i32"))], [tg.vec(P("string"))], [tg.vec(P("u16"))],     # arrays of variable-width elements; values that may be empty sequences
        ]
        # the first pool takes every candidate, so that each entry type is exercised whatever the random draws give (a sampled subset lost the
        # Optional and map / unordered_map entries when candidates were added)
        n = len(cands) if p == 0 else rng.choice([4, 5, 6])
        chosen = rng.sample(cands, n)
        idpool = [0, 1, 2, 3, 7, 100, 127, 128, 255, 256, 65535, 65536, 1 << 32, (1 << 63) + 5, 4, 5, 6, 8, 9, 10, 11, 12]
        ids = rng.sample(idpool, n) if p else idpool[:n]
        # alternatives of array kind must list the fixed-size one first (values are generated to fit it)
        pools.append([{"id": i, "alts": a} for i, a in zip(ids, chosen)])
    return pools


def walk_versions(rng, pool, nversions, full_start=False):
    """returns list of versions; version = list of (entry index in pool, alt index, active)"""
    k = len(pool)
    start = list(range(k)) if full_start else rng.sample(range(k), rng.randint(1, max(1, k - 1)))
    cur = [(e, 0, True) for e in start]
    used = set(start)                      # ids ever present (never re-added once removed)
    seen, out = set(), []

    def key(v):
        return tuple(v)
    out.append(list(cur)); seen.add(key(cur))
    tries = 0
    while len(out) < nversions and tries < 400:
        tries += 1
        v = list(cur)
        step = rng.choice(["add", "add", "remove", "delete", "reorder", "swap", "swap"])
        if step == "add":
            free = [e for e in range(k) if e not in used]
            if not free:
                continue
            e = rng.choice(free); used.add(e); v.insert(rng.randint(0, len(v)), (e, rng.randrange(len(pool[e]["alts"])), True))
        elif step == "remove":
            if len(v) <= 1:
                continue
            v.pop(rng.randrange(len(v)))
        elif step == "delete":
            act = [i for i, x in enumerate(v) if x[2]]
            if not act:
                continue
            i = rng.choice(act); v[i] = (v[i][0], v[i][1], False)
        elif step == "reorder":
            rng.shuffle(v)
        else:
            sw = [i for i, x in enumerate(v) if x[2] and len(pool[x[0]]["alts"]) > 1]
            if not sw:
                continue
            i = rng.choice(sw); e, a, _ = v[i]; v[i] = (e, (a + 1 + rng.randrange(len(pool[e]["alts"]) - 1)) % len(pool[e]["alts"]), True)
        cur = v
        if key(v) not in seen:
            seen.add(key(v)); out.append(list(v))
    return out


def generate(outdir, seed, npools, nversions):
    rng = random.Random(seed * 7907 + 3)
    tg._counter[0] = 5000
    os.makedirs(outdir, exist_ok=True)
    pools = entry_pools(rng, npools)
    types, meta = [], []
    for pi, pool in enumerate(pools):
        hk = rng.choice([("hash", rng.choice([0, 5, 127, 128, 1 << 40])), ("ns", "verif.pool%d" % pi)])
        if pi == 1:
            hk = ("hash", 0)          # one pool always declares hash 0 (NOP_TABLE without a namespace): a wire hash other than 0 must still be rejected
        versions = walk_versions(rng, pool, nversions, full_start=(pi == 0))      # the first version of the first pool holds every candidate entry
        for vi, ver in enumerate(versions):
            ents = [(pool[e]["alts"][a], pool[e]["id"], act) for (e, a, act) in ver]
            nm = "P%dV%d" % (pi, vi)
            # some definitions give scalar / string entries a default member initialiser: their default-constructed state is not all-empty
            # (legal: Entry is constructible from a value); data that lacks such an entry must still read as empty
            dflt = {"std::uint64_t": "{7u}", "std::int16_t": "{static_cast<std::int16_t>(-3)}", "double": "{1.5}", "std::string": "{std::string(\"dflt\")}"}
            inits = [(dflt.get(ty.cpp) if (act and rng.random() < 0.35) else None) for (ty, _i, act) in ents]
            t = tg.table(ents, nm, hk, inits=inits)
            s = tg.struct([tg.Member(t), tg.Member(tg.prim("u32"))], nm + "_S")                                   # table inside a structure, followed by more data
            v = tg.vec(t)                                                                                       # tables inside a vector
            o = tg.table([(t, 1, True), (tg.prim("u16"), 2, True)], nm + "_O", ("hash", 4242))                  # table inside an entry of another table
            types += [t, s, v, o]
            meta.append((pi, vi, nm, [(pool[e]["id"], a, act, pool[e]["alts"][0].cpp) for (e, a, act) in ver]))
    # a wide pool: definitions with more than 64 entries (per-entry bookkeeping in a machine word stops working at 32 / 64), in several orders
    P = tg.prim; pi = len(pools)
    wpool = [{"id": (i + 1) if i < 70 else [300, 65536][i - 70], "alts": [[P("u8"), P("string"), P("i16"), P("u32")][i % 4]]} for i in range(72)]
    order = list(range(72)); rev = order[::-1]; shuf = order[:]; rng.shuffle(shuf)
    wversions = [[(e, 0, True) for e in order[:66]], [(e, 0, True) for e in rev], [(e, 0, (k % 9) != 4) for k, e in enumerate(shuf[:68])], [(e, 0, True) for e in order[30:72]]]
    for vi, ver in enumerate(wversions):
        ents = [(wpool[e]["alts"][a], wpool[e]["id"], act) for (e, a, act) in ver]
        nm = "P%dV%d" % (pi, vi)
        t = tg.table(ents, nm, ("ns", "verif.widepool"))
        s = tg.struct([tg.Member(t), tg.Member(tg.prim("u32"))], nm + "_S"); v = tg.vec(t); o = tg.table([(t, 1, True), (tg.prim("u16"), 2, True)], nm + "_O", ("hash", 4242))
        types += [t, s, v, o]
        meta.append((pi, vi, nm, [(wpool[e]["id"], a, act, wpool[e]["alts"][0].cpp) for (e, a, act) in ver]))
    srcs = tg.emit_tus(outdir, types, per_tu=8, prefix="tables")
    # constraint schema per pool entry: values of an entry are generated on the most constrained alternative
    L = ["// generated by gen/tablegen.py seed=%d" % seed, '#include "tables_decls.h"', '#include "engines/table/poolinfo.h"', "namespace vf {", "std::vector<PoolVersion> pool_versions() {", "  std::vector<PoolVersion> v;"]
    for (pi, vi, nm, ents) in meta:
        L.append("  v.push_back(PoolVersion{%d, %d, \"%s\", {%s}});" % (pi, vi, nm, ", ".join("PoolEntry{%dull, %d, %s, &SchemaOf<%s>}" % (i, a, "true" if act else "false", c) for (i, a, act, c) in ents)))
    L += ["  return v;", "}", "}"]
    p = os.path.join(outdir, "tables_pools.cpp")
    new = "\n".join(L) + "\n"
    if not os.path.exists(p) or open(p).read() != new:
        open(p, "w").write(new)
    return srcs + [p]
