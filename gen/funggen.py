"""Generates type pairs (A, B) for C09: B is derived from A by a fungibility-preserving rewrite taken from the
documentation (the trait must be true and the pair wire compatible) or by a near-miss rewrite (the trait's answer
is only observed; whenever it says true the wire test applies). Emits the compile-time trait values as constants."""
import os
import random
import typegen as tg

P = tg.prim


def is_integral(t):
    return t.integral


def rebuild(t, f):
    """structural copy of t with f applied to children"""
    k = t.kind
    if k == "vec":
        return tg.vec(f(t.kids[0], "elem"))
    if k == "arr":
        return tg.arr(f(t.kids[0], "elem"), t.params["n"])
    if k == "map":
        return tg.mp(t.kids[0], f(t.kids[1], "val"))
    if k == "umap":
        return tg.ump(t.kids[0], f(t.kids[1], "val"))
    if k == "pair":
        return tg.pair(f(t.kids[0], "val"), f(t.kids[1], "val"))
    if k == "tup":
        return tg.tup(*[f(x, "val") for x in t.kids])
    if k == "opt":
        x = f(t.kids[0], "val")
        return x if x.nil_lead else tg.opt(x)
    if k == "res":
        x = f(t.kids[1], "val")
        return x if x.err_lead else tg.res(t.kids[0], x)
    if k == "var":
        return tg.var(*[f(x, "val") for x in t.kids])
    if k == "wrap":
        return tg.wrapper(f(t.kids[0], "val"))
    if k == "struct":
        ms = []
        for m in t.params["members"]:
            if isinstance(m, tg.LBuf):
                ms.append(m)
            else:
                ms.append(tg.Member(f(m.ty, "elem" if m.carray else "val"), m.carray))
        return tg.struct(ms)
    if k == "table":
        return tg.table([(f(ty, "val"), i, a) for (ty, i, a) in t.params["entries"]], hash_kind=t.params["hash_kind"])
    return t


def preserving(t, rng, ctx="val", depth=0):
    """one documented-fungible variant of t (possibly t itself deeper down)"""
    k = t.kind
    choices = ["recurse", "recurse"]
    integral_elem_ctx = ctx == "elem" and t.integral       # an integral element of a sequence must stay integral (BIN)
    if not integral_elem_ctx and t.kind != "wrap_lb" and depth < 3:
        choices.append("wrap")
    if k == "wrap":
        choices += ["unwrap", "unwrap"]
    if k == "vec":
        choices += ["vec2arr", "vec2lb"]
        if not t.kids[0].integral:
            choices += ["seq2tup"]
    if k == "arr":
        choices += ["arr2vec"]
        if not t.kids[0].integral:
            choices += ["seq2tup"]
    if k == "wrap_lb":
        choices += ["lb2vec", "lb2vec"]
    if k == "map":
        choices += ["map2umap"] * 2
    if k == "umap":
        choices += ["umap2map"] * 2
    if k == "pair":
        choices += ["pair2tup"] * 2
    if k == "tup" and len(t.kids) == 2:
        choices += ["tup2pair"] * 2
    if k == "tup" and len(t.kids) >= 1 and all(x.cpp == t.kids[0].cpp for x in t.kids) and not t.kids[0].integral:
        choices += ["tup2vec", "tup2arr"]
    c = rng.choice(choices)
    sub = lambda x, cx: preserving(x, rng, cx, depth + 1) if rng.random() < 0.5 else x
    if c == "wrap":
        return tg.wrapper(t), "wrapper<T> ~ T"
    if c == "unwrap":
        inner = t.kids[0]
        if ctx == "elem" and inner.integral:
            return t, None
        return inner, "wrapper<T> ~ T"
    if c == "vec2arr":
        return tg.arr(t.kids[0], rng.choice([1, 2, 3, 5])), "vector<T> ~ array<T,N>"
    if c == "arr2vec":
        if t.kids[0].cpp == "bool":
            return t, None
        return tg.vec(t.kids[0]), "vector<T> ~ array<T,N>"
    if c == "vec2lb":
        e = t.kids[0]
        if not e.defaultable or (e.flags & tg.F_TABLE):
            return t, None
        n = t.params.get("n", rng.choice([2, 5, 17, 130])); n = max(n, 1)
        szs = [s for s in ["u8", "u16", "u32", "u64", "i32", "int", "size_t", "i16", "i8"] if n <= {"u8": 255, "i8": 127, "i16": 32767}.get(s, 1 << 31)]
        return tg.wrapper(tg.LBuf(e, n + rng.choice([0, 0, 3]), P(rng.choice(szs)), std_array=rng.random() < 0.5)), "logical buffer ~ vector"
    if c == "lb2vec":
        return tg.vec(t.kids[0]), "logical buffer ~ vector"
    if c == "seq2tup":
        n = t.params.get("n", rng.choice([0, 1, 2, 3]))
        return tg.tup(*[t.kids[0]] * n), "vector/array<T> ~ tuple<T...> (non-integral T)"
    if c == "tup2vec":
        return tg.vec(t.kids[0]), "vector/array<T> ~ tuple<T...> (non-integral T)"
    if c == "tup2arr":
        return tg.arr(t.kids[0], len(t.kids)), "vector/array<T> ~ tuple<T...> (non-integral T)"
    if c == "map2umap":
        return tg.ump(t.kids[0], t.kids[1]), "map ~ unordered_map"
    if c == "umap2map":
        return tg.mp(t.kids[0], t.kids[1]), "map ~ unordered_map"
    if c == "pair2tup":
        return tg.tup(t.kids[0], t.kids[1]), "pair ~ tuple<A,B>"
    if c == "tup2pair":
        return tg.pair(t.kids[0], t.kids[1]), "pair ~ tuple<A,B>"
    # recurse: rewrite one or more children
    rules = []

    def f(x, cx):
        if rng.random() < 0.6:
            y, rule = preserving(x, rng, cx, depth + 1)
            if rule:
                rules.append(rule)
            return y
        return x
    if t.kids and t.kind not in ("prim", "enum", "wrap_lb"):
        nt = rebuild(t, f)
        if rules:
            kindname = {"struct": "member-wise fungible structures", "table": "entry-wise fungible tables"}.get(t.kind, "element-wise (%s)" % t.kind)
            return nt, kindname + " / " + rules[0]
    return t, None


WIDTH = {"u8": "u16", "u16": "u32", "u32": "u64", "u64": "u32", "i8": "i16", "i16": "i32", "i32": "i64", "i64": "i32", "int": "i64", "size_t": "u32", "char": "u8"}
SIGN = {"u8": "i8", "u16": "i16", "u32": "i32", "u64": "i64", "i8": "u8", "i16": "u16", "i32": "u32", "i64": "u64", "int": "u32"}


def near_miss(t, rng, ctx="val", depth=0):
    k = t.kind
    choices = []
    if k == "prim" and t.name in WIDTH:
        choices += ["width", "sign", "wrap_in_seq"] if ctx == "elem" else ["width", "sign"]
    if k == "enum":
        choices += ["enum2under"]
    if k in ("vec", "arr") and t.kids[0].integral:
        choices += ["wrap_integral_elem"] * 3 + ["bin2tup"]
    if k == "arr":
        choices += ["arr_n", "arr2lb"]
        if t.params["n"] == 2 and not t.kids[0].integral:
            choices += ["arr2pair"]
    if k == "tup":
        choices += ["tup_arity"]
    if k == "table":
        choices += ["tab_id", "tab_hash", "tab_delete"] * 2
    if k == "opt":
        choices += ["opt2val"]
    if k == "map":
        choices += ["map2vecpair"]
    if k == "prim" and t.name == "string":
        choices += ["str2vecchar", "str2u16"]
    if k == "var" and len(t.kids) >= 2:
        choices += ["var_swap"]
    if k == "struct":
        choices += ["struct_drop"]
    if t.kids and t.kind not in ("prim", "enum", "wrap_lb"):
        choices += ["recurse"] * 3
    if not choices:
        return t, None
    c = rng.choice(choices)
    if c == "width":
        return P(WIDTH[t.name]), "integer width changed"
    if c == "sign" and t.name in SIGN:
        return P(SIGN[t.name]), "integer signedness changed"
    if c == "enum2under":
        return P(t.params["under"]), "enum ~ underlying integer"
    if c in ("wrap_integral_elem", "wrap_in_seq"):
        if k in ("vec", "arr"):
            w = tg.wrapper(t.kids[0])
            return (tg.vec(w) if k == "vec" else tg.arr(w, t.params["n"])), "sequence<integral> ~ sequence<wrapper<integral>>"
        return tg.wrapper(t), "sequence<integral> ~ sequence<wrapper<integral>>"
    if c == "bin2tup":
        n = t.params.get("n", 2)
        return tg.tup(*[t.kids[0]] * n), "sequence<integral> ~ tuple<integral...>"
    if c == "arr2lb":
        e = t.kids[0]
        if e.flags & tg.F_TABLE:
            return t, None
        n = t.params["n"]
        return tg.wrapper(tg.LBuf(e, n + rng.choice([0, 2]), P(rng.choice(["u8", "u32", "size_t", "int"])), std_array=rng.random() < 0.5)), "logical buffer ~ array (not a documented pair)"
    if c == "arr_n":
        return tg.arr(t.kids[0], t.params["n"] + 1), "array length changed"
    if c == "arr2pair":
        return tg.pair(t.kids[0], t.kids[0]), "array<T,2> ~ pair<T,T>"
    if c == "tup_arity":
        return tg.tup(*(t.kids + [P("u8")])), "tuple arity changed"
    if c == "tab_id":
        ents = list(t.params["entries"])
        if not ents:
            return t, None
        i = rng.randrange(len(ents)); ty, eid, act = ents[i]; ents[i] = (ty, (eid + 1000003) % (1 << 64), act)
        if len(set(e[1] for e in ents)) != len(ents):
            return t, None
        return tg.table(ents, hash_kind=t.params["hash_kind"]), "table entry id changed"
    if c == "tab_hash":
        hk = t.params["hash_kind"]
        nh = ("hash", (hk[1] + 1) % (1 << 64) if hk[0] == "hash" else 12345)
        return tg.table(list(t.params["entries"]), hash_kind=nh), "table hash changed"
    if c == "tab_delete":
        ents = list(t.params["entries"]); act = [i for i, e in enumerate(ents) if e[2]]
        if not act:
            return t, None
        i = rng.choice(act); ents[i] = (ents[i][0], ents[i][1], False)
        return tg.table(ents, hash_kind=t.params["hash_kind"]), "table entry marked deleted"
    if c == "opt2val":
        return t.kids[0], "Optional<T> ~ T"
    if c == "map2vecpair":
        return tg.vec(tg.pair(t.kids[0], t.kids[1])), "map<K,V> ~ vector<pair<K,V>>"
    if c == "str2vecchar":
        return tg.vec(P("char")), "string ~ vector<char>"
    if c == "str2u16":
        return P("u16string"), "string ~ u16string"
    if c == "var_swap":
        ks = list(t.kids); ks[0], ks[1] = ks[1], ks[0]
        return tg.var(*ks), "variant alternatives reordered"
    if c == "struct_drop":
        ms = list(t.params["members"])
        if len(ms) < 2:
            return t, None
        ms.pop()
        return tg.struct(ms), "structure member dropped"
    rules = []
    done = [False]

    def f(x, cx):
        if not done[0] and rng.random() < 0.7:
            y, rule = near_miss(x, rng, cx, depth + 1)
            if rule:
                rules.append(rule); done[0] = True
                return y
        return x
    nt = rebuild(t, f)
    if rules:
        return nt, "nested: " + rules[0]
    return t, None


def base_types(rng, n_random, depth):
    out = [t for t in tg.curated() if not (t.flags & (tg.F_HANDLE | tg.F_AMBIGUOUS)) and t.kind != "prim" or t.name in ("string", "u32", "i64")]
    out = [t for t in out if not t.cpp.startswith("std::reference_wrapper")]
    # NOP_UNBOUNDED_BUFFER structures only exist at the head of caller-allocated storage: they are never embedded in generated types
    # (their documented pairs are added as a top-level family in generate())
    out = [t for t in out if not (t.flags & tg.F_UNBOUNDED)]
    # zero-length std::arrays are paired explicitly in generate(); the rewrites would turn them into zero-length C arrays (not C++)
    out = [t for t in out if ",0>" not in t.name]
    # directly nested nullables (kept in the codec corpus with representable values only) are not rewritten: the rewrites drop the outer layer for them
    out = [t for t in out if "Optional<Optional<" not in t.name and ",Result<" not in t.name]
    seen = set()
    while len([1 for _ in seen]) < n_random:
        t = tg.random_type(rng, depth, allow_table=True)
        if t.cpp in seen or (t.flags & (tg.F_HANDLE | tg.F_AMBIGUOUS)):
            continue
        seen.add(t.cpp); out.append(t)
    return out


def generate(outdir, seed, npairs):
    rng = random.Random(seed * 50021 + 11)
    tg._counter[0] = 20000
    os.makedirs(outdir, exist_ok=True)
    bases = base_types(rng, 20 if npairs < 300 else 120, 2 if npairs < 300 else 3)
    pairs, seen = [], set()
    tries = 0
    while len(pairs) < npairs and tries < npairs * 40:
        tries += 1
        a = rng.choice(bases)
        if a.kind in ("prim", "enum") and rng.random() < 0.7:
            continue
        if rng.random() < 0.6:
            b, rule = preserving(a, rng)
            exp = True
        else:
            b, rule = near_miss(a, rng)
            exp = False
        if not rule or b.cpp == a.cpp or (a.cpp, b.cpp) in seen:
            continue
        if (b.flags | a.flags) & tg.F_AMBIGUOUS:
            continue
        if "std::vector<bool>" in a.cpp or "std::vector<bool>" in b.cpp:      # not a supported type (no data()); rewrites of bool sequences can produce it
            continue
        seen.add((a.cpp, b.cpp))
        pairs.append((a, b, rule, exp))
    # systematic family: maps whose KEY types are fungible but not identical (the element-wise rule applies to keys as to values)
    for (ka, kb, rule) in [(tg.pair(P("u8"), P("string")), tg.tup(P("u8"), P("string")), "pair ~ tuple<A,B>"), (tg.arr(P("i32"), 2), tg.vec(P("i32")), "vector<T> ~ array<T,N>"),
                           (tg.tup(P("string"), P("string")), tg.arr(P("string"), 2), "vector/array<T> ~ tuple<T...> (non-integral T)"), (tg.pair(P("i16"), P("i16")), tg.tup(P("i16"), P("i16")), "pair ~ tuple<A,B>")]:
        for val in [P("string"), tg.vec(P("u16"))]:
            for (ma, mb) in [(tg.mp, tg.mp), (tg.mp, tg.mp)][:1]:
                a = ma(ka, val); b = mb(kb, val)
                if (a.cpp, b.cpp) not in seen:
                    seen.add((a.cpp, b.cpp)); pairs.append((a, b, "element-wise (map keys) / " + rule, True))
    # systematic family: vector<E> ~ logical buffer of E[N] for every size-member shape (documented pair)
    for en in ["u8", "u16", "u32", "u64", "i32", "string", "double"]:
        for sz, n in [("u8", 100), ("u8", 255), ("i8", 100), ("u16", 300), ("int", 100), ("size_t", 3), ("i16", 130), ("u32", 7)]:
            if rng.random() < (0.35 if npairs < 300 else 0.9):
                a = tg.vec(P(en)); b = tg.wrapper(tg.LBuf(P(en), n, P(sz), std_array=rng.random() < 0.5))
                if (a.cpp, b.cpp) not in seen:
                    seen.add((a.cpp, b.cpp)); pairs.append((a, b, "logical buffer ~ vector", True))
    # systematic family: tables / structures whose entry is a large array of multi-byte integers ~ the same with a vector
    # (count and byte length fall in different integer classes: 32..127 x 4 bytes, 16..127 x 8 bytes, 64..255 x 2 bytes)
    for en, n in [("i32", 32), ("i32", 100), ("u16", 64), ("u16", 200), ("i64", 16), ("u64", 127), ("u32", 127)]:
        if rng.random() < (0.6 if npairs < 300 else 1.0):
            hk = ("hash", 4000 + n)
            a = tg.table([(tg.arr(P(en), n), 1, True), (P("string"), 2, True)], hash_kind=hk); b = tg.table([(tg.vec(P(en)), 1, True), (P("string"), 2, True)], hash_kind=hk)
            seen.add((a.cpp, b.cpp)); pairs.append((a, b, "entry-wise fungible tables / vector<T> ~ array<T,N>", True))
            a2 = tg.struct([tg.Member(tg.arr(P(en), n)), tg.Member(P("u8"))]); b2 = tg.struct([tg.Member(tg.vec(P(en))), tg.Member(P("u8"))])
            seen.add((a2.cpp, b2.cpp)); pairs.append((a2, b2, "member-wise fungible structures / vector<T> ~ array<T,N>", True))
    # documented pair: unbounded logical buffer (C dynamic array header) ~ vector, alone and as the last member of a structure
    tri = tg.struct([tg.Member(P("float")), tg.Member(P("i16"))], "STri")
    for a, b in [(tg.ubuf(P("u32"), P("size_t"), "UBu32_szt", form="value"), tg.vec(P("u32"))),
                 (tg.ubuf(P("u8"), P("u16"), "UBu8_u16", lead=[P("u8")]), tg.struct([tg.Member(P("u8")), tg.Member(tg.vec(P("u8")))])),
                 (tg.ubuf(tri, P("u32"), "UBTri_u32", lead=[P("i32"), tg.enum("u8")]), tg.struct([tg.Member(P("i32")), tg.Member(tg.enum("u8")), tg.Member(tg.vec(tri))])),
                 (tg.ubuf(P("i64"), P("int"), "UBi64_int", lead=[P("u16")], form="external"), tg.struct([tg.Member(P("u16")), tg.Member(tg.vec(P("i64")))]))]:
        seen.add((a.cpp, b.cpp)); pairs.append((a, b, "unbounded logical buffer ~ vector", True))
    # value wrapper around a C array member ~ the wrapped array spelled as std::array / vector (documented: wrapper ~ wrapped, array forms interchangeable);
    # the same wrapper against arrays of another extent is a near miss (only observed; true would have to be wire compatible)
    for en, n in [("i32", 4), ("u8", 3), ("string", 2), ("u64", 1)]:
        nm = "WCArr_%s_%d" % (en, n); e = P(en)
        text = "struct %s {\n  %s v[%d]{};\n  NOP_VALUE(%s, v);\n};" % (nm, e.cpp, n, nm)
        reflect = ("template <> struct Reflect<%s> {\n  static Sch schema() { return SchemaOf<decltype(%s::v)>(); }\n  static Val to(const %s& x) { return ToVal(x.v); }\n"
                   "  static void from(const Val& v, %s* x) { FromVal(v, &x->v); }\n};") % (nm, nm, nm, nm)
        w = tg._merge(nm, "%s=wrap(%s[%d])" % (nm, e.name, n), [e], tg._elem_flags(e)); w.integral = False; w.decls.append(tg.Decl(nm, text, reflect)); w.shaped("wrap", [tg.arr(e, n)], inner=tg.arr(e, n))
        for b, rule, exp in [(tg.arr(e, n), "wrapper<T[N]> ~ array<T,N>", True), (tg.vec(e), "wrapper<T[N]> ~ vector<T>", True),
                             (tg.arr(e, n * 2), "wrapper<T[N]> ~ array<T,2N> (near miss)", False), (tg.struct([tg.Member(e, n * 2)]), "wrapper<T[N]> ~ struct{T[2N]} (near miss)", False)]:
            if (w.cpp, b.cpp) not in seen:
                seen.add((w.cpp, b.cpp)); pairs.append((w, b, rule, exp))
    # nested C arrays: T[N][M] ~ std::array<std::array<T,M>,N> (documented: C array ~ std::array with matching elements), against another inner
    # extent it is a near miss (only observed; true would have to be wire compatible)
    carr = tg.carr
    for en, n, m in [("i32", 2, 3), ("u8", 3, 2), ("string", 2, 2), ("u16", 1, 5)]:
        e = P(en)
        a = tg.struct([tg.Member(carr(e, m), n), tg.Member(P("u8"))])
        for b, rule, exp in [(tg.struct([tg.Member(tg.arr(tg.arr(e, m), n)), tg.Member(P("u8"))]), "nested C array T[N][M] ~ array<array<T,M>,N>", True),
                             (tg.struct([tg.Member(tg.vec(tg.arr(e, m))), tg.Member(P("u8"))]), "nested C array T[N][M] ~ vector<array<T,M>>", True),
                             (tg.struct([tg.Member(carr(e, m + 1), n), tg.Member(P("u8"))]), "nested C array T[N][M] ~ T[N][M+1] (near miss)", False),
                             (tg.struct([tg.Member(tg.arr(tg.arr(e, m + 2), n)), tg.Member(P("u8"))]), "nested C array T[N][M] ~ array<array<T,M+2>,N> (near miss)", False)]:
            if (a.cpp, b.cpp) not in seen:
                seen.add((a.cpp, b.cpp)); pairs.append((a, b, rule, exp))
    # the empty-sequence boundary of the documented vector ~ std::array pair: zero-length arrays, alone and inside member-wise fungible structures
    for en in ["u8", "u32", "string"]:
        e = P(en)
        for a, b in [(tg.arr(e, 0), tg.vec(e)), (tg.struct([tg.Member(tg.arr(e, 0)), tg.Member(P("u8"))]), tg.struct([tg.Member(tg.vec(e)), tg.Member(P("u8"))]))]:
            if (a.cpp, b.cpp) not in seen:
                seen.add((a.cpp, b.cpp)); pairs.append((a, b, "vector<T> ~ array<T,0>", True))
    # near-miss family: sequence of integral elements vs logical buffer of wrapped integral elements (BIN vs ARY)
    for en in ["u32", "u8", "i64", "u16"]:
        if rng.random() < (0.8 if npairs < 300 else 1.0):
            w = tg.wrapper(P(en))
            for a in (tg.vec(P(en)), tg.arr(P(en), 8)):
                b = tg.wrapper(tg.LBuf(w, 8, P(rng.choice(["size_t", "u8", "u32"])), std_array=rng.random() < 0.5))
                seen.add((a.cpp, b.cpp)); pairs.append((a, b, "sequence<integral> ~ logical buffer of wrapper<integral>", False))
                b3 = tg.struct([tg.LBuf(w, 8, P("size_t"))]); a3 = tg.struct([tg.Member(a)])
                seen.add((a3.cpp, b3.cpp)); pairs.append((a3, b3, "nested: sequence<integral> ~ logical buffer of wrapper<integral>", False))
    # a few reflexive rows and documented literal pairs
    types, idx = [], {}
    for (a, b, rule, exp) in pairs:
        for t in (a, b):
            if t.cpp not in idx:
                idx[t.cpp] = len(types); types.append(t)
    srcs = tg.emit_tus(outdir, types, per_tu=8, prefix="ftypes")
    L = ["// generated by gen/funggen.py seed=%d" % seed, '#include "ftypes_decls.h"', '#include "engines/fung/pairs.h"', "namespace vf {", "std::vector<FungPair> fung_pairs() {", "  std::vector<FungPair> v;"]
    decl_at = L.index("namespace vf {")
    for k, (a, b, rule, exp) in enumerate(pairs):
        L.insert(decl_at, "struct VfBindIf%d : nop::Interface<VfBindIf%d> { NOP_INTERFACE(\"verif.fung.bind\"); NOP_METHOD(ByRef, int(const %s&)); NOP_METHOD(ByVal, int(%s)); NOP_METHOD(Ret, %s(int)); NOP_INTERFACE_API(ByRef, ByVal, Ret); };" % (k, k, a.cpp, a.cpp, a.cpp))
        decl_at += 1
    for k, (a, b, rule, exp) in enumerate(pairs):
        L.append("  v.push_back(FungPair{%s, %s, %s, %s, nop::IsFungible<%s, %s>::value, nop::IsFungible<%s, %s>::value, nop::IsFungible<%s, %s>::value, nop::IsFungible<%s, %s>::value, "
                 "nop::IsFungible<void(%s), void(%s)>::value, nop::IsFungible<%s(int), %s(int)>::value, ProtocolAdmits<%s, %s>::write, ProtocolAdmits<%s, %s>::read, "
                 "BindAdmits<%s, %s>::by_ref, BindAdmits<%s, %s>::by_val, BindAdmits<%s, %s>::mixed, BindAdmits<%s, %s>::ret});" % (
                     tg._cq(a.name), tg._cq(b.name), tg._cq(rule), "true" if exp else "false", a.cpp, b.cpp, b.cpp, a.cpp, a.cpp, a.cpp, b.cpp, b.cpp, a.cpp, b.cpp, a.cpp, b.cpp, a.cpp, b.cpp, a.cpp, b.cpp,
                     "VfBindIf%d" % k, b.cpp, "VfBindIf%d" % k, b.cpp, "VfBindIf%d" % k, b.cpp, "VfBindIf%d" % k, b.cpp))
    L += ["  return v;", "}"]
    # trait-only facts: tuples of (const) references as std::tie / std::forward_as_tuple produce them, against the sequences the documentation pairs tuples with
    facts = []
    for en in ["string", "i32", "double"]:
        e = P(en).cpp
        for n in (1, 2, 3):
            cref = "std::tuple<%s>" % ", ".join(["const %s&" % e] * n); ref = "std::tuple<%s>" % ", ".join(["%s&" % e] * n); val = "std::tuple<%s>" % ", ".join([e] * n)
            seqs = [("std::vector<%s>" % e, "tuple of const references (std::tie on const values) ~ vector<T>"), ("std::array<%s, %d>" % (e, n), "tuple of const references ~ array<T,N>")] if en != "i32" else []
            for b, rule in seqs:
                facts.append((cref, b, rule, True)); facts.append((ref, b, rule.replace("const references", "references"), True))
            facts.append((cref, val, "tuple of const references ~ tuple of values", True)); facts.append((ref, val, "tuple of references ~ tuple of values", True))
        facts.append(("std::pair<const %s&, const %s&>" % (e, e), "std::pair<%s, %s>" % (e, e), "pair of const references ~ pair of values", True))
        facts.append(("std::pair<const %s&, const %s&>" % (e, e), "std::tuple<%s, %s>" % (e, e), "pair of const references ~ tuple of values", True))
    # hand-written types (engines/fung/pairs.h): a logical buffer whose array member is const (symmetry and the Protocol gate only), maps keyed by a value wrapper
    for b in ["vf::facts::VecIntS", "vf::facts::ArrIntS", "vf::facts::VecStrS", "std::vector<int>"]:
        facts.append(("vf::facts::LBConstArr", b, "logical buffer with a const array member against a sequence (symmetry only)", False))
        facts.append(("vf::facts::LBConstStrArr", b, "logical buffer with a const array member against a sequence (symmetry only)", False))
    facts.append(("vf::facts::LBConstArr", "vf::facts::LBArr", "logical buffer with a const array member against the same without const (symmetry only)", False))
    facts.append(("std::map<vf::facts::KeyW, std::string>", "std::map<std::uint32_t, std::string>", "map keys: value wrapper ~ wrapped type", True))
    facts.append(("std::map<vf::facts::KeyW, std::string>", "std::unordered_map<std::uint32_t, std::string>", "map ~ unordered_map with fungible keys", True))
    facts.append(("std::map<std::uint32_t, vf::facts::KeyW>", "std::map<std::uint32_t, std::uint32_t>", "map values: value wrapper ~ wrapped type", True))
    L += ["std::vector<FungFact> fung_facts() {", "  std::vector<FungFact> v;"]
    for (a, b, rule, exp) in facts:
        L.append("  v.push_back(FungFact{%s, %s, %s, %s, nop::IsFungible<%s, %s>::value, nop::IsFungible<%s, %s>::value, ProtocolWriteAdmits<%s, %s>::value});" % (
            tg._cq(a), tg._cq(b), tg._cq(rule), "true" if exp else "false", a, b, b, a, b, a))
    L += ["  return v;", "}", "}"]
    # split the pair table over several TUs to bound compile time
    p = os.path.join(outdir, "ftypes_pairs.cpp")
    new = "\n".join(L) + "\n"
    if not os.path.exists(p) or open(p).read() != new:
        open(p, "w").write(new)
    return srcs + [p]
