"""Generator for the compile-time part of C17: constexpr serializations of literal values and constexpr
Prepare/Write/Skip call sequences on ConstexprBufferWriter, emitted as constants into the io engine."""
import os
import random

INT = {"u8": ("std::uint8_t", 8, False), "u16": ("std::uint16_t", 16, False), "u32": ("std::uint32_t", 32, False), "u64": ("std::uint64_t", 64, False),
       "i8": ("std::int8_t", 8, True), "i16": ("std::int16_t", 16, True), "i32": ("std::int32_t", 32, True), "i64": ("std::int64_t", 64, True), "char": ("char", 8, False)}


def edge(rng, bits, signed):
    if signed:
        c = [0, 1, -1, 63, 64, -64, -65, 127, 128, -128, -129, 255, 256, 32767, 32768, -32768, -32769, 2**31 - 1, 2**31, -2**31, -2**31 - 1, 2**63 - 1, -2**63, 0x1122334455667788, -0x1122334455667788]
        lo, hi = -(1 << (bits - 1)), (1 << (bits - 1)) - 1
    else:
        c = [0, 1, 127, 128, 255, 256, 65535, 65536, 2**32 - 1, 2**32, 2**64 - 1, 0x1122334455667788, 0xa1b2c3d4e5f60718, 0x8000000000000000, 0x00ff00ff00ff00ff]
        lo, hi = 0, (1 << bits) - 1
    v = rng.choice(c) if rng.random() < 0.7 else rng.randint(lo, hi)
    if v < lo or v > hi:
        v = rng.randint(lo, hi)
    return v


def lit(v, cpp):
    if cpp == "char":
        return "static_cast<char>(%d)" % (v if v < 128 else v - 256)
    if cpp == "std::int64_t" and v == -2**63:
        return "(-9223372036854775807LL - 1)"
    if cpp.startswith("std::int"):
        return "static_cast<%s>(%dLL)" % (cpp, v)
    return "static_cast<%s>(%dULL)" % (cpp, v)


class G:
    def __init__(self, rng):
        self.rng, self.decls, self.n = rng, [], 0

    def fresh(self, p):
        self.n += 1
        return "%s%d" % (p, self.n)

    def scalar(self):
        k = self.rng.choice(list(INT))
        cpp, bits, sg = INT[k]
        return cpp, lit(edge(self.rng, bits, sg), cpp)

    def value(self, depth):
        """returns (cpp type, initializer expression)"""
        r = self.rng.random()
        if depth <= 0 or r < 0.3:
            return self.scalar()
        if r < 0.45:   # Array<integral, N> -> BIN via NOP_VALUE wrapper around a C array
            k = self.rng.choice(list(INT)); cpp, bits, sg = INT[k]; n = self.rng.choice([1, 2, 3, 5, 9])
            return "CxArray<%s, %d>" % (cpp, n), "{{%s}}" % ", ".join(lit(edge(self.rng, bits, sg), cpp) for _ in range(n))
        if r < 0.55:   # Array of structures -> ARY
            t, _ = self.struct(depth - 1); n = self.rng.choice([1, 2, 3])
            return "CxArray<%s, %d>" % (t, n), "{{%s}}" % ", ".join(self.struct_init(t) for _ in range(n))
        if r < 0.8:
            t, init = self.struct(depth - 1)
            return t, init
        return self.table(depth - 1)

    def struct(self, depth):
        nm = self.fresh("CxS")
        ms = [self.value(depth) for _ in range(self.rng.choice([1, 2, 3, 4]))]
        self.decls.append("struct %s {\n%s\n  NOP_STRUCTURE(%s, %s);\n};" % (nm, "\n".join("  %s m%d;" % (t, i) for i, (t, _) in enumerate(ms)), nm, ", ".join("m%d" % i for i in range(len(ms)))))
        self.structs = getattr(self, "structs", {})
        self.structs[nm] = [t for t, _ in ms]
        return nm, "{%s}" % ", ".join(i for _, i in ms)

    def struct_init(self, nm):
        out = []
        for t in self.structs[nm]:
            out.append(self.init_for(t))
        return "{%s}" % ", ".join(out)

    def init_for(self, t):
        for k, (cpp, bits, sg) in INT.items():
            if t == cpp:
                return lit(edge(self.rng, bits, sg), cpp)
        if t.startswith("CxArray<"):
            inner, n = t[len("CxArray<"):-1].rsplit(",", 1)
            return "{{%s}}" % ", ".join(self.init_for(inner.strip()) for _ in range(int(n)))
        if t in self.structs:
            return self.struct_init(t)
        if t in self.tables:
            return self.table_init(t)
        raise KeyError(t)

    tables = {}

    def table(self, depth):
        nm = self.fresh("CxT")
        ids = self.rng.sample([0, 1, 2, 5, 127, 128, 300, 65536], self.rng.choice([1, 2, 3]))
        ents = [(self.scalar(), i) for i in ids]   # scalar entries: brace-initialisation of Entry<aggregate> is ambiguous in constant expressions
        self.decls.append("struct %s {\n%s\n  NOP_TABLE_HASH(%d, %s, %s);\n};" % (
            nm, "\n".join("  nop::Entry<%s, %d> e%d;" % (t, i, j) for j, ((t, _), i) in enumerate(ents)), self.rng.choice([0, 5, 127, 128, 70000]), nm, ", ".join("e%d" % j for j in range(len(ents)))))
        self.tables[nm] = [t for (t, _), _ in ents]
        return nm, self.table_init(nm, [i for (_, i), _ in ents])

    def table_init(self, nm, inits=None):
        out = []
        for j, t in enumerate(self.tables[nm]):
            if self.rng.random() < 0.25:
                out.append("{}")
            else:
                out.append(inits[j] if inits else self.init_for(t))
        return "{%s}" % ", ".join(out)


def gen_sequences(rng, n):
    """constexpr Prepare/Write/Skip sequences on a ConstexprBufferWriter of capacity cap"""
    out = []
    for i in range(n):
        cap = rng.choice([0, 1, 2, 7, 8, 9, 16, 31, 40, 64])
        ops = []
        room = cap
        for _ in range(rng.choice([1, 2, 3, 4, 5, 6, 8])):
            k = rng.choice(["prepare", "write1", "block", "block", "skip"])
            if k == "prepare":
                nbytes = rng.choice([0, 1, max(room - 1, 0), room, room + 1, 2**32, 2**63, 2**64 - 1, 2**64 - 1 - rng.randrange(16)])
                ops.append(("P", nbytes))
            elif k == "write1":
                ops.append(("W", rng.randrange(256)))
            elif k == "block":
                w = rng.choice([1, 2, 4, 8]); c = rng.choice([0, 1, 2, 3, max(room // w, 0), room // w + 1])
                c = min(c, 9)
                vals = [edge(rng, 8 * w, False) for _ in range(c)]
                ops.append(("B", w, vals))
            else:
                # sizes stay small: a wrongly accepted Skip must overrun inside CxSeqResult::bytes (a mismatch), not break constant evaluation
                nbytes = rng.choice([0, 1, 2, max(room - 1, 0), room, room + 1, room + 2])
                ops.append(("S", nbytes, rng.randrange(256)))
        out.append((cap, ops))
    return out


def generate(outdir, seed, nvals, nseqs):
    rng = random.Random(seed * 104729 + 5)
    os.makedirs(outdir, exist_ok=True)
    g = G(rng)
    g.tables = {}
    vals = [g.value(rng.choice([0, 1, 2, 2, 3])) for _ in range(nvals)]
    L = ["// generated by gen/cxgen.py seed=%d -- do not edit" % seed]
    L += g.decls
    for i, (t, init) in enumerate(vals):
        L.append("constexpr %s kCxVal%d%s;" % (t, i, init if init.startswith("{") else "{%s}" % init))
        L.append("constexpr auto kCxSer%d = CxSerialize<CxEncodingSize(kCxVal%d)>(kCxVal%d);" % (i, i, i))
        L.append("static std::vector<uint8_t> CxRt%d(int kind) { %s v = kCxVal%d; return CxRuntimeBytes(v, kind); }" % (i, t, i))
    L.append("static const CxRow kCxRows[] = {")
    for i, (t, init) in enumerate(vals):
        L.append("  {\"%s\", kCxSer%d.elements, sizeof(kCxSer%d.elements), &CxRt%d}," % (t.replace('"', ""), i, i, i))
    L.append("};")
    seqs = gen_sequences(rng, nseqs)
    for i, (cap, ops) in enumerate(seqs):
        body = ["constexpr CxSeqResult cx_seq_%d() {" % i, "  CxSeqResult r{}; nop::ConstexprBufferWriter w(r.bytes, %d);" % cap]
        for j, op in enumerate(ops):
            if op[0] == "P":
                body.append("  r.ok[%d] = static_cast<bool>(w.Prepare(%dULL));" % (j, op[1]))
            elif op[0] == "W":
                body.append("  r.ok[%d] = static_cast<bool>(w.Write(static_cast<std::uint8_t>(%d)));" % (j, op[1]))
            elif op[0] == "B":
                ty = {1: "std::uint8_t", 2: "std::uint16_t", 4: "std::uint32_t", 8: "std::uint64_t"}[op[1]]
                n = len(op[2])
                body.append("  { const %s blk[%d] = {%s}; r.ok[%d] = static_cast<bool>(w.Write(blk, blk + %d)); }" % (ty, max(n, 1), ", ".join("%dULL" % v for v in op[2]) if n else "0", j, n))
            else:
                body.append("  r.ok[%d] = static_cast<bool>(w.Skip(%dULL, %d));" % (j, op[1], op[2]))
            body.append("  r.size_after[%d] = w.size();" % j)
        body.append("  r.nops = %d; r.size = w.size(); return r;\n}" % len(ops))
        L += body
        L.append("constexpr CxSeqResult kCxSeq%d = cx_seq_%d();" % (i, i))
    L.append("static const CxSeqRow kCxSeqRows[] = {")
    for i, (cap, ops) in enumerate(seqs):
        enc = []
        for op in ops:
            if op[0] == "P":
                enc.append("{0, %dULL, 0, 0, {}}" % op[1])
            elif op[0] == "W":
                enc.append("{1, 1, 1, %d, {}}" % op[1])
            elif op[0] == "B":
                enc.append("{2, %dULL, %d, 0, {%s}}" % (len(op[2]), op[1], ", ".join("%dULL" % v for v in op[2])))
            else:
                enc.append("{3, %dULL, 1, %d, {}}" % (op[1], op[2]))
        L.append("  {%d, %d, {%s}, &kCxSeq%d, &cx_seq_%d}," % (cap, len(ops), ", ".join(enc), i, i))
    L.append("};")
    p = os.path.join(outdir, "cx_values.inc")
    new = "\n".join(L) + "\n"
    if not os.path.exists(p) or open(p).read() != new:
        open(p, "w").write(new)
    return p
