"""Type corpus generator for the codec / table / fung engines.

Emits C++ type definitions (structures, value wrappers, tables via the NOP macros), an *independent*
reflection of each (vf::Reflect specialisations that never look at nop::Encoding / MemberList), and a
registration of every corpus type with its applicability flags.
"""
import os
import random

F_FLOAT, F_TABLE, F_HANDLE, F_UNBOUNDED, F_NOHOSTILE, F_NOCONSTEXPR, F_AMBIGUOUS, F_BIG, F_UNORDERED = 1, 2, 4, 8, 16, 32, 64, 128, 256


# ---------------------------------------------------------------- independent SipHash-2-4 (for NOP_TABLE_NS hashes)
def _rotl(x, b):
    return ((x << b) | (x >> (64 - b))) & 0xFFFFFFFFFFFFFFFF


def siphash24(data, k0, k1):
    M = 0xFFFFFFFFFFFFFFFF
    v0, v1, v2, v3 = k0 ^ 0x736f6d6570736575, k1 ^ 0x646f72616e646f6d, k0 ^ 0x6c7967656e657261, k1 ^ 0x7465646279746573

    def rnd(v0, v1, v2, v3):
        v0 = (v0 + v1) & M; v2 = (v2 + v3) & M; v1 = _rotl(v1, 13); v3 = _rotl(v3, 16); v1 ^= v0; v3 ^= v2; v0 = _rotl(v0, 32)
        v2 = (v2 + v1) & M; v0 = (v0 + v3) & M; v1 = _rotl(v1, 17); v3 = _rotl(v3, 21); v1 ^= v2; v3 ^= v0; v2 = _rotl(v2, 32)
        return v0, v1, v2, v3
    n = len(data)
    for i in range(0, n - n % 8, 8):
        m = int.from_bytes(data[i:i + 8], "little")
        v3 ^= m; v0, v1, v2, v3 = rnd(v0, v1, v2, v3); v0, v1, v2, v3 = rnd(v0, v1, v2, v3); v0 ^= m
    last = ((n & 0xff) << 56) | int.from_bytes(data[n - n % 8:], "little")
    v3 ^= last; v0, v1, v2, v3 = rnd(v0, v1, v2, v3); v0, v1, v2, v3 = rnd(v0, v1, v2, v3); v0 ^= last
    v2 ^= 0xff
    for _ in range(4):
        v0, v1, v2, v3 = rnd(v0, v1, v2, v3)
    return v0 ^ v1 ^ v2 ^ v3


TABLE_K0, TABLE_K1 = 0xbaadf00ddeadbeef, 0x0123456789abcdef


def table_ns_hash(name):
    return siphash24(name.encode() + b"\0", TABLE_K0, TABLE_K1)


# ---------------------------------------------------------------- type expressions
class Ty:
    def __init__(self, cpp, name, flags=0, decls=(), integral=False, defaultable=True, keyable=False, depth=0, fits=None):
        self.cpp, self.name, self.flags, self.decls = cpp, name, flags, list(decls)
        self.integral = integral          # std::is_integral (decides BIN vs ARY)
        self.defaultable = defaultable
        self.keyable = keyable            # usable as a map key (has operator< and std::hash)
        self.depth = depth
        self.kind, self.kids, self.params = "prim", [], {}      # structural view (used by gen/funggen.py)
        # can an encoding of this type begin with NIL / ERR? (transparent layers pass the property through); an Optional
        # around a nil-leading type, or a Result around an err-leading type, is not representable in the wire format (D13)
        self.nil_lead, self.err_lead = False, False
        # extra compiler flags the translation unit instantiating this type needs (types with the same set share translation units)
        self.tu = set()

    def shaped(self, kind, kids=(), **params):
        self.kind, self.kids, self.params = kind, list(kids), dict(params)
        return self

    def with_decls(self, others):
        d = []
        for o in others:
            for x in o.decls:
                if x not in d:
                    d.append(x)
        for x in self.decls:
            if x not in d:
                d.append(x)
        self.decls = d
        return self


class Decl:
    """A user-defined type: C++ definition text + Reflect specialisation text."""
    def __init__(self, name, text, reflect):
        self.name, self.text, self.reflect = name, text, reflect

    def __eq__(self, o):
        return isinstance(o, Decl) and o.name == self.name

    def __hash__(self):
        return hash(self.name)


def _merge(cpp, name, kids, flags=0, **kw):
    f = flags
    for k in kids:
        f |= k.flags
    t = Ty(cpp, name, f, depth=1 + max([k.depth for k in kids] + [0]), **kw)
    for k in kids:
        t.tu |= k.tu
    return t.with_decls(kids)


INTS = {
    "u8": ("std::uint8_t", 8, False), "u16": ("std::uint16_t", 16, False), "u32": ("std::uint32_t", 32, False), "u64": ("std::uint64_t", 64, False),
    "i8": ("std::int8_t", 8, True), "i16": ("std::int16_t", 16, True), "i32": ("std::int32_t", 32, True), "i64": ("std::int64_t", 64, True),
    "int": ("int", 32, True), "size_t": ("std::size_t", 64, False), "char": ("char", 8, False),
}


def prim(n):
    if n in INTS:
        return Ty(INTS[n][0], n, 0, integral=True, keyable=True)
    if n == "bool":
        return Ty("bool", "bool", 0, integral=True, keyable=True)
    if n == "float":
        return Ty("float", "float", F_FLOAT | F_NOCONSTEXPR)
    if n == "double":
        return Ty("double", "double", F_FLOAT | F_NOCONSTEXPR)
    if n == "string":
        return Ty("std::string", "string", 0, keyable=True)
    if n == "u16string":
        return Ty("std::u16string", "u16string", F_NOCONSTEXPR)
    if n == "u32string":
        return Ty("std::u32string", "u32string", F_NOCONSTEXPR)
    if n == "wstring":
        return Ty("std::wstring", "wstring", F_NOCONSTEXPR)
    raise KeyError(n)


_enum_decls = {}


def enum(under, scoped=True):
    """enum with a fixed underlying type (scoped or unscoped)"""
    nm = "E%s_%s" % ("c" if scoped else "u", under)
    u = INTS[under]
    if nm not in _enum_decls:
        b = "-3" if u[2] else ("100" if under == "char" else "200")
        if scoped:
            text = "enum class %s : %s { None = 0, A = 1, B = %s, Max = std::numeric_limits<%s>::max() };" % (nm, u[0], b, u[0])
        else:
            text = "enum %s : %s { %s_None = 0, %s_A = 1, %s_B = %s, %s_Max = std::numeric_limits<%s>::max() };" % (nm, u[0], nm, nm, nm, b, nm, u[0])
        _enum_decls[nm] = Decl(nm, text, "")
    return Ty(nm, nm, 0, decls=[_enum_decls[nm]], keyable=True).shaped("enum", under=under, scoped=scoped)


def _elem_flags(t):
    # BIN payload element restrictions
    f = 0
    if t.integral and t.cpp in ("bool",):
        f |= F_NOHOSTILE | F_NOCONSTEXPR
    if t.integral and t.cpp in ("char16_t", "char32_t", "wchar_t"):
        f |= F_NOCONSTEXPR
    return f


def vec(t):
    return _merge("std::vector<%s>" % t.cpp, "vector<%s>" % t.name, [t], _elem_flags(t)).shaped("vec", [t])


def arr(t, n):
    r = _merge("std::array<%s, %d>" % (t.cpp, n), "array<%s,%d>" % (t.name, n), [t], _elem_flags(t)).shaped("arr", [t], n=n)
    if n == 0 and t.integral:
        # the library's integral-array decoder forms &(*value)[0]; on a zero-length std::array libstdc++ yields a null reference there
        # (no memory is touched, zero bytes are transferred): UBSan's null check is switched off for these translation units only
        # (at -O1 the object-size check reports the same null reference, so both are off there)
        r.tu.add("-fno-sanitize=null,object-size")
    return r


def carr(e, n):
    """C array type E[n] through an alias (usable as the element type of another C array member: nested C arrays)"""
    nm = "CA_%s_%d" % ("".join(ch for ch in e.name if ch.isalnum()), n)
    t = _merge(nm, "%s[%d]" % (e.name, n), [e], _elem_flags(e))
    t.integral = False
    t.decls.append(Decl(nm, "using %s = %s[%d];" % (nm, e.cpp, n), ""))
    return t.shaped("carr", [e], n=n)


def mp(k, v):
    return _merge("std::map<%s, %s>" % (k.cpp, v.cpp), "map<%s,%s>" % (k.name, v.name), [k, v]).shaped("map", [k, v])


def ump(k, v):
    return _merge("std::unordered_map<%s, %s>" % (k.cpp, v.cpp), "unordered_map<%s,%s>" % (k.name, v.name), [k, v], F_UNORDERED).shaped("umap", [k, v])


def pair(a, b):
    return _merge("std::pair<%s, %s>" % (a.cpp, b.cpp), "pair<%s,%s>" % (a.name, b.name), [a, b]).shaped("pair", [a, b])


def tup(*ts):
    return _merge("std::tuple<%s>" % ", ".join(t.cpp for t in ts), "tuple<%s>" % ",".join(t.name for t in ts), list(ts)).shaped("tup", list(ts))


def opt(t, rep=False):
    # rep: the corpus only generates representable values for this nesting (engaged outer => engaged inner), so it is compared like any other type
    amb = F_AMBIGUOUS if (t.nil_lead and not rep) else 0
    r = _merge("nop::Optional<%s>" % t.cpp, "Optional<%s>" % t.name, [t], amb).shaped("opt", [t])
    r.nil_lead, r.err_lead = True, t.err_lead
    return r


def res(e, t, rep=False):
    amb = F_AMBIGUOUS if (t.err_lead and not rep) else 0
    r = _merge("nop::Result<%s, %s>" % (e.cpp, t.cpp), "Result<%s,%s>" % (e.name, t.name), [e, t], amb).shaped("res", [e, t])
    r.nil_lead, r.err_lead = t.nil_lead, True
    return r


def var(*ts):
    return _merge("nop::Variant<%s>" % ", ".join(t.cpp for t in ts), "Variant<%s>" % ",".join(t.name for t in ts), list(ts)).shaped("var", list(ts))


def bigvar(n=130):
    """Variant with more than 128 alternatives: the element index leaves the positive-fixint class (documented as INT32, minimal class)"""
    text = ("template <int I> struct VAlt { std::uint8_t v{}; NOP_VALUE(VAlt, v); };\nusing Variant%d = nop::Variant<%s>;" % (n, ", ".join("VAlt<%d>" % i for i in range(n))))
    reflect = ("template <int I> struct Reflect<VAlt<I>> {\n  static Sch schema() { return SchemaOf<std::uint8_t>(); }\n  static Val to(const VAlt<I>& x) { return ToVal(x.v); }\n"
               "  static void from(const Val& v, VAlt<I>* x) { FromVal(v, &x->v); }\n};")
    t = Ty("Variant%d" % n, "Variant%d" % n, 0, decls=[Decl("Variant%d" % n, text, reflect)])
    return t.shaped("var", [prim("u8")] * n)


def refw(t):
    r = _merge("std::reference_wrapper<%s>" % t.cpp, "reference_wrapper<%s>" % t.name, [t])
    r.nil_lead, r.err_lead = t.nil_lead, t.err_lead
    return r


def handle(kind="int"):
    if kind == "int":
        return Ty("nop::Handle<nop::DefaultHandlePolicy<int, -1>>", "Handle<int>", F_HANDLE)
    return Ty("nop::Handle<vf::TagPolicy%s>" % kind, "Handle<tag%s>" % kind, F_HANDLE)


# ---- user-defined types
class Member:
    def __init__(self, ty, carray=0):
        self.ty, self.carray = ty, carray      # carray: T name[N] member


class LBuf:
    """logical buffer pair: array member (std::array or C array) + integral size member"""
    def __init__(self, elem, n, size_ty, std_array=False):
        self.elem, self.n, self.size_ty, self.std_array = elem, n, size_ty, std_array


_counter = [0]


def _fresh(prefix):
    _counter[0] += 1
    return "%s%d" % (prefix, _counter[0])


def struct(members, name=None, external=False):
    nm = name or _fresh("S")
    lines, args, sch, tov, frm, kids, descs = [], [], [], [], [], [], []
    i = 0
    for m in members:
        if isinstance(m, LBuf):
            a, c = "a%d" % i, "n%d" % i
            if m.std_array:
                lines.append("  std::array<%s, %d> %s{};" % (m.elem.cpp, m.n, a))
            else:
                lines.append("  %s %s[%d]{};" % (m.elem.cpp, a, m.n))
            lines.append("  %s %s{0};" % (m.size_ty.cpp, c))
            args.append("(%s, %s)" % (a, c))
            sch.append("lb_schema<decltype(%s::%s), decltype(%s::%s)>()" % (nm, a, nm, c))
            tov.append("lb_to(x.%s, x.%s)" % (a, c))
            frm.append("lb_from(v.kids[%d], &x->%s, &x->%s);" % (len(kids), a, c))
            kids.append(m.elem)
            descs.append("(%s[%d],%s)" % (m.elem.name, m.n, m.size_ty.name))
        else:
            f = "m%d" % i
            if m.carray:
                lines.append("  %s %s[%d]{};" % (m.ty.cpp, f, m.carray))
                descs.append("%s[%d]" % (m.ty.name, m.carray))
            else:
                lines.append("  %s %s{};" % (m.ty.cpp, f))
                descs.append(m.ty.name)
            args.append(f)
            sch.append("SchemaOf<decltype(%s::%s)>()" % (nm, f))
            tov.append("ToVal(x.%s)" % f)
            frm.append("FromVal(v.kids[%d], &x->%s);" % (len(kids), f))
            kids.append(m.ty)
        i += 1
    if external:
        text = "struct %s {\n%s\n};\nNOP_EXTERNAL_STRUCTURE(%s, %s);" % (nm, "\n".join(lines), nm, ", ".join(args))
    else:
        text = "struct %s {\n%s\n  NOP_STRUCTURE(%s, %s);\n};" % (nm, "\n".join(lines), nm, ", ".join(args))
    reflect = ("template <> struct Reflect<%s> {\n  static Sch schema() { Sch s{K::STU}; s.kids = {%s}; s.name = \"%s\"; return s; }\n"
               "  static Val to(const %s& x) { Val v; v.kids = {%s}; return v; }\n  static void from(const Val& v, %s* x) { %s }\n};") % (
        nm, ", ".join(sch), nm, nm, ", ".join(tov), nm, " ".join(frm))
    extra = 0
    for m in members:
        if isinstance(m, LBuf):
            extra |= _elem_flags(m.elem)
        elif m.carray:
            extra |= _elem_flags(m.ty)
    t = _merge(nm, "%s{%s}" % (nm, ";".join(descs)), kids, extra)
    t.decls.append(Decl(nm, text, reflect))
    return t.shaped("struct", kids, members=list(members), external=external)


def wrapper(inner, name=None):
    """value wrapper around one member, or around a logical buffer pair"""
    nm = name or _fresh("W")
    if isinstance(inner, LBuf):
        m = inner
        arrdecl = "std::array<%s, %d> a{};" % (m.elem.cpp, m.n) if m.std_array else "%s a[%d]{};" % (m.elem.cpp, m.n)
        text = "struct %s {\n  %s\n  %s n{0};\n  NOP_VALUE(%s, (a, n));\n};" % (nm, arrdecl, m.size_ty.cpp, nm)
        reflect = ("template <> struct Reflect<%s> {\n  static Sch schema() { return lb_schema<decltype(%s::a), decltype(%s::n)>(); }\n"
                   "  static Val to(const %s& x) { return lb_to(x.a, x.n); }\n  static void from(const Val& v, %s* x) { lb_from(v, &x->a, &x->n); }\n};") % (nm, nm, nm, nm, nm)
        t = _merge(nm, "%s=wrap(%s[%d],%s)" % (nm, m.elem.name, m.n, m.size_ty.name), [m.elem], _elem_flags(m.elem))
    else:
        text = "struct %s {\n  %s v{};\n  NOP_VALUE(%s, v);\n};" % (nm, inner.cpp, nm)
        reflect = ("template <> struct Reflect<%s> {\n  static Sch schema() { return SchemaOf<decltype(%s::v)>(); }\n"
                   "  static Val to(const %s& x) { return ToVal(x.v); }\n  static void from(const Val& v, %s* x) { FromVal(v, &x->v); }\n};") % (nm, nm, nm, nm)
        t = _merge(nm, "%s=wrap(%s)" % (nm, inner.name), [inner])
        t.nil_lead, t.err_lead = inner.nil_lead, inner.err_lead
    t.integral = False
    t.decls.append(Decl(nm, text, reflect))
    return t.shaped("wrap_lb" if isinstance(inner, LBuf) else "wrap", [inner.elem] if isinstance(inner, LBuf) else [inner], inner=inner)


UB_CAPACITY = 1024


def ubuf(elem, size_ty, name, lead=(), form="structure"):
    """NOP_UNBOUNDED_BUFFER structure: optional leading (trivial) members, then the size member and a one-element array that is
    the head of caller-allocated storage (the caller vouches for the capacity; here UB_CAPACITY elements, values are clipped to it).
    form: "value" (NOP_VALUE, no leading members), "structure" (NOP_STRUCTURE), "external" (NOP_EXTERNAL_STRUCTURE + NOP_EXTERNAL_UNBOUNDED_BUFFER)."""
    nm = name
    lines, args, sch, tov, frm, kids, descs = [], [], [], [], [], [], []
    for i, t in enumerate(lead):
        f = "m%d" % i
        lines.append("  %s %s;" % (t.cpp, f)); args.append(f)
        sch.append("SchemaOf<decltype(%s::%s)>()" % (nm, f)); tov.append("ToVal(x.%s)" % f); frm.append("FromVal(v.kids[%d], &x->%s);" % (i, f))
        kids.append(t); descs.append(t.name)
    lines.append("  %s n;" % size_ty.cpp)
    lines.append("  %s a[1];" % elem.cpp)
    kids.append(elem)
    descs.append("(%s[],%s)" % (elem.name, size_ty.name))
    ubsch = "seq_schema<%s>(Len::VAR, 0)" % elem.cpp
    ubto = "seq_to<%s>(&x.a[0], &x.a[0] + (size_t)x.n, IsInt<%s>{})" % (elem.cpp, elem.cpp)
    ubfrom = ("{ const Val& sv = %%s; size_t c = seq_count<%s>(sv); if (c > %d) c = %d; %s* e = &x->a[0]; for (size_t i = 0; i < c; i++) seq_get<%s>(sv, i, e + i, IsInt<%s>{}); x->n = (%s)c; }"
              % (elem.cpp, UB_CAPACITY, UB_CAPACITY, elem.cpp, elem.cpp, elem.cpp, size_ty.cpp))
    if form == "value":
        assert not lead
        text = "struct %s {\n%s\n  NOP_VALUE(%s, (a, n));\n  NOP_UNBOUNDED_BUFFER(%s);\n};" % (nm, "\n".join(lines), nm, nm)
        reflect = ("template <> struct Reflect<%s> {\n  static Sch schema() { return %s; }\n  static Val to(const %s& x) { return %s; }\n"
                   "  static void from(const Val& v, %s* x) %s\n};") % (nm, ubsch, nm, ubto, nm, ubfrom % "v")
    else:
        allargs = ", ".join(args + ["(a, n)"])
        if form == "external":
            text = "struct %s {\n%s\n};\nNOP_EXTERNAL_STRUCTURE(%s, %s);\nNOP_EXTERNAL_UNBOUNDED_BUFFER(%s);" % (nm, "\n".join(lines), nm, allargs, nm)
        else:
            text = "struct %s {\n%s\n  NOP_STRUCTURE(%s, %s);\n  NOP_UNBOUNDED_BUFFER(%s);\n};" % (nm, "\n".join(lines), nm, allargs, nm)
        reflect = ("template <> struct Reflect<%s> {\n  static Sch schema() { Sch s{K::STU}; s.kids = {%s}; s.name = \"%s\"; return s; }\n"
                   "  static Val to(const %s& x) { Val v; v.kids = {%s}; return v; }\n  static void from(const Val& v, %s* x) { %s %s }\n};") % (
            nm, ", ".join(sch + [ubsch]), nm, nm, ", ".join(tov + [ubto]), nm, " ".join(frm), ubfrom % ("v.kids[%d]" % len(lead)))
    # storage: header + UB_CAPACITY elements, zero-initialised, owned by the holder
    holder = ("template <> struct Holder<%s> {\n  %s* p;\n  Holder() : p(static_cast<%s*>(std::calloc(1, offsetof(%s, a) + %d * sizeof(%s)))) {}\n"
              "  Holder(const Holder&) = delete;\n  ~Holder() { std::free(p); }\n  %s& get() { return *p; }\n  const %s& get() const { return *p; }\n};") % (
        nm, nm, nm, nm, UB_CAPACITY, elem.cpp, nm, nm)
    t = _merge(nm, "%s{%s}" % (nm, ";".join(descs)), kids, F_UNBOUNDED | _elem_flags(elem))
    t.tu.add("-fno-sanitize=bounds")
    t.decls.append(Decl(nm, text, reflect + "\n" + holder))
    return t.shaped("ubuf", kids, form=form)


def table(entries, name=None, hash_kind=("hash", 0), inits=None):
    """entries: list of (Ty, id, active). hash_kind: ("hash", n) | ("ns", "name") | ("plain",).
    inits: optional list (parallel to entries) of default member initialisers ("{7u}") - a table whose default-constructed state is not all-empty"""
    nm = name or _fresh("T")
    lines, args, kids, sch, tov, frm, ids, act, descs = [], [], [], [], [], [], [], [], []
    for i, (ty, eid, active) in enumerate(entries):
        f = "e%d" % i
        if active:
            lines.append("  nop::Entry<%s, %d> %s%s;" % (ty.cpp, eid, f, (inits[i] or "") if inits else ""))
            tov.append("ToVal(x.%s)" % f)
            frm.append("FromVal(v.kids[%d], &x->%s);" % (i, f))
        else:
            lines.append("  nop::Entry<%s, %d, nop::DeletedEntry> %s;" % (ty.cpp, eid, f))
            tov.append("Val()")
        args.append(f)
        sch.append("SchemaOf<%s>()" % ty.cpp)
        ids.append("%dull" % eid)
        act.append("1" if active else "0")
        kids.append(ty)
        descs.append("%s#%d%s" % (ty.name, eid, "" if active else "(deleted)"))
    if hash_kind[0] == "hash":
        macro = "NOP_TABLE_HASH(%d, %s, %s);" % (hash_kind[1], nm, ", ".join(args)); hv = hash_kind[1]
    elif hash_kind[0] == "ns":
        macro = "NOP_TABLE_NS(\"%s\", %s, %s);" % (hash_kind[1], nm, ", ".join(args)); hv = table_ns_hash(hash_kind[1])
    else:
        macro = "NOP_TABLE(%s, %s);" % (nm, ", ".join(args)); hv = 0
    text = "struct %s {\n%s\n  %s\n};" % (nm, "\n".join(lines), macro)
    reflect = ("template <> struct Reflect<%s> {\n  static Sch schema() { Sch s{K::TAB}; s.hash = 0x%xull; s.kids = {%s}; s.ids = {%s}; s.active = {%s}; s.name = \"%s\"; return s; }\n"
               "  static Val to(const %s& x) { Val v; v.kids = {%s}; (void)x; return v; }\n  static void from(const Val& v, %s* x) { %s (void)v; (void)x; }\n};") % (
        nm, hv, ", ".join(sch), ", ".join(ids), ", ".join(act), nm, nm, ", ".join(tov), nm, " ".join(frm))
    t = _merge(nm, "%s<%s>" % (nm, ";".join(descs)), kids, F_TABLE)
    t.decls.append(Decl(nm, text, reflect))
    return t.shaped("table", kids, entries=list(entries), hash_kind=hash_kind)


# ---------------------------------------------------------------- curated corpus
def curated():
    P = prim
    C = []
    A = C.append
    # scalars
    for n in ["bool", "char", "u8", "u16", "u32", "u64", "i8", "i16", "i32", "i64", "int", "size_t", "float", "double"]:
        A(P(n))
    for u in ["u8", "i8", "u16", "i16", "u32", "i32", "u64", "i64"]:
        A(enum(u, True))
    A(enum("u32", False)); A(enum("char", True))      # (plain char underlying type: encoded as an unsigned 8-bit class whatever its signedness)
    for s in ["string", "u16string", "u32string", "wstring"]:
        A(P(s))
    # sequences of integral (BIN) and non-integral (ARY) elements
    A(vec(P("u8"))); A(vec(P("u32"))); A(vec(P("i64"))); A(vec(P("char"))); A(vec(P("i16")))
    A(vec(P("string"))); A(vec(P("double"))); A(vec(enum("u16")))
    A(arr(P("u16"), 3)); A(arr(P("i32"), 5)); A(arr(P("u8"), 16)); A(arr(P("string"), 2)); A(arr(P("float"), 2)); A(arr(P("u64"), 1)); A(arr(P("bool"), 3))
    A(vec(vec(P("u8")))); A(arr(arr(P("u16"), 2), 3)); A(vec(arr(P("i32"), 2)))
    A(arr(P("u8"), 0)); A(arr(P("string"), 0)); A(struct([Member(arr(P("u32"), 0)), Member(P("i8"))], "SArr0"))   # zero-length arrays (the empty-sequence boundary)
    # products / maps
    A(pair(P("int"), P("string"))); A(pair(P("u64"), P("u64")))
    A(tup()); A(tup(P("u8"))); A(tup(P("u8"), enum("u8"), vec(P("i64")))); A(tup(P("i32"), P("i32"), P("i32"), P("string"), P("double")))
    A(mp(P("string"), P("i64"))); A(mp(P("u8"), enum("i32"))); A(ump(P("u16"), P("string"))); A(ump(P("string"), vec(P("u32")))); A(mp(P("i32"), mp(P("u8"), P("string"))))
    A(refw(P("u32"))); A(refw(P("string"))); A(refw(vec(P("i16"))))
    # sums
    A(opt(P("bool"))); A(vec(opt(P("bool"))));
    A(opt(P("i32"))); A(opt(P("string"))); A(opt(vec(P("u16")))); A(vec(opt(P("u8"))))
    A(res(enum("u8"), P("string"))); A(res(enum("i32"), P("u32"))); A(res(enum("i16"), vec(P("string"))))
    A(var(P("i32"))); A(var(P("i32"), P("string"), vec(P("u8")))); A(var(P("float"), P("u64"), P("string"), opt(P("i8")), pair(P("u8"), P("u8"))))
    A(var(P("u8"), P("u16")))
    A(bigvar(130))
    # integral arrays whose payload is large in bytes (multi-byte elements, > 256 bytes) and a C array member of that kind
    A(arr(P("u32"), 200)); A(arr(P("i16"), 300)); A(struct([Member(P("u64"), 40), Member(P("u8"))], "SBigCArr"))
    A(opt(opt(P("i32")))); A(res(enum("u8"), res(enum("i32"), P("u8"))))   # format-ambiguous nestings (known limits of the format)
    # the same nestings with heap-owning elements, restricted to the values the format can represent (engaged outer => engaged inner)
    A(opt(opt(P("string")), rep=True)); A(res(enum("u8"), res(enum("i32"), vec(P("string"))), rep=True)); A(vec(opt(opt(P("string")), rep=True)))
    A(handle()); A(vec(handle())); A(opt(handle())); A(handle("A"))
    # structures
    s1 = struct([Member(P("i32")), Member(P("string")), Member(vec(P("u16"))), Member(opt(P("double")))], "S1"); A(s1)
    A(struct([Member(P("u8"), 4), Member(P("string"), 2), Member(P("i64"))], "SCArr"))
    A(struct([Member(carr(P("i32"), 3), 2), Member(carr(P("string"), 2), 2), Member(P("u8"))], "SNestC"))   # nested C arrays i32[2][3], string[2][2]
    # wide strings followed by more data (readers that account characters vs bytes differently go wrong on what follows)
    A(struct([Member(P("u16string")), Member(P("u64")), Member(arr(P("u32"), 4))], "SWide")); A(pair(P("u32string"), P("i64"))); A(vec(P("wstring"))); A(tup(P("u16string"), P("string"), P("u16")))
    # plain C char arrays (not logical buffers): in the middle of a structure and as its last member (a write one past the array leaves the object)
    A(struct([Member(P("char"), 8), Member(P("u8"))], "SChar8Mid")); A(struct([Member(P("u16")), Member(P("char"), 8)], "SChar8Last"))
    # non-integral arrays of enums (variable-width elements)
    A(arr(enum("u16"), 3)); A(arr(enum("i32"), 4)); A(struct([Member(enum("u32"), 3), Member(P("u8"))], "SEnumArr"))
    A(table([(arr(enum("i32"), 4), 1, True), (P("string"), 2, True), (vec(enum("u16")), 3, True)], "TEnumArr", ("hash", 31)))
    A(struct([Member(P("u8"))], "SOne")); A(struct([Member(P("u8")), Member(P("u8"))], "SExt", external=True))
    A(struct([LBuf(P("u32"), 100, P("u8"))], "LBu32x100_u8"))
    A(struct([LBuf(P("u8"), 300, P("int"))], "LBu8x300_int"))
    A(struct([LBuf(P("string"), 4, P("size_t"), std_array=True), Member(P("i16"))], "LBstr4_szt"))
    A(struct([LBuf(P("u16"), 7, P("u16")), LBuf(P("u64"), 3, P("u32"), std_array=True)], "LB2"))
    A(struct([LBuf(P("char"), 20, P("u64")), Member(P("u8"))], "LBchar20_u64"))
    A(struct([LBuf(s1, 3, P("u8"))], "LBS1x3_u8"))
    A(struct([LBuf(P("float"), 5, P("i32"))], "LBf5_i32"))
    A(struct([LBuf(P("i32"), 1, P("size_t"))], "LBi32x1"))
    # narrow signed size members (an oversize count stored in them is negative) after other members
    A(struct([Member(vec(P("string"))), LBuf(P("u16"), 5, P("i8")), Member(P("float"))], "LBu16x5_i8")); A(struct([Member(P("string")), LBuf(P("u32"), 100, P("i16"))], "LBu32x100_i16"))
    A(wrapper(P("u32"), "Wu32")); A(wrapper(vec(s1), "WvecS1")); A(wrapper(LBuf(P("u16"), 9, P("u8")), "WLB")); A(vec(wrapper(P("string"), "Wstr")))
    A(struct([Member(handle()), Member(P("string")), Member(vec(handle()))], "SHnd"))
    # unbounded logical buffers (round trip / format / truncation / size / fault checks only; C02 and C04 exclude them as stated)
    tri = struct([Member(P("float")), Member(P("i16"))], "STri")
    A(ubuf(P("u32"), P("size_t"), "UBu32_szt", form="value"))
    A(ubuf(P("u8"), P("u16"), "UBu8_u16", lead=[P("u8")]))
    A(ubuf(tri, P("u32"), "UBTri_u32", lead=[P("i32"), enum("u8")]))
    A(ubuf(P("i64"), P("int"), "UBi64_int", lead=[P("u16")], form="external"))
    # tables
    t1 = table([(s1, 0, True), (vec(P("string")), 3, True), (P("int"), 7, False), (mp(P("u8"), enum("i32")), 300, True)], "T1", ("ns", "verif.T1")); A(t1)
    t1r = table([(s1, 0, True), (P("int"), 7, False), (mp(P("u8"), enum("i32")), 300, False), (P("string"), 9, True)], "T1_R", ("ns", "verif.T1")); A(t1r)   # reader-side version of T1: skips entries 3 and 300
    A(table([(P("string"), 1, True), (P("u16"), 2, True), (vec(P("u32")), 3, True), (s1, 4, True)], "T3", ("ns", "verif.T3")))
    A(table([(P("string"), 1, True), (P("u16"), 2, True)], "T3_R", ("ns", "verif.T3")))          # older revision: no deleted entries, entries 3 and 4 unknown
    A(table([(P("u8"), 1, True)], "TOne", ("plain",)))
    A(table([(P("u64"), 1, False), (P("string"), 2, False)], "TAllDeleted", ("hash", 1 << 40)))
    t2 = table([(P("string"), 1, True), (t1, 2, True), (opt(P("i32")), 0xffffffffff, True)], "TNest", ("hash", 127)); A(t2)
    A(table([(P("string"), 1, False), (t1r, 2, True), (P("u16"), 77, True)], "TNest_R", ("hash", 127)))   # reader-side version of TNest
    A(vec(t1)); A(opt(t2)); A(struct([Member(t1), Member(P("u8"))], "STab")); A(var(t1, P("int")))
    A(table([(handle(), 1, True), (P("int"), 2, True), (vec(handle()), 3, True)], "THnd", ("hash", 5)))
    A(table([(struct([Member(P("u16")), Member(handle()), Member(opt(handle()))], "SHndIn"), 1, True), (P("string"), 2, True), (pair(handle(), P("u8")), 3, True)], "THndStruct", ("hash", 6)))   # handles hidden inside structure / pair entries
    A(table([(var(P("i32"), P("string")), 1, True), (res(enum("u8"), vec(P("u8"))), 2, True), (P("double"), 9, True)], "TSum", ("ns", "verif.TSum")))
    # depth-3 nestings
    A(mp(P("string"), vec(opt(s1)))); A(vec(pair(enum("u8"), var(P("string"), vec(P("i32")))))); A(opt(tup(vec(P("u8")), mp(P("u8"), P("u8")), P("string"))))
    A(vec(vec(vec(P("u16")))))
    return C


# ---------------------------------------------------------------- random corpus (thorough tier, VERIF_SEED dependent)
def random_type(rng, depth, allow_table=True, allow_handle=False, need_key=False):
    scalars = ["bool", "char", "u8", "u16", "u32", "u64", "i8", "i16", "i32", "i64", "int", "size_t", "float", "double", "string"]
    if need_key:
        c = rng.choice(["u8", "u16", "u32", "u64", "i8", "i16", "i32", "i64", "string", "enum"])
        return enum(rng.choice(["u8", "i16", "u32", "i64"])) if c == "enum" else prim(c)
    if depth <= 0 or rng.random() < 0.25:
        c = rng.choice(scalars + ["enum", "u16string"])
        if c == "enum":
            return enum(rng.choice(["u8", "i8", "u16", "i16", "u32", "i32", "u64", "i64"]))
        return prim(c)
    k = rng.choice(["vec", "vec", "arr", "map", "umap", "pair", "tup", "opt", "res", "var", "struct", "struct", "wrap", "table", "lb"])
    sub = lambda **kw: random_type(rng, depth - 1, allow_table, allow_handle, **kw)
    if k == "vec":
        e = sub()
        while e.cpp == "bool":          # std::vector<bool> has no data(): not a supported shape
            e = sub()
        return vec(e)
    if k == "arr":
        return arr(sub(), rng.choice([1, 2, 3, 5]))
    if k == "map":
        return mp(sub(need_key=True), sub())
    if k == "umap":
        return ump(sub(need_key=True), sub())
    if k == "pair":
        return pair(sub(), sub())
    if k == "tup":
        return tup(*[sub() for _ in range(rng.choice([0, 1, 2, 3, 4]))])
    if k == "opt":
        t = sub()
        return t if t.nil_lead else opt(t)
    if k == "res":
        t = sub()
        return t if t.err_lead else res(enum(rng.choice(["u8", "i32", "i16"])), t)
    if k == "var":
        # a Variant that has another Variant directly among its alternatives cannot be copy/move assigned (the inner value is handed to the
        # converting operator=(Variant<Other...>&&) template, which does not compile): not a shape the library supports
        alts = []
        while len(alts) < rng.choice([1, 2, 3, 4]):
            t = sub()
            if t.kind != "var":
                alts.append(t)
        return var(*alts)
    if k == "wrap":
        return wrapper(sub())
    if k == "lb":
        e = rng.choice(["u8", "u16", "u32", "u64", "i32", "char", "string", "double"])
        n = rng.choice([1, 2, 5, 17, 130, 260])
        szs = [s for s in ["u8", "u16", "u32", "u64", "i32", "int", "size_t", "i16", "i8"] if n <= {"u8": 255, "i8": 127, "i16": 32767}.get(s, 1 << 31)]
        return struct([LBuf(prim(e), n, prim(rng.choice(szs)), std_array=rng.random() < 0.4), Member(sub())])
    if k == "table" and allow_table:
        n = rng.choice([1, 2, 3, 4])
        ids = rng.sample([0, 1, 2, 5, 127, 128, 255, 256, 65535, 65536, 1 << 32, (1 << 64) - 1], n)
        ents = [(sub(), i, rng.random() < 0.8) for i in ids]
        hk = rng.choice([("hash", rng.choice([0, 1, 127, 128, 1 << 33])), ("ns", "rand.T%d" % rng.randrange(10**6)), ("plain",)])
        return table(ents, hash_kind=hk)
    ms = []
    for _ in range(rng.choice([1, 2, 3, 4])):
        t = sub()
        ms.append(Member(t, rng.choice([0, 0, 0, 2, 3]) if not t.cpp.startswith("std::reference") else 0))
    return struct(ms)


def random_corpus(seed, n, depth=3):
    rng = random.Random(seed * 1000003 + 17)
    out, seen = [], set()
    while len(out) < n:
        t = random_type(rng, depth)
        if t.cpp in seen or t.depth < 1:
            continue
        seen.add(t.cpp)
        out.append(t)
    return out


# ---------------------------------------------------------------- emission
HEADER = """// generated by gen/typegen.py -- do not edit
#include <cstddef>
#include <cstdlib>
#include <limits>
#include "vlib/ops.h"
#include "vlib/tagpolicy.h"
"""


def emit_tus(outdir, types, per_tu=6, prefix="types"):
    """Writes <prefix>_decls.h (all user types + reflection) and <prefix>_NN.cpp registration TUs. Returns list of .cpp."""
    os.makedirs(outdir, exist_ok=True)
    decls = []
    for t in types:
        for d in t.decls:
            if d not in decls:
                decls.append(d)
    H = [HEADER]
    for d in decls:
        H.append(d.text)
    H.append("namespace vf {")
    for d in decls:
        if d.reflect:
            H.append(d.reflect)
    H.append("}  // namespace vf")
    _write(os.path.join(outdir, prefix + "_decls.h"), "\n".join(H) + "\n")
    srcs = []
    # types that need extra per-translation-unit flags (UBSan array-bounds off for the documented flexible-array idiom of NOP_UNBOUNDED_BUFFER,
    # UBSan null off for zero-length integral std::arrays, see DESIGN.md 9.6) are grouped by flag set into their own translation units
    groups = {}
    for t in types:
        groups.setdefault(" ".join(sorted(t.tu)), []).append(t)
    chunks = []
    for key in sorted(groups):
        g = groups[key]
        for i in range(0, len(g), per_tu):
            chunks.append((key, g[i:i + per_tu]))
    for ci, (key, chunk) in enumerate(chunks):
        i = ci * per_tu
        L = (["// VF-FLAGS(asan,fuzz): " + key] if key else []) + ['#include "%s_decls.h"' % prefix, "namespace {"]
        for j, t in enumerate(chunk):
            L.append("using CT%d = %s;" % (j, t.cpp))
            L.append('static vf::Registrar reg%d(vf::MakeOps<CT%d, %du>(%s, %s));' % (j, j, t.flags, _cq(t.name), _cq(t.cpp)))
        L.append("}")
        p = os.path.join(outdir, "%s_%02d.cpp" % (prefix, i // per_tu))
        _write(p, "\n".join(L) + "\n")
        srcs.append(p)
    # remove stale TUs
    keep = set(os.path.basename(s) for s in srcs)
    for f in os.listdir(outdir):
        if f.startswith(prefix + "_") and f.endswith(".cpp") and f not in keep:
            os.remove(os.path.join(outdir, f))
    return srcs


def _cq(s):
    return '"' + s.replace("\\", "\\\\").replace('"', '\\"') + '"'


def _write(p, text):
    if not os.path.exists(p) or open(p).read() != text:
        open(p, "w").write(text)


def generate(outdir, tier, seed):
    _counter[0] = 0
    types = curated()
    if tier == "thorough":
        types += random_corpus(seed, 120, 3)
    else:
        types += random_corpus(0, 24, 2)
    # unique by cpp spelling
    seen, uniq = set(), []
    for t in types:
        if t.cpp not in seen:
            seen.add(t.cpp)
            uniq.append(t)
    return emit_tus(outdir, uniq)


def handle_corpus():
    """handle-bearing types for the C15 transfer check (every nesting position named by the property)"""
    P = prim
    C = [handle(), handle("A"), handle("B"), vec(handle()), opt(handle()), arr(handle(), 3), pair(handle(), handle("A")), var(handle(), P("string")), mp(P("u8"), handle()),
         struct([Member(handle()), Member(P("string")), Member(vec(handle())), Member(opt(handle("B")))], "SHnd2"),
         table([(handle(), 1, True), (P("int"), 2, True), (vec(handle()), 3, True), (handle("A"), 4, False)], "THnd2", ("hash", 5)),
         table([(P("string"), 1, True), (table([(handle(), 7, True), (opt(handle()), 8, True)], "THndInner", ("hash", 9)), 2, True), (var(handle("A"), P("u8")), 3, True)], "THndOuter", ("ns", "verif.THndOuter")),
         vec(struct([Member(handle()), Member(P("u16"))], "SHndSmall")), struct([LBuf(handle(), 4, P("u8"))], "LBHnd")]
    return C


def generate_handles(outdir):
    _counter[0] = 1000
    return emit_tus(outdir, handle_corpus(), per_tu=5, prefix="htypes")


def mt_corpus():
    P = prim
    s1 = struct([Member(P("i32")), Member(P("string")), Member(vec(P("u16"))), Member(opt(P("double")))], "S1")
    t1 = table([(s1, 0, True), (vec(P("string")), 3, True), (P("int"), 7, False), (mp(P("u8"), enum("i32")), 300, True)], "T1", ("ns", "verif.T1"))
    t1r = table([(s1, 0, True), (P("int"), 7, False), (mp(P("u8"), enum("i32")), 300, False), (P("string"), 9, True)], "T1_R", ("ns", "verif.T1"))
    return [s1, t1, t1r, mp(P("string"), P("i64")), vec(P("string")), var(P("i32"), P("string"), vec(P("u8"))), struct([LBuf(P("u32"), 100, P("u8")), Member(P("string"))], "LBmt"),
            opt(P("string")), tup(P("u8"), P("string"), vec(P("i64"))), vec(s1), ump(P("u16"), P("string")), res(enum("u8"), P("string"))]


def generate_mt(outdir):
    _counter[0] = 60000
    return emit_tus(outdir, mt_corpus(), per_tu=3, prefix="mttypes")
