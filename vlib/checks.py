"""Registry of checks: property id -> engine, flavour, generator, sources, evidence rule."""
import os
import sys

VERIF = os.path.dirname(os.path.dirname(os.path.abspath(__file__)))
sys.path.insert(0, os.path.join(VERIF, "gen"))
BUILD = os.path.join(VERIF, "build")


def gen_hash(prop, tier, seed):
    import hashgen
    s = seed if tier == "thorough" else 0
    d = os.path.join(BUILD, "gen", "hash-%s-%d" % (tier, s))
    if tier == "thorough":
        hashgen.generate(d, s, 300, 120, 300)
    else:
        hashgen.generate(d, s, 120, 40, 120)
    return d, []


CHECKS = {}
NOT_YET = {}
ENGINE_KIND = {
    "hash": "C++ harness (ASan+UBSan / plain): SipHash and HostEndian value oracles against independent reference implementations; compile-time constants emitted by a generator",
}

CHECKS["C18"] = dict(
    engine="hash", flavour="asan", level="exploration", gen=gen_hash,
    sources=["engines/hash/main.cpp"], flags=["-fno-sanitize=shift-base"],
    rule=("cases = (byte string, k0, k1) triples through SipHash::Compute over BlockReader<uint8_t/char/int8_t> compared with an "
          "independent SipHash-2-4 (every length 0..1100 at least once, random and extreme keys, 7-bit / random / 0x00 / 0x80 / 0xff contents), plus "
          "generated NOP_TABLE_NS tables, NOP_INTERFACE/NOP_INTERFACE32 interfaces with NOP_METHOD selectors and constexpr literals whose "
          "compile-time constants are emitted into the binary and compared with run-time evaluation, the reference, and the hash field parsed "
          "from the table's encoding. distinct = distinct hash of (bytes, keys) / name; non-trivial = non-empty input."),
    floor={"quick": 5000, "thorough": 200000},
    require_counters=["c18_runtime_cases", "c18_table_names", "c18_method_selectors", "c18_constexpr_literals", "c18_len_gt_255"],
    technique="runtime differential oracle (independent SipHash-2-4) + compile-time-constant emission, under ASan/UBSan",
    level_text="exploration: 10^4-10^6 random (bytes,key) inputs incl. every length 0..1100 and hundreds of generated table/interface/method names are each decided exactly by comparison with an independent SipHash-2-4; compile-time constants are emitted into the binary and compared with run-time evaluation and with the hash field parsed off the wire. The input space is unbounded, so sampling with exact per-case oracles is the reachable level.",
    level_note="trusts the 30-line reference SipHash-2-4 in engines/hash/main.cpp and the compiler's constant evaluation being the one users get",
    assumptions=["the reference SipHash-2-4 in engines/hash/main.cpp (written from the paper) is correct; it reproduces the paper's test vector through the library's own SipHash::Vectors-equivalent inputs",
                 "generated names are 7-bit ASCII plus three UTF-8 names (bytes >= 0x80 through the char-typed block reader)"],
)

CHECKS["C20"] = dict(
    engine="hash", flavour={"quick": "asan", "thorough": "plain"}, level="exploration", gen=gen_hash,
    sources=["engines/hash/main.cpp"], flags=["-fno-sanitize=shift-base"],
    rule=("cases = values x of int8..int64, uint8..uint64, float, double; FromLittle/ToLittle/FromBig/ToBig and the To∘From compositions are compared by bit "
          "pattern with an independent memcpy byte reversal selected by a run-time endianness probe. 8/16-bit: all values; 32-bit: 2^24 strided "
          "values per type (quick) or all 2^32 bit patterns (thorough); all widths >= 32: every byte-lane value, walking ones/zeros, boundaries, NaN classes; "
          "64-bit: 2^20 / 2^26 random incl. NaN payloads. distinct = enumerated values (disjoint by construction) + hashed patterns; "
          "non-trivial = byte reversal changes the value."),
    floor={"quick": 100000, "thorough": 1000000},
    require_counters=["c20_values_checked"],
    exhaustive_counter="c20_exhaustive_32bit_values",
    technique="runtime value oracle (independent byte reversal), exhaustive sweeps for <= 32 bit in thorough, ASan/UBSan in quick",
    level_text="exploration, exhaustive where feasible: all 8/16-bit values always, all 2^32 bit patterns of int32/uint32/float in the thorough tier, byte-lane/boundary/NaN-payload/random coverage for 64-bit; every value is decided exactly by an independent memcpy byte reversal.",
    level_note="trusts memcpy-based byte reversal and the run-time endianness probe; 64-bit types are sampled, not enumerated",
    assumptions=["UBSan shift-base is disabled for this engine: HostEndian<signed T> left-shifts promoted signed values, formally UB in C++14 but not what C20 states; C20 is decided by the value oracle"],
)
