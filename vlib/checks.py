"""Registry of checks: property id -> engine, flavour, generator, sources, evidence rule."""
import os
import sys

VERIF = os.path.dirname(os.path.dirname(os.path.abspath(__file__)))
sys.path.insert(0, os.path.join(VERIF, "gen"))
BUILD = os.path.join(VERIF, "build")


def gen_hash(prop, tier, seed):
    import hashgen
    s = seed if tier == "thorough" else 0
    d = os.path.join(BUILD, "gen", "hash-%s-%d" % (tier, s))
    if tier == "thorough":
        hashgen.generate(d, s, 300, 120, 300)
    else:
        hashgen.generate(d, s, 120, 40, 120)
    return d, []


CHECKS = {}
NOT_YET = {}
ENGINE_KIND = {
    "hash": "C++ harness (ASan+UBSan / plain): SipHash and HostEndian value oracles against independent reference implementations; compile-time constants emitted by a generator",
}

CHECKS["C18"] = dict(
    engine="hash", flavour="asan", level="exploration", gen=gen_hash,
    sources=["engines/hash/main.cpp", "engines/hash/lean_endian.cpp", "engines/hash/early_endian.cpp", "engines/hash/ndebug_endian.cpp", "engines/hash/const_endian.cpp"], flags=["-fno-sanitize=shift-base"],
    rule=("cases = (byte string, k0, k1) triples through SipHash::Compute over BlockReader<uint8_t/char/int8_t> compared with an "
          "independent SipHash-2-4 (every length 0..1100 at least once, random and extreme keys, 7-bit / random / 0x00 / 0x80 / 0xff contents), plus "
          "generated NOP_TABLE_NS tables, NOP_INTERFACE/NOP_INTERFACE32 interfaces with NOP_METHOD selectors and constexpr literals whose "
          "compile-time constants are emitted into the binary and compared with run-time evaluation, the reference, and the hash field parsed "
          "from the table's encoding. Curated method names whose truncated selector is 0, 1, 0x7fffffff, 0x80000000, 0xffffffff (found by an offline search); byte containers whose size() is int / unsigned / uint16_t / uint8_t. distinct = distinct hash of (bytes, keys) / name; non-trivial = non-empty input."),
    floor={"quick": 5000, "thorough": 200000},
    require_counters=["c18_runtime_cases", "c18_table_names", "c18_method_selectors", "c18_constexpr_literals", "c18_len_gt_255", "c18_selectors_at_the_edges_of_the_32bit_range", "c18_user_containers_with_narrow_size_types"],
    technique="runtime differential oracle (independent SipHash-2-4) + compile-time-constant emission, under ASan/UBSan",
    level_text="exploration: 10^4-10^6 random (bytes,key) inputs incl. every length 0..1100 and hundreds of generated table/interface/method names are each decided exactly by comparison with an independent SipHash-2-4; compile-time constants are emitted into the binary and compared with run-time evaluation and with the hash field parsed off the wire. The input space is unbounded, so sampling with exact per-case oracles is the reachable level.",
    level_note="trusts the 30-line reference SipHash-2-4 in engines/hash/main.cpp and the compiler's constant evaluation being the one users get",
    assumptions=["the reference SipHash-2-4 in engines/hash/main.cpp (written from the paper) is correct; it reproduces the paper's test vector through the library's own SipHash::Vectors-equivalent inputs",
                 "generated names are 7-bit ASCII plus three UTF-8 names (bytes >= 0x80 through the char-typed block reader)"],
)

CHECKS["C20"] = dict(
    engine="hash", flavour={"quick": "asan", "thorough": "plain"}, level="exploration", gen=gen_hash,
    sources=["engines/hash/main.cpp", "engines/hash/lean_endian.cpp", "engines/hash/early_endian.cpp", "engines/hash/ndebug_endian.cpp", "engines/hash/const_endian.cpp"], flags=["-fno-sanitize=shift-base"],
    rule=("cases = values x of int8..int64, uint8..uint64, float, double; FromLittle/ToLittle/FromBig/ToBig and the To∘From compositions are compared by bit "
          "pattern with an independent memcpy byte reversal selected by a run-time endianness probe. 8/16-bit: all values; 32-bit: 2^24 strided "
          "values per type (quick) or all 2^32 bit patterns (thorough); all widths >= 32: every byte-lane value, walking ones/zeros, boundaries, NaN classes; "
          "64-bit: 2^20 / 2^26 random incl. NaN payloads. Also every distinct integral type of the ABI (long long, unsigned long long, char, wchar_t, char16_t, char32_t), and the "
          "same conversions compiled in a lean translation unit that includes the library header first (include-order independence), and conversions made during static initialisation by an early-initialised global of another translation unit. Also the conversions compiled in a translation unit built with NDEBUG (release build of a header-only library), and namespace-scope / function-local static const objects initialised with constant arguments (where the compiler may evaluate the conversion itself). bool and the cv-qualified floating-point types (const float, volatile float, const double, const volatile double). distinct = enumerated values (disjoint by construction) + hashed patterns; "
          "non-trivial = byte reversal changes the value."),
    floor={"quick": 100000, "thorough": 1000000},
    require_counters=["c20_values_checked", "c20_lean_translation_unit_values", "c20_static_initialisation_values", "c20_values_converted_in_an_NDEBUG_translation_unit", "c20_constants_the_compiler_may_fold", "c20_values_through_cv_qualified_types_and_bool"],
    exhaustive_counter="c20_exhaustive_32bit_values",
    technique="runtime value oracle (independent byte reversal), exhaustive sweeps for <= 32 bit in thorough, ASan/UBSan in quick",
    level_text="exploration, exhaustive where feasible: all 8/16-bit values always, all 2^32 bit patterns of int32/uint32/float in the thorough tier, byte-lane/boundary/NaN-payload/random coverage for 64-bit; every value is decided exactly by an independent memcpy byte reversal.",
    level_note="trusts memcpy-based byte reversal and the run-time endianness probe; 64-bit types are sampled, not enumerated",
    assumptions=["UBSan shift-base is disabled for this engine: HostEndian<signed T> left-shifts promoted signed values, formally UB in C++14 but not what C20 states; C20 is decided by the value oracle"],
)


# a release build (g++ -O2 -DNDEBUG, ASan+UBSan): what users of a header-only library actually compile. Work done inside assert(), behaviour that
# depends on the optimiser (type punning, uninitialised members) and g++-only overload choices show here and not in the -O0/-O1 clang build.
def _release(only_type, flavour="gasan"):
    # (g++ 12 -O2 with ASan crashes in its inliner on some generated codec translation units - an internal compiler error, not a finding - so the codec
    #  engine's release build uses clang++)
    return {"flavour": flavour, "flags": ["-O2", "-DNDEBUG"], "only_type": only_type, "prefix": "release", "label": "release build (%s -O2 -DNDEBUG)" % ("g++" if flavour == "gasan" else "clang++"), "counter_prefix": "release_build_"}



# ------------------------------------------------------------------ codec engine (C01-C06, C10, C11)
def gen_codec(prop, tier, seed):
    import typegen
    s = seed if tier == "thorough" else 0
    d = os.path.join(BUILD, "gen", "codec-%s-%d" % (tier, s))
    srcs = typegen.generate(d, tier, s)
    return d, srcs


ENGINE_KIND["codec"] = ("C++ harness (ASan+UBSan): generated type corpus with independent reflection, reference codec written from docs/format.md, "
                        "instrumented readers/writers, allocation meter; every shipped reader/writer kind instantiated per type")
_codec = dict(engine="codec", flavour="asan", gen=gen_codec, sources=["engines/codec/main.cpp", "engines/codec/forms.cpp"], programs_counter=None)

_CORPUS = ("type corpus = curated types (every scalar, enums, strings, BIN/ARY sequences, maps, pair/tuple, reference_wrapper, Optional/Result/Variant, "
           "Handle, structures incl. logical buffers with every size-member shape, value wrappers, tables incl. nested/deleted/handle entries, depth-3 nestings) "
           "+ grammar-generated types (quick: fixed set; thorough: VERIF_SEED-dependent, 120 more); values are boundary-biased per schema. ")


def _codec_check(pid, level, rule, floor, require, level_text, level_note, technique, assumptions=(), **kw):
    d = dict(_codec)
    d.update(level=level, rule=_CORPUS + rule, floor=floor, require_counters=require, level_text=level_text, level_note=level_note,
             technique=technique, assumptions=list(assumptions))
    d.update(kw)
    CHECKS[pid] = d


_codec_check(
    "C01", "exploration",
    "case = (type, sequence of 1..5 generated values): written with every applicable writer kind (Log, Buffer, Pedantic, Constexpr, Stream, Fd over memfd/pipe, "
    "Bounded over each; all must emit identical bytes) and read back with every applicable reader kind (Log, Buffer, Pedantic, Stream over stringstream and over a "
    "non-seekable chunked streambuf, Fd over memfd/pipe, Bounded over each, plus FdReader on a pipe fed concurrently in 1..7-byte chunks); oracle = value equality on the "
    "dynamic value tree (floats by bit pattern), reader position after every value = bytes the writer had produced, trailing sentinel reads back. Oversize logical "
    "buffers must be rejected by Write without UB. NOP_UNBOUNDED_BUFFER structures (value / structure / external forms, integral and structure elements) round-trip through caller-allocated storage. "
    "API-form stage: seven hand-written types through every documented form - Serializer<W> with an internal writer (incl. take() and move construction), Serializer<W*>, Serializer<unique_ptr<W>>, the three Deserializer forms, "
    "Protocol<T>::Write/Read on each - must emit the reference bytes, read the sequence back and end exactly after it. Half of the sequences are followed by more data (a sentinel that must read back), half end the stream; on every other reader kind the values of a sequence are read into one reused object. "
    "Fault stage: FdWriter / FdReader on a blocking pipe with a 4 KiB kernel buffer, a slow peer thread and a signal storm without SA_RESTART on the calling thread (partial and EINTR system calls) must transfer exactly the encoding. distinct = hash(type, bytes); non-trivial = encoding of 2+ bytes.",
    {"quick": 3000, "thorough": 30000}, ["c01_values", "c01_sequences", "c01_reader_FdReader", "c01_reader_BoundedReader<Chunked>", "c01_writer_ConstexprBufferWriter", "c01_oversize_logical_buffer_writes", "cases_on_unbounded_buffer_types", "forms_writer_form_runs", "forms_reader_form_runs", "c01_sequences_ending_the_stream", "c01_sequences_read_into_one_object", "fd_storm_writes", "fd_storm_reads", "fd_storm_signals_delivered", "release_build_forms_writer_form_runs"],
    "exploration: 10^4-10^5 generated (type, value-sequence) cases, each decided exactly (value tree equality, exact consumed length) on every shipped writer x reader kind, with ASan/UBSan watching the same executions. Types, values and pairings are unbounded sets; sampling with exact per-case oracles is the level this technique reaches.",
    "trusts the independent reflection (vlib/reflect.h + generated Reflect specialisations) to read/write C++ objects faithfully; pairings are exercised per kind through identical bytes rather than as a literal cross product",
    "runtime round-trip oracle on every shipped reader/writer kind under ASan/UBSan, generated type corpus", second_build=_release("forms:*", "asan"))

_codec_check(
    "C03", "exploration",
    "case = (type, value): bytes captured from the writer are compared byte for byte with RefEncode (independent encoder written from docs/format.md); the annotation names the "
    "first differing field; the same object is written twice. Integer types additionally: all 8/16-bit values exhaustively, +-2 around every class boundary, 2^14/2^20 random "
    "32/64-bit values; containers up to 70000 elements cross the U8/U16/U32 length-class boundaries; a 130-alternative Variant takes the element index out of the fixint class. "
    "Two shipped writer kinds per case (rotating) and FdWriter on a blocking pipe under a signal storm must put exactly the reference bytes on the medium. distinct = hash(type, bytes) + enumerated integers.",
    {"quick": 20000, "thorough": 300000}, ["c03_encodings_compared", "c03_dense_int_values", "c03_exhaustive_small_int_values", "c03_shipped_writer_encodings_compared", "fd_storm_writes"],
    "exploration with exhaustive small scopes: every generated (type, value) is decided exactly by byte comparison with an independent encoder; 8- and 16-bit integers are enumerated completely.",
    "trusts ref/refcodec.h (≈150 lines written from docs/format.md, validated against libnop on 2.7M differential decodes during design) as the statement of the format",
    "differential byte-for-byte comparison with an independent reference encoder")

_codec_check(
    "C04", "exploration",
    "case = (type, byte string) on BufferReader, PedanticBufferReader, BoundedReader<Pedantic>, BoundedReader<Buffer>: byte strings are derived from annotated reference encodings: "
    "every cut, all 256 prefix bytes at prefix positions, every integer field re-encoded in every class that can hold it (legal wider classes must be accepted, too-wide / "
    "other-signedness rejected), boundary value substitutions in length/count/id/size/hash/index/tag fields, Val-level single defects (fixed count +-1 with matching payload, "
    "non-multiple byte lengths, logical buffer above capacity), noise, random strings. Oracle = RefDecode: accept/reject, decoded value, consumed length on every input; "
    "error category only where the reference's first error sits exactly at the single injected defect. Every other input is decoded into a destination that already holds another value. distinct = hash(type, bytes); non-trivial = non-empty input.",
    {"quick": 50000, "thorough": 1000000}, ["c04_differential_decodes", "c04_accepted_and_value_compared", "c04_single_defect_categories_compared", "c04_inputs_reference_accepts", "c04_inputs_reference_rejects", "c04_decodes_into_used_destination", "c04_valid_encodings_on_every_reader", "c04_valid_encodings_on_a_trickling_pipe"],
    "exploration: 10^5-10^7 structure-aware hostile inputs per run, each decided exactly against an independent schema-directed decoder; the input language is infinite so sampling directed by field annotations is the reachable level.",
    "trusts ref/refcodec.h as the statement of docs/format.md; two documented ambiguities resolved as in DESIGN.md 2.3 (variant index is INT32; duplicate-key maps compared on accept/consumed only)",
    "differential decoding against an independent reference decoder under ASan/UBSan; coverage-guided libFuzzer stage in the thorough tier",
    fuzz="engines/codec/fuzz.cpp")

_codec_check(
    "C02", "exploration",
    "case = (type, hostile byte string, bounded reader) with the C04 mutation set on BufferReader, PedanticBufferReader, LogReader, BoundedReader over Pedantic/Buffer/Stream/"
    "chunked Stream/Fd. Monitors: ASan (every input in its own exactly-sized allocation), UBSan, allocation meter with cap 64 KiB + 1024 x input length on any single request "
    "and on peak live bytes, per-case watchdog; post-conditions after a failed read: inspect the object, read a valid encoding into it and compare with a fresh decode, destroy. "
    "NOP_UNBOUNDED_BUFFER structures and bool/loose-enum BIN elements excluded as stated. distinct = hash(type, bytes).",
    {"quick": 50000, "thorough": 1000000}, ["c02_monitored_decodes", "c02_failed_reads_followed_by_reread", "max_peak_alloc_bytes", "c02_decodes_into_used_destination", "c02_bounded_over_unbounded_readers_running_dry"],
    "exploration under sanitizers: 10^5-10^7 hostile inputs each executed under ASan/UBSan with an armed allocation cap and a watchdog; memory safety is decided for the executions produced, not for all inputs.",
    "ASan red zones miss non-adjacent overflows (mitigated by dedicated exact-size allocations); the allocation cap is two orders of magnitude above legitimate use",
    "ASan/UBSan + allocation meter + watchdog over structure-aware hostile inputs; coverage-guided libFuzzer stage in the thorough tier",
    fuzz="engines/codec/fuzz.cpp")

_codec_check(
    "C05", "fault_enumeration",
    "case = (type, value, cut position k, reader kind, mode): every strict prefix of the encoding (all k for encodings <= 512 bytes, field boundaries +-1 and 64 random k beyond) is fed to "
    "every reader kind: Buffer, Pedantic, Log, Stream over stringstream and over a non-seekable chunked streambuf, Fd over memfd and over a pipe closed after k bytes, Bounded over each with "
    "limit beyond the data and with limit = k over the full data; tables are additionally read by a different table version that skips entries (unknown / deleted ids). Oracle: status must be "
    "an error. Every cut is also fed to every Deserializer form (internal instance, pointer, unique_ptr, Protocol::Read) of seven hand-written types. distinct = enumerated (value, k, reader, mode) tuples; non-trivial = k > 0.",
    {"quick": 100000, "thorough": 1000000}, ["c05_cut_reads", "c05_cut_reads_by_other_table_version", "c05_cut_reads_of_padded_tables", "c05_reader_FdReader", "c05_reader_StreamReader<chunked non-seekable>", "forms_cut_reads", "cases_on_unbounded_buffer_types", "c05_values_above_64KiB", "c05_second_reads_on_the_same_reader"],
    "fault enumeration: for each generated encoding every cut position is enumerated on every reader implementation (exhaustive per encoding up to 512 bytes); types and values are sampled.",
    "fd and stream media are memfd/pipe/stringstream/custom streambuf inside one process",
    "exhaustive cut-point enumeration per encoding on every shipped reader, under ASan/UBSan",
    exhaustive_counter=None)

_codec_check(
    "C06", "exploration",
    "case = (type, value, capacity c, writer kind, fresh-or-partly-used writer): GetSize vs bytes written (equal for handle-free types), table entry framing parsed by the reference decoder, and every "
    "capacity 0..GetSize+1 (values <= 300 bytes; selected capacities beyond) on BufferWriter, PedanticBufferWriter, ConstexprBufferWriter, a capacity-checked LogWriter and BoundedWriter over each, "
    "both into a fresh writer and as the second value after another one, and for BoundedWriter also with a generous bound over a wrapped writer that has the capacity under test: room >= GetSize must succeed with the reference bytes, room < GetSize must return WriteLimitReached and write nothing "
    "beyond the room (exact-size allocations under ASan). One case drives aggregate sizes >= 2^32 through reference_wrapper aliasing and a counting writer.",
    {"quick": 100000, "thorough": 1000000}, ["c06_capacity_writes", "c06_second_value_writes", "c06_huge_aggregate_cases", "c06_table_framings_parsed", "c06_writer_BufferWriter", "forms_short_capacity_writes", "cases_on_unbounded_buffer_types", "c06_bounded_writes_limited_by_the_wrapped_writer", "c06_writes_after_a_refused_write"],
    "exploration with exhaustive capacity sweeps per value: each generated value is written into every capacity from 0 to GetSize+1 on every bounded writer kind; types and values are sampled.",
    "BufferWriter is unchecked by design: safety is decided by ASan on exactly-sized allocations",
    "capacity sweep with status/size oracle under ASan on exact-size buffers")

_codec_check(
    "C10", "fault_enumeration",
    "case = (type, value, direction, k, error): a counting dry run gives the N primitive calls the operation makes on LogWriter/LogReader (directly and through BoundedWriter/BoundedReader); then "
    "the k-th call fails with each of ReadLimitReached/WriteLimitReached, StreamError, IOError, ProtocolError, DebugError for every k < N (N capped at 400). Oracle = the call log: returned error == "
    "injected error, zero calls after the failure, nothing written when Prepare fails; handle resolution errors are returned unchanged. "
    "RPC layer: every writer call of three requests through SimpleMethodSender (value-returning and void methods) and every reader call of the reply; every reader call of the request and every writer call of the "
    "reply in the dispatcher with lambda and member-function bindings: error returned unchanged, no further calls, no reply read after a failed send, no handler / reply after a failed request read. "
    "API forms: the same fail-at-k sweep through Serializer<LogWriter> / <LogWriter*> / <unique_ptr<LogWriter>>, the three Deserializer forms and Protocol<T>::Write/Read. Writer/reader shapes: classes whose Prepare / Ensure is overloaded, a template, has a defaulted extra parameter, is inherited, const, or exposed by a using-declaration must see the same call sequence as a plain writer/reader (Prepare first, with the encoded size), the same fail-at-k behaviour, and nothing written after a refusing Prepare.",
    {"quick": 50000, "thorough": 500000}, ["c10_write_faults", "c10_read_faults", "c10_rpc_sender_write_faults", "c10_rpc_sender_read_faults", "c10_rpc_dispatch_read_faults", "c10_rpc_dispatch_write_faults", "c10_fault_at_Prepare_w", "c10_fault_at_Ensure_r", "c10_fault_at_Skip_r", "c10_fault_at_PushHandle_w", "c10_fault_at_GetHandle_r", "forms_write_faults", "forms_read_faults", "c10_values_above_64KiB", "forms_writer_shapes_written", "forms_writer_shape_faults", "forms_writer_shape_refusals", "forms_reader_shapes_read", "forms_reader_shape_faults", "release_build_forms_write_faults"],
    "fault enumeration: for each generated value every primitive-call index is failed with every error code (exhaustive in k per value); types and values are sampled.",
    "the instrumented LogReader/LogWriter implement the documented Reader/Writer interface",
    "exhaustive fail-at-k injection through instrumented reader/writer with call-log oracle", second_build=_release("forms:*", "asan"))

_codec_check(
    "C11", "exploration",
    "case = (type, incoming bytes, prior state): incoming = a valid encoding plus mutated/truncated ones; prior states = default, assigned random value, after a successful read of another value, "
    "residue of a read that failed at a random cut (with and without a prior assignment). The reader kind rotates with the case over Pedantic, Buffer, Stream, chunked non-seekable Stream, Fd and Bounded readers "
    "(arbitrary byte strings only on readers that bound the input themselves). Oracle: status and decoded value tree equal to a decode into a fresh object; ASan/LSan report leaks or "
    "double destruction of element objects. distinct = hash(type, bytes, prior value, prior kind); non-trivial = prior state is not default.",
    {"quick": 20000, "thorough": 200000}, ["c11_prior_state_decodes", "c11_prior_kind_3", "c11_invalid_incoming", "c11_reader_StreamReader<stringstream>", "c11_reader_FdReader", "c11_reader_BufferReader", "c11_values_above_64KiB", "c11_prior_states_with_out_of_range_size_member"],
    "exploration: 10^4-10^6 (prior, incoming) pairs per run each decided exactly by comparison with a fresh decode; histories producing the prior state are sampled from four families.",
    "element lifetimes are monitored by ASan/LSan on the containers' own allocations",
    "differential decode (prior-state object vs fresh object) under ASan/LSan")


# ------------------------------------------------------------------ life engine (C12, C13, C15)
def gen_life(prop, tier, seed):
    import typegen
    d = os.path.join(BUILD, "gen", "life")
    srcs = typegen.generate_handles(d)
    return d, srcs


ENGINE_KIND["life"] = ("C++ harness (ASan+UBSan): shadow-model interpreters over operation histories (bounded-exhaustive + random) with a lifetime registry of tracked element "
                       "types, counting handle policy, instrumented reader/writer for out-of-band handle transfer")
_life = dict(engine="life", flavour="asan", gen=gen_life, sources=["engines/life/main.cpp"])
_life_gxx = dict(second_build=[{"flavour": "gasan", "only_type": "special"}, _release("special")])   # the special scenarios are repeated with the engine built by g++ (ASan+UBSan)

CHECKS["C12"] = dict(
    _life, **_life_gxx, level="exploration",
    rule=("history = sequence of operations over 2 interacting Variant<TrackedA, TrackedB(convertible from CSrc), int, string> objects: value/lvalue/converting/cross-type assignment and construction, "
          "copy/move assign (incl. self), assign EmptyVariant, Become(-2..5), copy/move construct, destroy+construct, mutate via get, IfAnyOf Get/Take/Swap/Call, each constructing operation also with an element "
          "constructor that throws on its n-th construction. After every operation a shadow model {index, value} is compared through index/empty/Visit/get<T>/get<I>/is<T> and a lifetime registry is audited "
          "(live elements = non-empty tracked alternatives, no double destruction, no use of a dead object, nothing alive at the end). Exhaustive: every history of length <= 3 (quick) / 4 (thorough) over the "
          "98-operation alphabet; then random histories of length <= 40. Special scenarios: every constructor form (default, EmptyVariant, copy/move from empty and non-empty, converting copy/move from an empty and non-empty "
          "Variant<Other...>, single-alternative Variants incl. swap and vector growth) placement-constructed into storage pre-filled with five byte patterns, so an uninitialised member shows as a wrong index()/Visit; a 130-alternative Variant at alternatives 0, 1, 63, 64, 126..129 (Become, copy, move, assign, get, Visit); an alternative that is a union type with a destructor. Become(i, args...) from every state to every index incl. out-of-range, with a bool alternative next to pointer-constructible ones; get<T>()/is<T>() with T spelled with another cv-qualification than declared. Assignment from the Variant's own element; copies of Variants with a bool alternative. The special scenarios are repeated in a g++ build and in a release build (g++ -O2 -DNDEBUG). distinct = enumerated histories + hashed random ones; non-trivial = 2+ operations."),
    floor={"quick": 100000, "thorough": 1000000}, require_counters=["c12_operations_executed", "c12_injected_constructor_exceptions", "c12_random_histories", "c12_special_scenarios", "second_compiler_c12_special_scenarios", "release_build_c12_special_scenarios"],
    technique="shadow-model interpreter + lifetime registry over bounded-exhaustive and random operation histories, under ASan/UBSan",
    level_text="exploration with an exhaustive core: all operation histories up to length 3/4 over a 98-operation alphabet are enumerated and each step is decided exactly against a shadow model and a lifetime registry; longer histories are sampled.",
    level_note="element lifetime is observed through tracked element types (registry of live addresses + magic word); ASan watches the same executions",
    assumptions=["after an operation whose element constructor throws, only the property's invariant is asserted (empty or exactly one live element of the indexed type, nothing leaked), values are not predicted"],
    exhaustive_counter="c12_exhaustive_len2_histories_total")

CHECKS["C13"] = dict(
    _life, **_life_gxx, level="exploration",
    rule=("history = sequence of operations over 2 Optional<Tracked>, an Entry<Tracked,5>, 2 Result<E,Tracked>, a Status<Tracked> and Optional<int> sources: value/lvalue assignment, clear, take, copy/move assign "
          "(incl. self and cross-type Optional<int>), copy/move construct, destroy+construct (value / InPlace / error), entry<->optional transfers, error assignment, Status moves. After every operation the state "
          "model is compared through empty/bool/has_value/has_error/error()/get and the lifetime registry is audited; moving from an object by assignment must leave it empty. Exhaustive to length 3/4 over the "
          "77-operation alphabet, random to length 40. Comparisons: all 6 x 6 operand states x 18 operators for int/int, int/long, string, tracked and Entry operands against the total order 'empty < values'. "
          "Messages: all 19 ErrorStatus enumerators through Status<void> and Status<int>. "
          "Special scenarios: every constructor form of Optional/Entry/Result/Status in pattern-filled storage; a throwing element constructor at the 1st..3rd construction inside each of 14 assigning operations on empty and engaged destinations: "
          "afterwards each object is empty or holds one alive value and the registry balances; decoding (Deserializer) into Optional<Optional<T>>, Optional<T>, Result<E,T> and table entries with tracked serializable elements from four prior states incl. NIL/error over a value and a truncated encoding."),
    floor={"quick": 100000, "thorough": 1000000}, require_counters=["c13_operations_executed", "c13_comparisons", "c13_error_messages", "c13_random_histories", "c13_special_scenarios", "c13_injected_constructor_exceptions", "second_compiler_c13_special_scenarios", "c13_pointer_comparisons", "release_build_c13_special_scenarios"],
    technique="shadow-model interpreter + lifetime registry over bounded-exhaustive and random histories; exhaustive operand-state table for the 18 comparison operators",
    level_text="exploration with an exhaustive core: all histories up to length 3/4 over a 77-operation alphabet, all operand-state pairs of every comparison operator, all ErrorStatus values; longer histories sampled.",
    level_note="state after move *construction* is read back, not asserted (the property constrains move assignment only)",
    assumptions=[], exhaustive_counter="c13_exhaustive_len2_histories_total")

CHECKS["C15"] = dict(
    _life, level="exploration",
    rule=("(a) transfer: values of 14 handle-bearing types (handles in structure members, vectors, arrays, pairs, optionals, variants, maps, logical buffers, table entries incl. a table nested in a table entry, "
          "three handle policies with U8/U32/U64-class type tags, empty handles) are written through LogWriter and BoundedWriter<LogWriter> returning references drawn from {-1,0,1,63,64,127,128,...,2^63-1,-2,-64,-65,-129}; "
          "oracle: PushHandle log == handles of the value in encounter order, each once; bytes == reference encoding with exactly the returned references; on read GetHandle sees exactly those references in order and "
          "the values round-trip; a corrupted type tag gives UnexpectedHandleType, a tag differing in any single bit (also above the width of a narrow tag type) is rejected without calling GetHandle; a resolver error is returned unchanged. (b) ownership: every history of length <= 4/5 over 3 UniqueHandles with a counting policy "
          "(construct, move-assign incl. self, move-construct, release, close, destroy, assign temporary / empty), random to length 40: each resource closed exactly once when its owner drops it, never after "
          "release or while still owned; real descriptors through UniqueFileHandle checked with fcntl, incl. descriptor 0 in a forked child whose stdin is closed, and an interposed close() that reports EINTR after releasing the descriptor (no second close of that number)."),
    floor={"quick": 100000, "thorough": 1000000}, require_counters=["c15_operations_executed", "c15_handles_pushed", "c15_values_read_back", "c15_corrupted_tags", "c15_resolver_errors_injected", "c15_real_fd_cases", "c15_fd0_child_cases", "c15_interrupted_close_cases", "c15_file_handles_moved_into_their_base_class", "c15_tags_of_other_policies"],
    technique="call-log oracle on instrumented reader/writer + counting handle policy over bounded-exhaustive ownership histories, under ASan/UBSan",
    level_text="exploration with an exhaustive core: all ownership histories up to length 4/5 over a 30-operation alphabet; handle-bearing values, returned references and corruptions are sampled and each case decided exactly from the call logs.",
    level_note="handle-capable readers/writers shipped with libnop do not exist; the documented PushHandle/GetHandle interface is implemented by the harness' LogWriter/LogReader",
    assumptions=[], exhaustive_counter="c15_exhaustive_len2_histories_total")


# ------------------------------------------------------------------ io engine (C16, C17)
def gen_io(prop, tier, seed):
    import cxgen
    s = seed if tier == "thorough" else 0
    d = os.path.join(BUILD, "gen", "io-%s-%d" % (tier, s))
    cxgen.generate(d, s, 260 if tier == "thorough" else 140, 400 if tier == "thorough" else 200)
    return d, []


ENGINE_KIND["io"] = ("C++ harness (ASan+UBSan): executable byte-source/byte-sink and budget models run in lock-step with the shipped readers/writers over "
                     "bounded-exhaustive and random primitive-call sequences; compile-time serializations emitted by a generator")
_io = dict(engine="io", flavour="asan", gen=gen_io, sources=["engines/io/main.cpp"])

CHECKS["C16"] = dict(
    _io, level="exploration",
    rule=("history = sequence of Ensure/Read/ReadBlock(w=1,2,4,8)/Skip/ReadPadding (resp. Prepare/Write/WriteBlock/Skip/WritePadding) calls on BoundedReader<LogReader> / BoundedWriter<LogWriter>, sizes drawn from "
          "{0, 1, rem-1, rem, rem+1, 2^32, 2^63, 2^64-1-k, small} relative to the remaining budget at execution time; configurations = limits {0,1,2,7,8,9,64} x wrapped reader/writer longer or shorter than the "
          "limit x wrapped call #0/#1/#2 failing with StreamError/IOError/ProtocolError x nested BoundedReader<BoundedReader<>> with the tighter limit inside or outside. Oracle = 25-line budget model + a twin of the "
          "wrapped reader/writer receiving the calls directly: status, delivered/written bytes, wrapped position, wrapped call log (a crossing call must not reach it), size()/empty()/capacity(), padding position and value; a quarter of the writer sequences are replayed on BoundedWriter over StreamWriter, PedanticBufferWriter and BufferWriter (same statuses, same bytes on the medium). "
          "Exhaustive: all sequences of length <= 3 (quick) / 4 (thorough) over the 40-call alphabet in every configuration; random to length 12."),
    floor={"quick": 500000, "thorough": 5000000},
    require_counters=["c16_reader_calls", "c16_writer_calls", "c16_reader_calls_crossing_the_limit", "c16_writer_calls_crossing_the_limit", "c16_reader_calls_with_huge_sizes", "c16_writer_calls_with_huge_sizes", "c16_writer_calls_on_shipped_writers"],
    technique="lock-step executable model + call-log oracle over bounded-exhaustive and random primitive-call histories, under ASan/UBSan",
    level_text="exploration with an exhaustive core: every call sequence up to length 3/4 over a 40-call relative-size alphabet in 49 reader and 35 writer configurations is decided exactly against the budget model; longer sequences are sampled.",
    level_note="the wrapped reader/writer is the harness' LogReader/LogWriter (documented interface, records every call, injectable faults)",
    assumptions=[], exhaustive_counter="c16_reader_calls")

CHECKS["C17"] = dict(
    _io, level="exploration",
    rule=("history = sequence of Ensure/Read/ReadBlock(w=1,2,4,8; counts 0,1,rem,rem+1,small)/Skip calls over sources of 0..64 bytes on BufferReader, PedanticBufferReader, StreamReader over stringstream and over a "
          "non-seekable chunked streambuf, FdReader over memfd and pipe (Skip-free sequences), BoundedReader over each (limit beyond and inside the data); and Prepare/Write/WriteBlock/Skip sequences on BufferWriter "
          "(kept within capacity), PedanticBufferWriter, ConstexprBufferWriter, StreamWriter, FdWriter, BoundedWriter over each with capacities 0..64. Oracle = array+position / vector+capacity model: same bytes in the "
          "same order, failure at the same call with an allowed category, Ensure/Prepare exact on bounded kinds, checked writers refuse exactly the calls beyond capacity (the sequence continues after a refusal; BoundedWriter is also run over a checked writer tighter than its bound), byte stream equal after every call. "
          "Compile time: generated literal values (structures, BIN/ARY arrays, tables, 64-bit fields with distinct bytes) serialized in constant expressions are compared with four run-time writers, and generated "
          "constexpr Prepare/Write/Skip sequences on ConstexprBufferWriter with the model and with their own run-time evaluation. Fault stage: Write sequences with blocks up to 96 KiB through FdWriter into a blocking pipe (4 KiB buffer, "
          "slow peer, signal storm without SA_RESTART) and the same bytes back through FdReader from a slowly fed pipe under the storm must equal the model stream, with no call refused. Exhaustive to length 2 (quick) / 3 (thorough), random to length 10."),
    floor={"quick": 100000, "thorough": 1000000},
    require_counters=["c17_reader_calls", "c17_writer_calls", "c17_constexpr_vs_runtime_comparisons", "c17_constexpr_sequences", "c17_reader_FdReader", "c17_writer_ConstexprBufferWriter", "c17_reader_StreamReader<chunked non-seekable>", "c17_fd_storm_writer_sequences", "c17_fd_storm_reader_sequences", "c17_fd_storm_signals_delivered", "c17_bounded_writer_over_tighter_writer_sequences", "c17_writer_calls_after_a_refusal_follow", "c17_stream_writer_calls_on_a_sink_that_fills_up", "c17_fd_writer_calls_on_dev_full"],
    technique="differential execution of every shipped reader/writer against an executable byte-source/byte-sink model; compile-time constants emitted into the binary",
    level_text="exploration with an exhaustive core: all call sequences up to length 2/3 over the relative-size alphabet on every reader and writer kind and every source length / capacity in the grid; longer sequences and compile-time values are sampled.",
    level_note="equivalence is required up to and including the first failing call, as the property states; the unchecked BufferWriter is only driven within its capacity",
    assumptions=[], exhaustive_counter="c17_reader_calls")


# ------------------------------------------------------------------ table engine (C07, C08)
def gen_table(prop, tier, seed):
    import tablegen
    s = seed if tier == "thorough" else 0
    d = os.path.join(BUILD, "gen", "table-%s-%d" % (tier, s))
    srcs = tablegen.generate(d, s, 8 if tier == "thorough" else 3, 24 if tier == "thorough" else 10)
    return d, srcs


ENGINE_KIND["table"] = ("C++ harness (ASan+UBSan): generated table version pools (evolution histories), every ordered version pair executed at run time through type-erased "
                        "read/write, 30-line projection model, structural table mutations judged by the reference decoder")
_table = dict(engine="table", flavour="asan", gen=gen_table, sources=["engines/table/main.cpp"], flags=["-DVF_OPS_FEW"], programs_counter="programs_version_types")

CHECKS["C07"] = dict(
    _table, level="exploration",
    rule=("program = a table version produced by a seeded walk of allowed evolution steps (add entry, remove entry, mark deleted, reorder, swap to a documented-fungible alternative type; ids never reused) over pools of 4-6 "
          "entries (quick: 3 pools x 10 versions, thorough: 8 pools x 24 versions per seed), each emitted in four contexts: top level, inside a structure followed by more data, inside a vector, inside an entry of another table. "
          "case = (writer version, reader version, context, assignment of empty/non-empty to the writer's entries, values fitting every fungible alternative): all ordered pairs of versions of a pool are executed; low case "
          "indices sweep the assignments in order. Oracle = projection model (entry active and non-empty in the writer and active in the reader carries its value tree; everything else empty) on 6 readers incl. a non-seekable "
          "stream and BoundedReader; reader position = end of the encoding; a trailing sentinel reads back; half of the reads go into an object already holding other entries. Half of the tables are the last thing on the stream (the reader ends exactly after the table, no sentinel), half are followed by more data; entry types include arrays and vectors of enums, strings and wider integers. Result<E,void> and Status<void>: copy/move construction and assignment, error assignment, clear, self-assignment, swap and vector growth over every pair of states. Histories include handles of a class derived from UniqueHandle moved into a UniqueHandle (construction and assignment); a real UniqueFileHandle moved into UniqueHandle<FileHandlePolicy> must lead to exactly one close(2) (interposed) and none after release(). One pool has 66-72 entries per definition (bookkeeping per entry in a machine word ends at 32 / 64). Assignment from the object's own element; Optional of raw / shared pointers against pointers and nullptr, bool and mixed arithmetic operands. Special scenarios repeated in a g++ build and a release build. The histories are repeated with a policy derived from DefaultHandlePolicy<int,-1> (0 is a real resource); corrupted tags include the tags of other policies (0, 1) and the range ends. A StreamWriter over a stream buffer that fills up and an FdWriter on /dev/full must report the first call that does not fit. distinct = hash(pair, bytes, context)."),
    floor={"quick": 2000, "thorough": 50000}, require_counters=["c07_cross_version_reads", "c07_cases_between_different_versions", "c07_context_table{Entry<table>;u16}", "c07_context_vector<table>", "c07_tables_ending_the_stream", "c07_tables_followed_by_more_data"],
    technique="generated schema-evolution histories executed pairwise at run time against a projection model, under ASan/UBSan",
    level_text="exploration over generated programs: every ordered pair of versions of every generated pool is executed with swept empty/non-empty assignments and sampled values, each read decided exactly by the projection model.",
    level_note="pool sizes, history lengths and nesting contexts are bounded; values are generated on the most constrained fungible alternative so they fit both sides",
    assumptions=[])

CHECKS["C08"] = dict(
    _table, level="exploration",
    rule=("case = (table version type incl. the four nesting contexts, encoded table, structural mutation): entries permuted (24 random permutations), each entry duplicated at each position (count adjusted), an unknown id "
          "inserted twice, hash changed (same length / high bit), each declared size shrunk by 1, 2, half, grown by 1, 2, 255, 256 with matching padding and by 1, 2 without, entry count +-1, bytes inside entry values "
          "corrupted; read by the same and by other versions (unknown / deleted ids). Length-changing mutations are applied to tables not enclosed in another entry frame; nested tables get the length-preserving ones. "
          "Oracle = reference decoder implementing the framing rules of docs/format.md (any order, known active id at most once, size = value + padding, errors inside an entry fail the read): accept/reject, decoded "
          "entries, reader position; category compared for InvalidTableHash and DuplicateTableEntry. 6 readers incl. non-seekable stream and BoundedReader."),
    floor={"quick": 5000, "thorough": 100000}, require_counters=["c08_framing_reads", "c08_reference_accepts", "c08_reference_rejects", "c08_refcat_DuplicateTableEntry", "c08_refcat_InvalidTableHash", "c08_refcat_Truncated", "c08_categories_compared"],
    technique="structural table mutations judged by an independent reference decoder (differential), under ASan/UBSan",
    level_text="exploration: for every generated version type the catalogue of framing mutations is applied exhaustively per encoded table (all duplicate positions, all entries, all size deltas) and each mutated table is decided exactly by the reference decoder.",
    level_note="trusts ref/refcodec.h for the framing rules; nested tables only receive length-preserving mutations",
    assumptions=[])


# ------------------------------------------------------------------ fung engine (C09)
def gen_fung(prop, tier, seed):
    import funggen
    s = seed if tier == "thorough" else 0
    d = os.path.join(BUILD, "gen", "fung-%s-%d" % (tier, s))
    srcs = funggen.generate(d, s, 900 if tier == "thorough" else 220)
    return d, srcs


ENGINE_KIND["fung"] = "C++ harness (ASan+UBSan): generated type pairs; compile-time IsFungible / Protocol facts emitted as constants; run-time cross decode and re-encode of every trait-true pair"
CHECKS["C09"] = dict(
    engine="fung", flavour="asan", gen=gen_fung, sources=["engines/fung/main.cpp"], flags=["-DVF_OPS_FEW"], level="exploration", programs_counter="programs_pairs",
    rule=("program = ordered type pair (A, B): A from the curated corpus and a bounded-depth grammar walk, B derived by (i) a documented fungibility-preserving rewrite (vector/array/logical buffer, sequence/tuple for non-integral "
          "elements, pair/tuple, map/unordered_map, wrapper/wrapped, element-wise under Optional/Result/Variant, member-wise structures, entry-wise tables) — the trait must be true — or (ii) a near-miss rewrite (integer "
          "width/signedness, enum/underlying, integral element vs wrapped integral element, array length, tuple arity, table id/hash/deleted marker, Optional<T>/T, map/vector<pair>, string/vector<char>, variant order, "
          "dropped member) — the trait is only observed. Constants emitted per pair: IsFungible<A,B>, <B,A>, <A,A>, <B,B>, on signatures, whether Protocol<A>::Write/Read admits B, and whether Method::Bind admits a handler written over B for a method declared over A (by const reference, by value, mixed, as return type) - all must equal IsFungible<A,B>. For every pair where the trait "
          "is true, values of A (and of B) whose element counts fit the other type are encoded, decoded as the other type through a rotating reader kind (pedantic, seekable stream, chunked non-seekable stream, bounded; value tree must be equal, all bytes consumed) and re-encoded (same bytes; modulo entry order when "
          "an unordered_map is involved). Declared entry sizes include 2^64-1, 2^64-2, 2^64-(value size), 2^64-(offset), 2^63 and 2^32 with the bytes kept (a limit computation that wraps would accept them). Declared sizes 2^16 / 2^32 / 2^48 + the real size with the bytes kept (narrow limit counters). distinct = hash(pair, bytes, direction)."),
    floor={"quick": 1000, "thorough": 20000},
    require_counters=["c09_pairs", "c09_documented_pairs", "c09_near_miss_pairs", "c09_pairs_trait_true", "c09_pairs_trait_false", "c09_cross_decodes", "c09_trait_true_pairs_wire_tested", "c09_bind_probes", "c09_reader_StreamReader<chunked non-seekable>"],
    technique="compile-time trait values emitted as constants + run-time cross-decode/re-encode oracle over generated type pairs, under ASan/UBSan",
    level_text="exploration over generated programs: a few hundred to a thousand generated type pairs per run; every trait-true pair is wire-tested in both directions on generated values. The relation ranges over an unbounded set of pairs; what is decided is the generated sample.",
    level_note="re-encoded bytes are compared modulo entry order when an unordered_map is involved (its iteration order is the container's own); values whose element counts do not fit the other type are skipped as the property states",
    assumptions=[])


# ------------------------------------------------------------------ rpc engine (C14)
def gen_rpc(prop, tier, seed):
    import rpcgen
    s = seed if tier == "thorough" else 0
    d = os.path.join(BUILD, "gen", "rpc-%s-%d" % (tier, s))
    srcs = rpcgen.generate(d, s, 40 if tier == "thorough" else 12)
    return d, srcs


ENGINE_KIND["rpc"] = "C++ harness (ASan+UBSan): generated interfaces and bindings; deterministic loopback transport with byte accounting + two-thread socketpair transport; handler invocation log; reference decoding of requests and replies"
CHECKS["C14"] = dict(
    engine="rpc", flavour="asan", gen=gen_rpc, sources=["engines/rpc/main.cpp"], level="exploration", programs_counter="programs_interfaces",
    rule=("program = generated interface: 1..8 methods, 0..4 arguments drawn from scalars, strings, containers, structures, variants, optionals, enums, a table with vector entries (by value and by const reference) with fungible / conforming substitutions at "
          "the call site (array for vector, unordered_map for map, tuple for pair), returns incl. Result/Optional/containers; NOP_INTERFACE / NOP_INTERFACE32; NOP_METHOD and NOP_METHOD_SEL with adjacent and extreme selectors; "
          "bindings as free functions, lambdas, functors, const / non-const member functions with (instance, tag) passthrough or none; partial bindings. case (1) = call sequence of length 1..20/50 on a single-threaded loopback "
          "transport with exact byte accounting: per call the captured request is decoded independently (selector + argument tuple), exactly one handler invocation of the selected method with equal argument value trees and "
          "the bound passthrough values, Invoke returns the handler's value, the reply is exactly one encoding of it, request and reply fully consumed; unbound methods: InvalidInterfaceMethod, no handler, no reply byte. "
          "case (2) = raw requests: every bound selector +-1, bit 31/32 flipped, widened / narrowed, extreme and random selectors crossed with argument tuples of every method, plus field-directed corruptions and every "
          "truncation of valid requests: the reference decoder says whether a handler may run. case (3) = 1..12 calls from a client thread to a server thread over a socketpair through FdReader/FdWriter. case (4) = 1..10 successive calls on one connection through the shipped StreamReader/StreamWriter over queue streambufs. One call in eight runs "
          "with only 0..11 bytes of room in the reply direction: a dispatcher that reports success must have produced one complete reply. A hand-written interface has handlers returning references into their decoded arguments; another one relays: its handlers invoke the same method on a peer node from inside the handler "
          "(nested dispatch of one method on one thread, depth 0..5) and read their own arguments afterwards."),
    floor={"quick": 3000, "thorough": 100000},
    require_counters=["c14_calls", "c14_bound_calls_checked", "c14_unbound_calls_checked", "c14_raw_requests_valid", "c14_raw_requests_invalid", "c14_fd_transport_calls", "c14_call_sequences", "c14_reply_write_failures_injected", "c14_reference_returning_handler_calls", "c14_reentrant_dispatch_calls", "c14_interfaces_with_table_arguments_(no_fd_transport)", "c14_stream_transport_calls", "c14_raw_requests_through_BufferReader", "c14_queued_requests_in_one_BufferReader"],
    technique="handler-invocation log + byte-accounting loopback transport + reference decoding of requests/replies over generated interfaces, under ASan/UBSan",
    level_text="exploration over generated programs: each generated interface is driven by sampled call sequences, a selector/argument cross product and the hostile-request catalogue; every call is decided exactly from the handler log, the byte counters and an independent decode of both directions.",
    level_note="the loopback transport is the harness' own (documented Reader/Writer interface); the out-parameter overload of Invoke (no return statement) is not used",
    assumptions=[])


# ------------------------------------------------------------------ mt engine (C19)
def gen_mt(prop, tier, seed):
    import typegen
    d = os.path.join(BUILD, "gen", "mt")
    srcs = typegen.generate_mt(d)
    return d, srcs


ENGINE_KIND["mt"] = "C++ harness built with g++ -fsanitize=thread: N threads on their own objects (codec round trips, writer/reader primitives, value types, RPC loopback, SipHash) + ThreadLocal monitor; sequential-equivalence digests; TSan log parsing"
CHECKS["C19"] = dict(
    engine="mt", flavour="tsan", gen=gen_mt, sources=["engines/mt/main.cpp"], flags=["-DVF_OPS_FEW"], level="exploration", max_workers=4,
    env={"TSAN_OPTIONS_EXTRA": "exitcode=0"},
    rule=("round = N in {2,4,8,16} threads released from a barrier, each running on its own objects a seeded mix of: round trips of 12 corpus types through Log/Pedantic/Stream writers and Pedantic/Buffer/Stream/chunked/Bounded/Log "
          "readers incl. a table read by another version, writer/reader primitives incl. Skip with a thread-specific padding value on Stream/Pedantic/Constexpr/Bounded writers, Variant/Optional/Result operations, SipHash, "
          "RPC calls over a private loopback, and ThreadLocal construct/Initialize/Get/write/Clear on 6 (T, Slot) types shared by name (thread-unique values; some slots left initialised at thread exit; all nine slot-tag forms - default, ThreadLocalSlot<void,1>, ThreadLocalIndexSlot<0/1>, ThreadLocalSlot<Tag,0/1>, ThreadLocalTypeSlot<Tag> - on one value type must be nine private values; threads park at a barrier "
          "while the addresses of all live (thread, slot) pairs are audited). Random yields / sub-20us sleeps between library calls only. Monitors: ThreadSanitizer (reports de-duplicated from its log), per-thread result "
          "digest == digest of the same work run one thread at a time, ThreadLocal assertions (first initialisation wins, fresh thread starts empty, no cross-thread / cross-slot value, Clear clears). Every raw request is also dispatched as one datagram from the shipped BufferReader with the reply going to a BufferWriter of exactly the reply size: same status, same handler run, same reply bytes, and no exception may escape the dispatcher. Readers/writers are also handed over by move (into a by-value Serializer/Deserializer or another reader/writer) with the moved-from object outliving the new owner while other threads obtain descriptors; a monitor over the process descriptor table (claims per thread, checked at hand-out and before release) reports a descriptor closed by an object that does not own it. A well-formed request queued twice and followed by half of a third in one BufferReader: two dispatches that each consume exactly their request and append exactly their reply, then a decode error. Every eighth round FdWriter / FdReader objects constructed by the coordinating thread (whose errno is then dirtied) are used by worker threads on 4 KiB pipes under a signal storm; the transfer must be exact. distinct = hash(interleaving "
          "signature of operation-boundary tickets, round); the number of distinct signatures observed is reported."),
    floor={"quick": 150, "thorough": 3000},
    require_counters=["c19_rounds", "c19_threads_run", "c19_operation_boundaries", "c19_threadlocal_addresses_audited", "c19_distinct_interleaving_signatures", "c19_descriptor_claims_audited", "c19_signal_disposition_audits", "c19_cross_thread_handoff_transfers", "c19_signals_delivered_during_handoff"],
    technique="ThreadSanitizer + sequential-equivalence digests + ThreadLocal shadow assertions over barrier-released stress rounds with injected yields",
    level_text="exploration over schedules: each round is one observed interleaving; TSan decides races on the accesses that occurred, digests decide result equivalence, the ThreadLocal monitor decides privacy per round. Absence of reports is 'no race on K rounds with S distinct interleavings', not a proof.",
    level_note="TSan only sees interleavings that occur and synchronisation it intercepts; thread-local storage of exited threads is legitimately reused, so addresses are compared among concurrently live threads only",
    assumptions=[])
