// Handle policies with distinct type tags (the tag travels in its own integer class on the wire).
#pragma once
#include <cstdint>
#include <utility>
#include <nop/types/handle.h>
namespace vf {
struct TagPolicyA {   // tag 70000 as uint32_t: U32-class tag
  using Type = int;
  static constexpr int Default() { return -1; }
  static bool IsValid(const int& v) { return v != -1; }
  static void Close(int* v) { *v = -1; }
  static int Release(int* v) { int t = -1; std::swap(*v, t); return t; }
  static constexpr std::uint32_t HandleType() { return 70000; }
};
struct TagPolicyB {   // tag 200 as uint8_t: U8-class tag
  using Type = int;
  static constexpr int Default() { return -1; }
  static bool IsValid(const int& v) { return v != -1; }
  static void Close(int* v) { *v = -1; }
  static int Release(int* v) { int t = -1; std::swap(*v, t); return t; }
  static constexpr std::uint8_t HandleType() { return 200; }
};
}  // namespace vf
