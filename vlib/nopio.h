// Harness-side readers/writers and byte media used to observe libnop at its Reader/Writer boundary.
//  * LogWriter / LogReader: vector-backed, full documented interface incl. handles, record every primitive
//    call, can fail the k-th call with a chosen error, count calls made after the first failure.
//  * ChunkedIStream: non-seekable istream delivering 1..7 bytes per underflow (socket-like).
//  * ExactBuf: exactly-sized heap allocation (ASan red zone adjacent to the last valid byte).
//  * memfd / pipe helpers.
#pragma once
#include <array>
#include <cstdint>
#include <cstring>
#include <istream>
#include <sstream>
#include <streambuf>
#include <string>
#include <sys/ioctl.h>
#include <sys/mman.h>
#include <unistd.h>
#include <vector>

#include <nop/base/encoding.h>
#include <nop/base/utility.h>
#include <nop/status.h>
#include <nop/types/handle.h>

namespace vf {

enum class Op : uint8_t { Prepare, WriteByte, WriteBlock, SkipW, PushHandle, Ensure, ReadByte, ReadBlock, SkipR, GetHandle };
inline const char* opname(Op o) { static const char* n[] = {"Prepare", "WriteByte", "WriteBlock", "Skip", "PushHandle", "Ensure", "ReadByte", "ReadBlock", "Skip", "GetHandle"}; return n[(int)o]; }
struct Call { Op op; uint64_t size; bool ok; };

struct FaultPlan {
  int64_t fail_at = -1;                       // index of the primitive call that fails (-1: never)
  nop::ErrorStatus error = nop::ErrorStatus::IOError;
};

// ------------------------------------------------------------------ LogWriter
class LogWriter {
 public:
  std::vector<uint8_t> data;
  std::vector<Call> calls;
  std::vector<int64_t> pushed;                // handle values pushed, in order
  std::vector<int64_t> refs_to_return;        // references handed back for successive pushes (default: running index)
  FaultPlan fault;
  uint64_t calls_after_failure = 0;
  bool failed = false;
  bool record = true;
  size_t capacity = SIZE_MAX;                 // optional capacity: Prepare/Write beyond it fail with WriteLimitReached
  uint64_t ncalls = 0;

  void reset() { data.clear(); calls.clear(); pushed.clear(); failed = false; calls_after_failure = 0; ncalls = 0; }

  nop::Status<void> Prepare(std::size_t size) {
    if (!gate(Op::Prepare, size)) return fault.error;
    if (size > capacity - data.size()) return done(nop::ErrorStatus::WriteLimitReached);
    return {};
  }
  nop::Status<void> Write(std::uint8_t byte) {
    if (!gate(Op::WriteByte, 1)) return fault.error;
    if (data.size() >= capacity) return done(nop::ErrorStatus::WriteLimitReached);
    data.push_back(byte);
    return {};
  }
  template <typename T, typename Enable = nop::EnableIfArithmetic<T>>
  nop::Status<void> Write(const T* begin, const T* end) {
    const size_t n = (size_t)(end - begin) * sizeof(T);
    if (!gate(Op::WriteBlock, n)) return fault.error;
    if (n > capacity - data.size()) return done(nop::ErrorStatus::WriteLimitReached);
    const uint8_t* p = reinterpret_cast<const uint8_t*>(begin);
    data.insert(data.end(), p, p + n);
    return {};
  }
  nop::Status<void> Skip(std::size_t padding_bytes, std::uint8_t padding_value = 0x00) {
    if (!gate(Op::SkipW, padding_bytes)) return fault.error;
    if (padding_bytes > capacity - data.size()) return done(nop::ErrorStatus::WriteLimitReached);
    data.insert(data.end(), padding_bytes, padding_value);
    return {};
  }
  template <typename HandleType>
  nop::Status<nop::HandleReference> PushHandle(const HandleType& handle) {
    if (!gate(Op::PushHandle, 0)) return fault.error;
    int64_t ref = pushed.size() < refs_to_return.size() ? refs_to_return[pushed.size()] : (int64_t)pushed.size();
    pushed.push_back((int64_t)handle.get());
    return ref;
  }
  std::size_t size() const { return data.size(); }

 private:
  bool gate(Op op, uint64_t size) {
    if (failed) calls_after_failure++;
    bool ok = (int64_t)ncalls != fault.fail_at;
    ncalls++;
    if (record) calls.push_back({op, size, ok});
    if (!ok) failed = true;
    return ok;
  }
  nop::ErrorStatus done(nop::ErrorStatus e) { failed = true; return e; }
};

// ------------------------------------------------------------------ LogReader
class LogReader {
 public:
  const uint8_t* p = nullptr;
  size_t n = 0, pos = 0;
  std::vector<Call> calls;
  std::vector<int64_t> got;                   // references passed to GetHandle, in order
  // resolver: reference -> (error, handle value)
  nop::ErrorStatus (*resolver)(void* ctx, int64_t ref, int64_t* value) = nullptr;
  void* resolver_ctx = nullptr;
  FaultPlan fault;
  uint64_t calls_after_failure = 0;
  bool failed = false;
  bool record = true;
  uint64_t ncalls = 0;

  LogReader() = default;
  LogReader(const uint8_t* data, size_t size) : p(data), n(size) {}

  nop::Status<void> Ensure(std::size_t size) {
    if (!gate(Op::Ensure, size)) return fault.error;
    if (size > n - pos) return done(nop::ErrorStatus::ReadLimitReached);
    return {};
  }
  nop::Status<void> Read(std::uint8_t* byte) {
    if (!gate(Op::ReadByte, 1)) return fault.error;
    if (pos >= n) return done(nop::ErrorStatus::ReadLimitReached);
    *byte = p[pos++];
    return {};
  }
  template <typename T, typename Enable = nop::EnableIfArithmetic<T>>
  nop::Status<void> Read(T* begin, T* end) {
    const size_t k = (size_t)(end - begin) * sizeof(T);
    if (!gate(Op::ReadBlock, k)) return fault.error;
    if (k > n - pos) return done(nop::ErrorStatus::ReadLimitReached);
    if (k) std::memcpy(begin, p + pos, k);
    pos += k;
    return {};
  }
  nop::Status<void> Skip(std::size_t padding_bytes) {
    if (!gate(Op::SkipR, padding_bytes)) return fault.error;
    if (padding_bytes > n - pos) return done(nop::ErrorStatus::ReadLimitReached);
    pos += padding_bytes;
    return {};
  }
  template <typename HandleType>
  nop::Status<HandleType> GetHandle(nop::HandleReference ref) {
    if (!gate(Op::GetHandle, 0)) return fault.error;
    got.push_back(ref);
    int64_t value = ref;
    if (resolver) { nop::ErrorStatus e = resolver(resolver_ctx, ref, &value); if (e != nop::ErrorStatus::None) return done(e); }
    else if (ref < 0) return HandleType{};
    return HandleType{static_cast<typename HandleType::Type>(value)};
  }
  size_t remaining() const { return n - pos; }

 private:
  bool gate(Op op, uint64_t size) {
    if (failed) calls_after_failure++;
    bool ok = (int64_t)ncalls != fault.fail_at;
    ncalls++;
    if (record) calls.push_back({op, size, ok});
    if (!ok) failed = true;
    return ok;
  }
  nop::ErrorStatus done(nop::ErrorStatus e) { failed = true; return e; }
};

// ------------------------------------------------------------------ exact-size buffers
struct ExactBuf {
  uint8_t* base = nullptr; uint8_t* p = nullptr; size_t n = 0;
  ExactBuf() = default;
  explicit ExactBuf(size_t size) { alloc(size); }
  ExactBuf(const uint8_t* src, size_t size) { alloc(size); if (size) std::memcpy(p, src, size); }
  explicit ExactBuf(const std::vector<uint8_t>& v) : ExactBuf(v.data(), v.size()) {}
  ExactBuf(const ExactBuf&) = delete; ExactBuf& operator=(const ExactBuf&) = delete;
  ExactBuf(ExactBuf&& o) noexcept : base(o.base), p(o.p), n(o.n) { o.base = o.p = nullptr; o.n = 0; }
  ExactBuf& operator=(ExactBuf&& o) noexcept { if (this != &o) { delete[] base; base = o.base; p = o.p; n = o.n; o.base = o.p = nullptr; o.n = 0; } return *this; }
  ~ExactBuf() { delete[] base; }
  // size 0: a 1-byte allocation with the data pointer at its end, so any access hits the red zone
  void alloc(size_t size) { delete[] base; n = size; base = new uint8_t[size ? size : 1]; p = size ? base : base + 1; }
  std::vector<uint8_t> vec(size_t k) const { return std::vector<uint8_t>(p, p + k); }
};

// ------------------------------------------------------------------ non-seekable chunked stream
class ChunkedStreambuf : public std::streambuf {
 public:
  ChunkedStreambuf(const uint8_t* data, size_t size, unsigned chunk) : d_(data, data + size), chunk_(chunk ? chunk : 1) {}
  size_t consumed() const { return off_ - (size_t)(egptr() - gptr()); }
 protected:
  int_type underflow() override {
    if (gptr() < egptr()) return traits_type::to_int_type(*gptr());
    if (off_ >= d_.size()) return traits_type::eof();
    size_t k = std::min<size_t>(chunk_, d_.size() - off_);
    std::memcpy(buf_, d_.data() + off_, k);
    off_ += k;
    setg(buf_, buf_, buf_ + k);
    chunk_ = chunk_ % 7 + 1;   // vary 1..7
    return traits_type::to_int_type(*gptr());
  }
  // no seekoff/seekpos: the default implementations fail, as on a pipe or socket
 private:
  std::vector<uint8_t> d_; size_t off_ = 0; unsigned chunk_; char buf_[8];
};
class ChunkedIStream : public std::istream {
 public:
  ChunkedIStream(const uint8_t* data, size_t size, unsigned chunk) : std::istream(nullptr), sb_(data, size, chunk) { rdbuf(&sb_); }
  size_t consumed() const { return sb_.consumed(); }
 private:
  ChunkedStreambuf sb_;
};

// ------------------------------------------------------------------ fd media
inline int make_memfd(const uint8_t* data, size_t n) {
  int fd = memfd_create("vf", 0);
  if (fd < 0) return -1;
  size_t off = 0; while (off < n) { ssize_t r = ::write(fd, data + off, n - off); if (r <= 0) { ::close(fd); return -1; } off += (size_t)r; }
  ::lseek(fd, 0, SEEK_SET);
  return fd;
}
// pipe preloaded with n bytes (n < 64 KiB); write end closed so the reader sees EOF after the data
inline int make_pipe_with(const uint8_t* data, size_t n) {
  int fds[2]; if (::pipe(fds) != 0) return -1;
  size_t off = 0; while (off < n) { ssize_t r = ::write(fds[1], data + off, n - off); if (r <= 0) { ::close(fds[0]); ::close(fds[1]); return -1; } off += (size_t)r; }
  ::close(fds[1]);
  return fds[0];
}
inline size_t pipe_pending(int fd) { int k = 0; ::ioctl(fd, FIONREAD, &k); return (size_t)k; }

inline const char* errname(nop::ErrorStatus e) { return nop::Status<void>{e}.GetErrorMessage(); }

}  // namespace vf
