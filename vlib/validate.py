#!/usr/bin/env python3
"""Validate MANIFEST.json and evidence files against the given schemas (uses jsonschema if importable)."""
import json, sys, os, glob
V = os.path.dirname(os.path.dirname(os.path.abspath(__file__)))
try:
    import jsonschema
except ImportError:
    print("jsonschema not importable in this interpreter; use python3-vt"); sys.exit(0)
ms = json.load(open("/root/.vp/MANIFEST.schema.json")); es = json.load(open("/root/.vp/EVIDENCE.schema.json"))
m = json.load(open(os.path.join(V, "MANIFEST.json")))
jsonschema.validate(m, ms); print("MANIFEST ok:", len(m["checks"]), "checks,", len(m.get("not_applicable", [])), "n/a")
ids = {json.loads(l)["id"] for l in open(os.path.join(V, "properties.jsonl"))}
claimed = {c["property_id"] for c in m["checks"]}; na = {c["property_id"] for c in m.get("not_applicable", [])}
assert claimed | na == ids and not (claimed & na), (ids - claimed - na, claimed & na)
for f in sorted(glob.glob(os.path.join(V, "evidence", "*.json"))):
    e = json.load(open(f)); jsonschema.validate(e, es); print("evidence ok:", os.path.basename(f), e["tier"], e["coverage"]["evaluations"], e["coverage"]["distinct_nontrivial"])
