#!/usr/bin/env python3
"""Regenerates MANIFEST.json from vlib/checks.py so the two never drift."""
import json, os, sys
V = os.path.dirname(os.path.dirname(os.path.abspath(__file__)))
sys.path.insert(0, os.path.join(V, "vlib"))
import checks

props = [json.loads(l) for l in open(os.path.join(V, "properties.jsonl"))]
out = {
    "version": 1,
    "setup_cmd": "./setup.sh",
    "hooks": {
        "guard": "NOP_VERIF",
        "enable": "no hooks are needed: every observation point is a template parameter (instrumented Reader/Writer, lifetime-tracking element types, counting handle policies), a caller-owned resource or a public accessor; checks compile their harness against /repo/include as it is",
        "baseline_off_cmd": "make -C /repo -j8 out/test && /repo/out/test",
        "source_commits": [],
        "add_only": True,
    },
    "engines": [],
    "checks": [],
    "not_applicable": [],
    "notes": "All checks are runtime monitors over executions of the real headers: ./check <ID> rebuilds the engine against /repo/include (object cache keyed by a hash of the include tree), runs 16 workers, aggregates evidence, routes every violation key through KNOWN_FINDINGS.txt. Exit 0 held / 1 violation / 2 inconclusive.",
}
engines = {}
for p in props:
    pid = p["id"]
    c = checks.CHECKS.get(pid)
    if not c:
        out["not_applicable"].append({"property_id": pid, "reason": checks.NOT_YET.get(pid, "check not built yet at this commit (planned in DESIGN.md section 3); no claim is made")})
        continue
    engines.setdefault(c["engine"], []).append(pid)
    out["checks"].append({
        "property_id": pid,
        "quick_cmd": "./check %s --tier quick" % pid,
        "thorough_cmd": "./check %s --tier thorough" % pid,
        "evidence_file": "evidence/%s.json" % pid,
        "replay_cmd_template": "./check %s --replay {path}" % pid,
        "engine": c["engine"],
        "level_claimed": {"category": c["level"], "text": c["level_text"], "design_ref": "DESIGN.md section 3, " + pid},
        "level_note": c["level_note"],
        "technique": c["technique"],
    })
for e, ps in sorted(engines.items()):
    out["engines"].append({"name": e, "path": "engines/%s" % e, "serves_properties": ps, "kind_free_text": checks.ENGINE_KIND.get(e, "")})
json.dump(out, open(os.path.join(V, "MANIFEST.json"), "w"), indent=1)
print("MANIFEST.json:", len(out["checks"]), "checks,", len(out["not_applicable"]), "not_applicable")
