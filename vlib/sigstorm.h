// Fault injection for the fd readers/writers: a blocking pipe with a small kernel buffer, a deliberately slow peer thread and a
// storm of signals (handler installed WITHOUT SA_RESTART) aimed at the thread that is inside the library call. Slow system calls are
// then interrupted at arbitrary points: ::write returns partial counts or -1/EINTR, ::read returns short counts or -1/EINTR. A correct
// reader/writer delivers exactly the same bytes as on a quiet regular file; bulk-transfer "optimisations" that mishandle a partial
// count or EINTR (the realistic way to break FdReader/FdWriter) lose, duplicate or refuse data here and nowhere else.
#pragma once
#include <atomic>
#include <csignal>
#include <cstdint>
#include <fcntl.h>
#include <pthread.h>
#include <thread>
#include <unistd.h>
#include <vector>
#include <cerrno>

namespace vf {
inline std::atomic<uint64_t>& storm_delivered() { static std::atomic<uint64_t> n{0}; return n; }
inline void storm_handler(int) { storm_delivered().fetch_add(1, std::memory_order_relaxed); }
inline void install_storm_handler() {
  static std::atomic<bool> done{false}; if (done.exchange(true)) return;
  struct sigaction sa; sigemptyset(&sa.sa_mask); sa.sa_handler = storm_handler; sa.sa_flags = 0;   // no SA_RESTART: slow syscalls fail with EINTR
  sigaction(SIGUSR1, &sa, nullptr);
}
// sends SIGUSR1 to `target` every period_us microseconds until destroyed (destroy it before `target` can exit)
struct SignalStorm {
  std::atomic<bool> stop{false}; std::thread th;
  SignalStorm(pthread_t target, unsigned period_us) {
    install_storm_handler();
    th = std::thread([this, target, period_us]() { while (!stop.load()) { pthread_kill(target, SIGUSR1); usleep(period_us); } });
  }
  ~SignalStorm() { stop.store(true); th.join(); }
};
inline void shrink_pipe(int fd) { (void)fcntl(fd, F_SETPIPE_SZ, 4096); }
// slow consumer of the read end of a pipe: drains until EOF, in small reads with pauses, so that the writer keeps blocking
struct SlowDrain {
  std::vector<uint8_t> got; std::thread th;
  SlowDrain(int rd, uint64_t seed) {
    th = std::thread([this, rd, seed]() {
      uint64_t x = seed * 0x9e3779b97f4a7c15ull + 1; uint8_t buf[8192];
      for (;;) {
        x ^= x << 13; x ^= x >> 7; x ^= x << 17;
        size_t want = 1 + (size_t)(x % (sizeof buf));
        ssize_t r = ::read(rd, buf, want);
        if (r < 0) { if (errno == EINTR) continue; break; }
        if (r == 0) break;
        got.insert(got.end(), buf, buf + r);
        if ((x >> 20) % 3 == 0) usleep(30 + (unsigned)((x >> 32) % 120));
      }
      ::close(rd);
    });
  }
  std::vector<uint8_t>& join() { if (th.joinable()) th.join(); return got; }
  ~SlowDrain() { if (th.joinable()) th.join(); }
};
// slow producer into the write end of a pipe: the whole of `data` in chunks with pauses, then EOF
struct SlowFeed {
  std::thread th;
  SlowFeed(int wr, std::vector<uint8_t> data, uint64_t seed) {
    th = std::thread([wr, data, seed]() {
      uint64_t x = seed * 0xd1342543de82ef95ull + 7; size_t off = 0;
      while (off < data.size()) {
        x ^= x << 13; x ^= x >> 7; x ^= x << 17;
        size_t k = 1 + (size_t)(x % 3000); if (k > data.size() - off) k = data.size() - off;
        ssize_t w = ::write(wr, data.data() + off, k);
        if (w < 0) { if (errno == EINTR) continue; break; }
        off += (size_t)w;
        if ((x >> 20) % 2 == 0) usleep(20 + (unsigned)((x >> 32) % 150));
      }
      ::close(wr);
    });
  }
  ~SlowFeed() { if (th.joinable()) th.join(); }
};
}  // namespace vf
