// Allocation meter: replaces global operator new/delete (forwarding to malloc/free so ASan still tracks the
// blocks). Between begin() and end() it records bytes requested, peak live bytes and the largest single request
// of the calling thread; with a cap armed, a request above the cap (or pushing live bytes above it) is recorded
// and answered with std::bad_alloc so the case ends cleanly instead of taking the machine down.
// Include in exactly ONE translation unit of an engine.
#pragma once
#include <cstdint>
#include <cstdlib>
#include <new>
namespace vf {
struct Meter {
  bool on = false; uint64_t cap = 0; uint64_t live = 0, peak = 0, largest = 0, total = 0, count = 0; bool tripped = false; uint64_t trip_request = 0;
  void begin(uint64_t cap_bytes) { on = true; cap = cap_bytes; live = peak = largest = total = count = 0; tripped = false; trip_request = 0; }
  void end() { on = false; }
};
inline Meter& meter() { static thread_local Meter m; return m; }
}  // namespace vf
static const size_t kVfHdr = 16;   // size header in front of every block
static void* vf_alloc(size_t n) {
  vf::Meter& m = vf::meter();
  if (m.on) {
    m.count++; m.total += n; if (n > m.largest) m.largest = n;
    if (m.cap && (n > m.cap || m.live + n > m.cap)) { m.tripped = true; if (n > m.trip_request) m.trip_request = n; throw std::bad_alloc(); }
  }
  if (n > (size_t)1 << 40) throw std::bad_alloc();
  void* p = std::malloc(n + kVfHdr);
  if (!p) throw std::bad_alloc();
  *static_cast<uint64_t*>(p) = n; static_cast<uint64_t*>(p)[1] = m.on ? 1 : 0;
  if (m.on) { m.live += n; if (m.live > m.peak) m.peak = m.live; }
  return static_cast<char*>(p) + kVfHdr;
}
static void vf_free(void* q) noexcept {
  if (!q) return;
  char* p = static_cast<char*>(q) - kVfHdr;
  vf::Meter& m = vf::meter();
  uint64_t n = *reinterpret_cast<uint64_t*>(p); bool counted = reinterpret_cast<uint64_t*>(p)[1] != 0;
  if (m.on && counted) m.live = m.live >= n ? m.live - n : 0;
  std::free(p);
}
void* operator new(size_t n) { return vf_alloc(n); }
void* operator new[](size_t n) { return vf_alloc(n); }
void* operator new(size_t n, const std::nothrow_t&) noexcept { try { return vf_alloc(n); } catch (...) { return nullptr; } }
void* operator new[](size_t n, const std::nothrow_t&) noexcept { try { return vf_alloc(n); } catch (...) { return nullptr; } }
void operator delete(void* p, const std::nothrow_t&) noexcept { vf_free(p); }
void operator delete[](void* p, const std::nothrow_t&) noexcept { vf_free(p); }
void operator delete(void* p) noexcept { vf_free(p); }
void operator delete[](void* p) noexcept { vf_free(p); }
void operator delete(void* p, size_t) noexcept { vf_free(p); }
void operator delete[](void* p, size_t) noexcept { vf_free(p); }
