// Type-erased per-type operations (TypeOps) over every shipped reader/writer kind, so that property loops are
// written once, outside templates. Each corpus type instantiates Serializer<W*>::Write / Deserializer<R*>::Read
// for every applicable kind; applicability follows the property texts (no Skip => no tables on Fd*, no floats /
// wide elements through the constexpr writer, handles only where PushHandle/GetHandle exist).
#pragma once
#include <array>
#include <memory>
#include <sstream>
#include <string>
#include <vector>

#include <nop/serializer.h>
#include <nop/structure.h>
#include <nop/table.h>
#include <nop/value.h>
#include <nop/base/table.h>
#include <nop/base/handle.h>
#include <nop/utility/bounded_reader.h>
#include <nop/utility/bounded_writer.h>
#include <nop/utility/buffer_reader.h>
#include <nop/utility/buffer_writer.h>
#include <nop/utility/constexpr_buffer_writer.h>
#include <nop/utility/fd_reader.h>
#include <nop/utility/fd_writer.h>
#include <nop/utility/pedantic_buffer_reader.h>
#include <nop/utility/pedantic_buffer_writer.h>
#include <nop/utility/stream_reader.h>
#include <nop/utility/stream_writer.h>

#include "ref/refcodec.h"
#include "vlib/nopio.h"
#include "vlib/reflect.h"

namespace vf {

enum TypeFlags : uint32_t {
  F_FLOAT = 1,        // contains float/double (not through ConstexprBufferWriter)
  F_TABLE = 2,        // contains a table (needs Skip: not on Fd*)
  F_HANDLE = 4,       // contains a Handle (only Log* and Bounded<Log*>)
  F_UNBOUNDED = 8,    // contains a NOP_UNBOUNDED_BUFFER structure (excluded from hostile decoding)
  F_NOHOSTILE = 16,   // contains bool / non-fixed enum elements in BIN payloads (never loaded from hostile bytes)
  F_NOCONSTEXPR = 32, // element types ConstexprBufferWriter::WriteElement has no overload for (bool/wide chars/float)
  F_AMBIGUOUS = 64,   // nested nullable types the format cannot distinguish (Optional<Optional<T>>, ...)
  F_BIG = 128,        // large values: fewer cases per type
  F_UNORDERED = 256,  // contains unordered_map (iteration order is the container's own)
};

enum WKind { W_LOG, W_BUFFER, W_PEDANTIC, W_CONSTEXPR, W_STREAM, W_FD, W_B_PEDANTIC, W_B_BUFFER, W_B_LOG, W_B_STREAM, W_B_CONSTEXPR, W_B_FD, W_COUNT };
enum RKind { R_LOG, R_BUFFER, R_PEDANTIC, R_STREAM, R_CHUNKED, R_FD, R_B_PEDANTIC, R_B_BUFFER, R_B_LOG, R_B_STREAM, R_B_CHUNKED, R_B_FD, R_COUNT };
inline const char* wname(int k) { static const char* n[] = {"LogWriter", "BufferWriter", "PedanticBufferWriter", "ConstexprBufferWriter", "StreamWriter<stringstream>", "FdWriter", "BoundedWriter<Pedantic>", "BoundedWriter<Buffer>", "BoundedWriter<Log>", "BoundedWriter<Stream>", "BoundedWriter<Constexpr>", "BoundedWriter<Fd>"}; return n[k]; }
inline const char* rname(int k) { static const char* n[] = {"LogReader", "BufferReader", "PedanticBufferReader", "StreamReader<stringstream>", "StreamReader<chunked non-seekable>", "FdReader", "BoundedReader<Pedantic>", "BoundedReader<Buffer>", "BoundedReader<Log>", "BoundedReader<Stream>", "BoundedReader<Chunked>", "BoundedReader<Fd>"}; return n[k]; }
inline bool w_is_bounded(int k) { return k >= W_B_PEDANTIC; }
inline bool r_is_bounded(int k) { return k >= R_B_PEDANTIC; }
inline int w_inner(int k) { switch (k) { case W_B_PEDANTIC: return W_PEDANTIC; case W_B_BUFFER: return W_BUFFER; case W_B_LOG: return W_LOG; case W_B_STREAM: return W_STREAM; case W_B_CONSTEXPR: return W_CONSTEXPR; case W_B_FD: return W_FD; default: return k; } }
inline int r_inner(int k) { switch (k) { case R_B_PEDANTIC: return R_PEDANTIC; case R_B_BUFFER: return R_BUFFER; case R_B_LOG: return R_LOG; case R_B_STREAM: return R_STREAM; case R_B_CHUNKED: return R_CHUNKED; case R_B_FD: return R_FD; default: return k; } }
// which kinds a type with these flags may use
inline bool w_ok(int k, uint32_t flags) {
  int in = w_inner(k);
  if ((flags & F_HANDLE) && in != W_LOG) return false;
  if ((flags & F_TABLE) && in == W_FD) return false;
  if ((flags & (F_FLOAT | F_NOCONSTEXPR)) && in == W_CONSTEXPR) return false;
  return true;
}
inline bool r_ok(int k, uint32_t flags) {
  int in = r_inner(k);
  if ((flags & F_HANDLE) && in != R_LOG) return false;
  if ((flags & F_TABLE) && in == R_FD) return false;
  return true;
}
// readers that enforce an input limit themselves ("bounded readers" of C02/C04)
inline bool r_checked_memory(int k) { return k == R_BUFFER || k == R_PEDANTIC || k == R_LOG || r_is_bounded(k); }

using SStreamWriter = nop::StreamWriter<std::stringstream>;
using SStreamReader = nop::StreamReader<std::stringstream>;
using ChunkedReader = nop::StreamReader<ChunkedIStream>;

// ------------------------------------------------------------------ Sink: one writer of a given kind + its medium
struct Sink {
  int kind = W_LOG;
  size_t capacity = 0;                 // buffer capacity (buffer kinds) / LogWriter capacity
  size_t bound = SIZE_MAX;             // limit of the BoundedWriter (bounded kinds)
  ExactBuf buf;                        // backing store of buffer kinds: exactly `capacity` bytes
  ExactBuf canary_copy;                // unused
  LogWriter log;
  nop::BufferWriter bw; nop::PedanticBufferWriter pw; nop::ConstexprBufferWriter cw;
  std::unique_ptr<SStreamWriter> sw; std::unique_ptr<nop::FdWriter> fw; int fd = -1;  // fd: our own descriptor on the medium
  bool use_pipe = false; int pipe_rd = -1; std::vector<uint8_t> pipe_acc;   // bytes already drained from the pipe
  nop::BoundedWriter<nop::PedanticBufferWriter> bpw; nop::BoundedWriter<nop::BufferWriter> bbw; nop::BoundedWriter<LogWriter> blw;
  nop::BoundedWriter<SStreamWriter> bsw; nop::BoundedWriter<nop::ConstexprBufferWriter> bcw; nop::BoundedWriter<nop::FdWriter> bfw;

  Sink() = default; Sink(const Sink&) = delete;
  ~Sink() { fw.reset(); if (fd >= 0) ::close(fd); if (pipe_rd >= 0) ::close(pipe_rd); }
  // (re)initialise. cap: capacity for buffer kinds; bnd: bound for bounded kinds
  void init(int k, size_t cap, size_t bnd = SIZE_MAX, bool pipe = false) {
    kind = k; capacity = cap; bound = bnd; use_pipe = pipe;
    int in = w_inner(k);
    log.reset(); log.capacity = SIZE_MAX;
    if (in == W_BUFFER || in == W_PEDANTIC || in == W_CONSTEXPR) buf.alloc(cap);
    switch (in) {
      case W_LOG: if (k == W_LOG || k == W_B_LOG) log.capacity = cap; break;
      case W_BUFFER: bw = nop::BufferWriter(buf.p, cap); break;
      case W_PEDANTIC: pw = nop::PedanticBufferWriter(buf.p, cap); break;
      case W_CONSTEXPR: cw = nop::ConstexprBufferWriter(buf.p, cap); break;
      case W_STREAM: sw.reset(new SStreamWriter()); break;
      case W_FD: {
        fw.reset(); if (fd >= 0) ::close(fd); if (pipe_rd >= 0) { ::close(pipe_rd); pipe_rd = -1; }
        pipe_acc.clear();
        if (pipe) { int fds[2]; if (::pipe(fds) != 0) abort(); pipe_rd = fds[0]; fd = fds[1]; }
        else fd = memfd_create("vfw", 0);
        fw.reset(new nop::FdWriter(::dup(fd)));
      } break;
    }
    switch (k) {
      case W_B_PEDANTIC: bpw = nop::BoundedWriter<nop::PedanticBufferWriter>(&pw, bnd); break;
      case W_B_BUFFER: bbw = nop::BoundedWriter<nop::BufferWriter>(&bw, bnd); break;
      case W_B_LOG: blw = nop::BoundedWriter<LogWriter>(&log, bnd); break;
      case W_B_STREAM: bsw = nop::BoundedWriter<SStreamWriter>(sw.get(), bnd); break;
      case W_B_CONSTEXPR: bcw = nop::BoundedWriter<nop::ConstexprBufferWriter>(&cw, bnd); break;
      case W_B_FD: bfw = nop::BoundedWriter<nop::FdWriter>(fw.get(), bnd); break;
      default: break;
    }
  }
  // bytes produced so far on the medium
  size_t written() {
    switch (w_inner(kind)) {
      case W_LOG: return log.data.size();
      case W_BUFFER: return bw.size(); case W_PEDANTIC: return pw.size(); case W_CONSTEXPR: return cw.size();
      case W_STREAM: return (size_t)sw->stream().str().size();
      case W_FD: return use_pipe ? pipe_acc.size() + pipe_pending(pipe_rd) : (size_t)::lseek(fd, 0, SEEK_CUR);
    }
    return 0;
  }
  std::vector<uint8_t> bytes() {
    switch (w_inner(kind)) {
      case W_LOG: return log.data;
      case W_BUFFER: case W_PEDANTIC: case W_CONSTEXPR: return buf.vec(std::min(written(), capacity));
      case W_STREAM: { std::string s = sw->stream().str(); return std::vector<uint8_t>(s.begin(), s.end()); }
      case W_FD: {
        std::vector<uint8_t> v;
        if (use_pipe) { size_t n = pipe_pending(pipe_rd); size_t base = pipe_acc.size(); pipe_acc.resize(base + n); size_t off = 0; while (off < n) { ssize_t r = ::read(pipe_rd, pipe_acc.data() + base + off, n - off); if (r <= 0) break; off += (size_t)r; } pipe_acc.resize(base + off); v = pipe_acc; }
        else { off_t n = ::lseek(fd, 0, SEEK_CUR); v.resize((size_t)n); if (n) { ssize_t r = ::pread(fd, v.data(), (size_t)n, 0); (void)r; } }
        return v;
      }
    }
    return {};
  }
};

// ------------------------------------------------------------------ Source: one reader of a given kind over given bytes
struct Source {
  int kind = R_PEDANTIC;
  size_t total = 0, bound = SIZE_MAX;
  ExactBuf buf;
  LogReader log;
  nop::BufferReader br; nop::PedanticBufferReader pr;
  std::unique_ptr<SStreamReader> sr; std::unique_ptr<ChunkedReader> cr; std::unique_ptr<nop::FdReader> fr; int fd = -1; bool use_pipe = false;
  nop::BoundedReader<nop::PedanticBufferReader> bpr; nop::BoundedReader<nop::BufferReader> bbr; nop::BoundedReader<LogReader> blr;
  nop::BoundedReader<SStreamReader> bsr; nop::BoundedReader<ChunkedReader> bcr; nop::BoundedReader<nop::FdReader> bfr;

  Source() = default; Source(const Source&) = delete;
  ~Source() { fr.reset(); if (fd >= 0) ::close(fd); }
  void init(int k, const uint8_t* data, size_t n, size_t bnd = SIZE_MAX, unsigned chunk = 3, bool pipe = false) {
    kind = k; total = n; bound = bnd; use_pipe = pipe;
    int in = r_inner(k);
    if (in == R_LOG || in == R_BUFFER || in == R_PEDANTIC) buf = ExactBuf(data, n);
    switch (in) {
      case R_LOG: log = LogReader(buf.p, n); break;
      case R_BUFFER: br = nop::BufferReader(buf.p, n); break;
      case R_PEDANTIC: pr = nop::PedanticBufferReader(buf.p, n); break;
      case R_STREAM: sr.reset(new SStreamReader(std::string((const char*)data, n))); break;
      case R_CHUNKED: cr.reset(new ChunkedReader(data, n, chunk)); break;
      case R_FD: {
        fr.reset(); if (fd >= 0) ::close(fd);
        fd = (pipe && n < 60000) ? make_pipe_with(data, n) : make_memfd(data, n); use_pipe = pipe && n < 60000;
        if (fd < 0) abort();
        fr.reset(new nop::FdReader(::dup(fd)));
      } break;
    }
    switch (k) {
      case R_B_PEDANTIC: bpr = nop::BoundedReader<nop::PedanticBufferReader>(&pr, bnd); break;
      case R_B_BUFFER: bbr = nop::BoundedReader<nop::BufferReader>(&br, bnd); break;
      case R_B_LOG: blr = nop::BoundedReader<LogReader>(&log, bnd); break;
      case R_B_STREAM: bsr = nop::BoundedReader<SStreamReader>(sr.get(), bnd); break;
      case R_B_CHUNKED: bcr = nop::BoundedReader<ChunkedReader>(cr.get(), bnd); break;
      case R_B_FD: bfr = nop::BoundedReader<nop::FdReader>(fr.get(), bnd); break;
      default: break;
    }
  }
  // bytes consumed from the underlying medium so far
  size_t consumed() {
    switch (r_inner(kind)) {
      case R_LOG: return log.pos;
      case R_BUFFER: return total - br.remaining(); case R_PEDANTIC: return total - pr.remaining();
      case R_STREAM: { auto p = sr->stream().rdbuf()->pubseekoff(0, std::ios_base::cur, std::ios_base::in); return p < 0 ? total : (size_t)p; }
      case R_CHUNKED: return cr->stream().consumed();
      case R_FD: return use_pipe ? total - pipe_pending(fd) : (size_t)::lseek(fd, 0, SEEK_CUR);
    }
    return 0;
  }
};

// ------------------------------------------------------------------ per-type erased operations
struct TypeOps {
  const char* name;            // printable, stable
  const char* cpp;             // C++ spelling
  uint32_t flags;
  Sch (*schema)();
  void* (*create)();
  void (*destroy)(void*);
  void (*from_val)(const Val&, void*);
  Val (*to_val)(const void*);
  size_t (*get_size)(const void*);
  nop::Status<void> (*write)(Sink&, const void*);
  nop::Status<void> (*read)(Source&, void*);
  size_t sizeof_t;
};

template <bool Enable> struct Guard;
template <> struct Guard<true> {
  template <typename W, typename T> static nop::Status<void> write(W* w, const T& v) { return nop::Serializer<W*>{w}.Write(v); }
  template <typename R, typename T> static nop::Status<void> read(R* r, T* v) { return nop::Deserializer<R*>{r}.Read(v); }
};
template <> struct Guard<false> {
  template <typename W, typename T> static nop::Status<void> write(W*, const T&) { return nop::ErrorStatus::DebugError; }
  template <typename R, typename T> static nop::Status<void> read(R*, T*) { return nop::ErrorStatus::DebugError; }
};

template <typename T, uint32_t Flags> struct OpsImpl {
  using H = Holder<T>;
  enum : bool { kHandle = (Flags & F_HANDLE) != 0, kTable = (Flags & F_TABLE) != 0, kNoCx = (Flags & (F_FLOAT | F_NOCONSTEXPR)) != 0 };
  using Plain = Guard<!kHandle>; using Fd = Guard<!kHandle && !kTable>; using Cx = Guard<!kHandle && !kNoCx>; using Any = Guard<true>;
  static void* create() { return new H(); }
  static void destroy(void* p) { delete static_cast<H*>(p); }
  static void from_val(const Val& v, void* p) { FromVal<T>(v, &static_cast<H*>(p)->get()); }
  static Val to_val(const void* p) { return ToVal<T>(static_cast<const H*>(p)->get()); }
  static size_t get_size(const void* p) { nop::Serializer<LogWriter*> s{nullptr}; return s.GetSize(static_cast<const H*>(p)->get()); }
  static nop::Status<void> write(Sink& s, const void* p) {
    const T& v = static_cast<const H*>(p)->get();
    switch (s.kind) {
      case W_LOG: return Any::write(&s.log, v);
      case W_PEDANTIC: return Plain::write(&s.pw, v);
      case W_STREAM: return Plain::write(s.sw.get(), v);
#ifndef VF_OPS_FEW
      case W_BUFFER: return Plain::write(&s.bw, v);
      case W_CONSTEXPR: return Cx::write(&s.cw, v);
      case W_FD: return Fd::write(s.fw.get(), v);
      case W_B_PEDANTIC: return Plain::write(&s.bpw, v);
      case W_B_BUFFER: return Plain::write(&s.bbw, v);
      case W_B_LOG: return Any::write(&s.blw, v);
      case W_B_STREAM: return Plain::write(&s.bsw, v);
      case W_B_CONSTEXPR: return Cx::write(&s.bcw, v);
      case W_B_FD: return Fd::write(&s.bfw, v);
#endif
      default: break;
    }
    return nop::ErrorStatus::DebugError;
  }
  static nop::Status<void> read(Source& s, void* p) {
    T* v = &static_cast<H*>(p)->get();
    switch (s.kind) {
      case R_LOG: return Any::read(&s.log, v);
      case R_BUFFER: return Plain::read(&s.br, v);
      case R_PEDANTIC: return Plain::read(&s.pr, v);
      case R_STREAM: return Plain::read(s.sr.get(), v);
      case R_CHUNKED: return Plain::read(s.cr.get(), v);
      case R_B_PEDANTIC: return Plain::read(&s.bpr, v);
#ifndef VF_OPS_FEW
      case R_FD: return Fd::read(s.fr.get(), v);
      case R_B_BUFFER: return Plain::read(&s.bbr, v);
      case R_B_LOG: return Any::read(&s.blr, v);
      case R_B_STREAM: return Plain::read(&s.bsr, v);
      case R_B_CHUNKED: return Plain::read(&s.bcr, v);
      case R_B_FD: return Fd::read(&s.bfr, v);
#endif
      default: break;
    }
    return nop::ErrorStatus::DebugError;
  }
};

template <typename T, uint32_t Flags> TypeOps MakeOps(const char* name, const char* cpp) {
  using I = OpsImpl<T, Flags>;
  return TypeOps{name, cpp, Flags, &SchemaOf<T>, &I::create, &I::destroy, &I::from_val, &I::to_val, &I::get_size, &I::write, &I::read, sizeof(T)};
}

std::vector<TypeOps>& registry();
struct Registrar { Registrar(const TypeOps& o) { registry().push_back(o); } };

}  // namespace vf
