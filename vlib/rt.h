// Shared runtime for all verification engines: argument parsing, deterministic PRNG,
// counters, distinct-case accounting, samples, violation reports with replay files,
// "case in flight" descriptor that survives a sanitizer abort.
//
// One translation unit per engine must define VF_RT_MAIN before including this header.
#pragma once
#include <algorithm>
#include <atomic>
#include <cinttypes>
#include <csignal>
#include <cstdarg>
#include <cstdint>
#include <cstdio>
#include <cstdlib>
#include <cstring>
#include <fcntl.h>
#include <pthread.h>
#include <map>
#include <set>
#include <string>
#include <unistd.h>
#include <unordered_set>
#include <vector>

namespace vf {

// ---------------------------------------------------------------- hashing / PRNG
inline uint64_t mix64(uint64_t x) {
  x += 0x9e3779b97f4a7c15ull;
  x = (x ^ (x >> 30)) * 0xbf58476d1ce4e5b9ull;
  x = (x ^ (x >> 27)) * 0x94d049bb133111ebull;
  return x ^ (x >> 31);
}
inline uint64_t hash_bytes(const void* p, size_t n, uint64_t h = 0xcbf29ce484222325ull) {
  const uint8_t* b = static_cast<const uint8_t*>(p);
  for (size_t i = 0; i < n; i++) { h ^= b[i]; h *= 0x100000001b3ull; }
  return mix64(h);
}
inline uint64_t hash_str(const std::string& s, uint64_t h = 0xcbf29ce484222325ull) { return hash_bytes(s.data(), s.size(), h); }
inline uint64_t hash_combine(uint64_t a, uint64_t b) { return mix64(a ^ (b + 0x9e3779b97f4a7c15ull + (a << 6) + (a >> 2))); }

struct Rng {
  uint64_t s;
  explicit Rng(uint64_t seed = 1) : s(seed) {}
  uint64_t next() { return mix64(s += 0x9e3779b97f4a7c15ull); }
  uint64_t operator()() { return next(); }
  uint64_t below(uint64_t n) { return n ? next() % n : 0; }
  bool chance(uint64_t num, uint64_t den) { return below(den) < num; }
  template <typename T, size_t N> const T& pick(const T (&a)[N]) { return a[below(N)]; }
};

// ---------------------------------------------------------------- JSON helpers
inline std::string jstr(const std::string& s) {
  std::string o = "\"";
  for (unsigned char c : s) {
    if (c == '"' || c == '\\') { o += '\\'; o += (char)c; }
    else if (c == '\n') o += "\\n";
    else if (c == '\t') o += "\\t";
    else if (c < 0x20 || c >= 0x7f) { char t[8]; snprintf(t, sizeof t, "\\u%04x", c); o += t; }
    else o += (char)c;
  }
  return o + "\"";
}
inline std::string hex(const uint8_t* p, size_t n, size_t max = 96) {
  static const char* d = "0123456789abcdef"; std::string s;
  for (size_t i = 0; i < n && i < max; i++) { s += d[p[i] >> 4]; s += d[p[i] & 15]; }
  if (n > max) { s += "..(+"; s += std::to_string(n - max); s += ")"; }
  return s;
}
inline std::string hex(const std::vector<uint8_t>& b, size_t max = 96) { return hex(b.data(), b.size(), max); }
inline std::string fmt(const char* f, ...) {
  char buf[4096]; va_list ap; va_start(ap, f); vsnprintf(buf, sizeof buf, f, ap); va_end(ap); return buf;
}
// tiny JSON object builder: J().s("k","v").u("n",3).raw("x","[1,2]").str()
struct J {
  std::string o = "{"; bool first = true;
  J& key(const char* k) { if (!first) o += ","; first = false; o += jstr(k); o += ":"; return *this; }
  J& s(const char* k, const std::string& v) { key(k); o += jstr(v); return *this; }
  J& u(const char* k, uint64_t v) { key(k); o += std::to_string(v); return *this; }
  J& i(const char* k, int64_t v) { key(k); o += std::to_string(v); return *this; }
  J& b(const char* k, bool v) { key(k); o += v ? "true" : "false"; return *this; }
  J& raw(const char* k, const std::string& v) { key(k); o += v; return *this; }
  std::string str() const { return o + "}"; }
};

// ---------------------------------------------------------------- arguments
struct Args {
  std::string prop, tier = "quick", out = ".", only_type, engine;
  uint64_t seed = 1;
  int worker = 0, nworkers = 1;
  int64_t only_case = -1;       // replay: run exactly this case index (of only_type / only_group)
  std::string only_stage;       // replay: sub-stage filter (engine specific)
  std::vector<std::string> extra;
  bool replay() const { return only_case >= 0 || !only_type.empty(); }
  bool thorough() const { return tier == "thorough"; }
};
Args& args();

// ---------------------------------------------------------------- report
struct Report {
  std::map<std::string, uint64_t> counters;
  std::map<std::string, std::string> infos;                 // free-form facts (json values)
  std::unordered_set<uint64_t> distinct;                    // hashes of distinct non-trivial cases
  uint64_t evaluations = 0, distinct_dropped = 0;
  std::vector<std::string> samples;                         // json objects
  std::map<std::string, uint64_t> sample_kinds;             // samples kept per kind
  struct Viol { std::string key, what, case_json, replay; uint64_t count; };
  std::map<std::string, Viol> viols;                        // by key
  size_t distinct_cap = 4000000;

  void count(const std::string& k, uint64_t n = 1) { counters[k] += n; }
  void maxc(const std::string& k, uint64_t v) { auto& c = counters[k]; if (v > c) c = v; }
  // one executed case; h identifies it; nontrivial by the engine's rule
  void note(uint64_t h, bool nontrivial) {
    evaluations++;
    if (nontrivial) { if (distinct.size() < distinct_cap) distinct.insert(h); else distinct_dropped++; }
  }
  // a case that is distinct by construction (exhaustive enumeration without repetition): counted, not hashed
  uint64_t enumerated_distinct = 0;
  void note_enumerated(bool nontrivial, uint64_t n = 1) { evaluations += n; if (nontrivial) enumerated_distinct += n; }
  // keep up to `per_kind` samples of each kind
  void sample(const std::string& kind, const std::string& json_obj, unsigned per_kind = 2) {
    auto& n = sample_kinds[kind];
    if (n < per_kind) { n++; samples.push_back("{\"kind\":" + jstr(kind) + ",\"case\":" + json_obj + "}"); }
  }
  bool want_sample(const std::string& kind, unsigned per_kind = 2) { auto it = sample_kinds.find(kind); return it == sample_kinds.end() || it->second < per_kind; }
  // report a violation. key: stable class (no random values). case_json: replay descriptor.
  void violation(const std::string& key, const std::string& what, const std::string& case_json);
  int finish();
};
Report& rep();

// descriptor of the case in flight; dumped by the crash handlers
void set_current(const char* f, ...) __attribute__((format(printf, 1, 2)));
void clear_current();
const char* current();
void set_watchdog(unsigned seconds);   // per-case watchdog: no set_current/clear_current/tick for this long => exit 77 with the case dumped
void tick();

// standard replay descriptor for the in-flight case
inline std::string case_desc(const std::string& type, int64_t case_idx, const std::string& stage, const std::string& extra_json = "{}") {
  return J().s("engine", args().engine).s("prop", args().prop).s("tier", args().tier).u("seed", args().seed)
      .s("type", type).i("case", case_idx).s("stage", stage).raw("detail", extra_json).str();
}

// per-case RNG independent of worker partitioning, so a case can be replayed alone
inline Rng case_rng(const std::string& type, uint64_t case_idx, uint64_t salt = 0) {
  return Rng(hash_combine(hash_combine(hash_str(type), args().seed * 0x10001ull + salt), case_idx));
}
inline bool mine(uint64_t unit) { return (int)(unit % (uint64_t)args().nworkers) == args().worker; }
inline bool selected(const std::string& type, int64_t case_idx) {
  const Args& a = args();
  if (!a.only_type.empty() && a.only_type != type) return false;
  if (a.only_case >= 0 && a.only_case != case_idx) return false;
  return true;
}

int engine_main();   // provided by the engine

}  // namespace vf

#ifdef VF_RT_MAIN
#if defined(__has_feature)
#if __has_feature(address_sanitizer)
#define VF_HAS_ASAN 1
#endif
#endif
namespace vf {
Args& args() { static Args a; return a; }
Report& rep() { static Report r; return r; }
static char g_current[8192];
static int g_current_fd = -1;
static std::atomic<uint64_t> g_progress{0};
static std::atomic<unsigned> g_watchdog_s{180};
void set_watchdog(unsigned seconds) { g_watchdog_s = seconds; g_progress++; }
void tick() { g_progress++; }
void set_current(const char* f, ...) { va_list ap; va_start(ap, f); vsnprintf(g_current, sizeof g_current, f, ap); va_end(ap); g_progress++; }
void clear_current() { g_current[0] = 0; g_progress++; }
const char* current() { return g_current; }
static void dump_current() {
  if (g_current_fd >= 0 && g_current[0]) {
    (void)!ftruncate(g_current_fd, 0); (void)!pwrite(g_current_fd, g_current, strlen(g_current), 0);
    // only once
    g_current[0] = 0;
  }
}
static void crash_handler(int sig) { dump_current(); signal(sig, SIG_DFL); raise(sig); }
static void* watchdog_main(void*) {
  uint64_t last = g_progress.load(); unsigned idle = 0;
  for (;;) {
    sleep(1);
    if (g_progress.load() != last) { last = g_progress.load(); idle = 0; continue; }
    if (++idle >= g_watchdog_s.load()) {
      fprintf(stderr, "[w%d] watchdog: no progress for %u s; case in flight: %s\n", args().worker, idle, g_current);
      dump_current(); _exit(77);
    }
  }
  return nullptr;
}

void Report::violation(const std::string& key, const std::string& what, const std::string& case_json) {
  auto it = viols.find(key);
  if (it != viols.end()) { it->second.count++; return; }
  Viol v; v.key = key; v.what = what; v.case_json = case_json; v.count = 1;
  std::string safe; for (char c : key) safe += (isalnum((unsigned char)c) ? c : '_'); if (safe.size() > 80) safe.resize(80);
  v.replay = args().out + "/replay-" + args().prop + "-" + safe + "-w" + std::to_string(args().worker) + ".json";
  FILE* f = fopen(v.replay.c_str(), "w");
  if (f) {
    fprintf(f, "{\"property\":%s,\"key\":%s,\"what\":%s,\"case\":%s}\n", jstr(args().prop).c_str(), jstr(key).c_str(), jstr(what).c_str(), case_json.empty() ? "null" : case_json.c_str());
    fclose(f);
  }
  fprintf(stderr, "[w%d] violation key=%s %s\n", args().worker, key.c_str(), what.c_str());
  viols[key] = v;
}

int Report::finish() {
  std::string base = args().out + "/worker-" + std::to_string(args().worker);
  { FILE* f = fopen((base + ".hashes").c_str(), "wb"); if (f) { std::vector<uint64_t> v(distinct.begin(), distinct.end()); if (!v.empty()) fwrite(v.data(), 8, v.size(), f); fclose(f); } }
  FILE* f = fopen((base + ".json.tmp").c_str(), "w");
  if (!f) { perror("worker json"); return 2; }
  fprintf(f, "{\"worker\":%d,\"evaluations\":%" PRIu64 ",\"distinct_local\":%zu,\"distinct_dropped\":%" PRIu64 ",\"enumerated_distinct\":%" PRIu64 ",\"counters\":{", args().worker, evaluations, distinct.size(), distinct_dropped, enumerated_distinct);
  bool first = true; for (auto& c : counters) { fprintf(f, "%s%s:%" PRIu64, first ? "" : ",", jstr(c.first).c_str(), c.second); first = false; }
  fprintf(f, "},\"infos\":{"); first = true; for (auto& c : infos) { fprintf(f, "%s%s:%s", first ? "" : ",", jstr(c.first).c_str(), c.second.c_str()); first = false; }
  fprintf(f, "},\"samples\":["); first = true; for (auto& s : samples) { fprintf(f, "%s%s", first ? "" : ",", s.c_str()); first = false; }
  fprintf(f, "],\"violations\":["); first = true;
  for (auto& kv : viols) { auto& v = kv.second; fprintf(f, "%s{\"key\":%s,\"what\":%s,\"count\":%" PRIu64 ",\"replay\":%s}", first ? "" : ",", jstr(v.key).c_str(), jstr(v.what).c_str(), v.count, jstr(v.replay).c_str()); first = false; }
  fprintf(f, "]}\n"); fclose(f);
  rename((base + ".json.tmp").c_str(), (base + ".json").c_str());
  return viols.empty() ? 0 : 1;
}
}  // namespace vf

extern "C" void __asan_on_error() { vf::dump_current(); }

int main(int argc, char** argv) {
  using namespace vf;
  Args& a = args();
  // merge mode: count distinct 64-bit hashes over files
  if (argc >= 2 && std::string(argv[1]) == "--merge-hashes") {
    std::vector<uint64_t> all;
    for (int i = 2; i < argc; i++) { FILE* f = fopen(argv[i], "rb"); if (!f) continue; uint64_t buf[4096]; size_t n; while ((n = fread(buf, 8, 4096, f)) > 0) all.insert(all.end(), buf, buf + n); fclose(f); }
    std::sort(all.begin(), all.end()); all.erase(std::unique(all.begin(), all.end()), all.end());
    printf("%zu\n", all.size()); return 0;
  }
  for (int i = 1; i < argc; i++) {
    std::string k = argv[i]; auto val = [&]() -> std::string { return i + 1 < argc ? argv[++i] : ""; };
    if (k == "--prop") a.prop = val(); else if (k == "--tier") a.tier = val(); else if (k == "--seed") a.seed = strtoull(val().c_str(), 0, 10);
    else if (k == "--worker") { std::string w = val(); sscanf(w.c_str(), "%d/%d", &a.worker, &a.nworkers); }
    else if (k == "--out") a.out = val(); else if (k == "--only-type") a.only_type = val(); else if (k == "--only-case") a.only_case = strtoll(val().c_str(), 0, 10);
    else if (k == "--only-stage") a.only_stage = val(); else if (k == "--engine") a.engine = val();
    else a.extra.push_back(k);
  }
  if (a.nworkers < 1) a.nworkers = 1;
  std::string cur = a.out + "/worker-" + std::to_string(a.worker) + ".current";
  g_current_fd = open(cur.c_str(), O_CREAT | O_TRUNC | O_WRONLY, 0644);
#if defined(__SANITIZE_ADDRESS__) || defined(VF_HAS_ASAN)
  // ASan owns SEGV/BUS/FPE/ILL (its report is the witness; __asan_on_error dumps the case in flight)
  signal(SIGABRT, crash_handler);
#else
  for (int s : {SIGABRT, SIGSEGV, SIGBUS, SIGFPE, SIGILL}) signal(s, crash_handler);
#endif
  signal(SIGPIPE, SIG_IGN);   // a write to a pipe whose reader went away is an IOError for the writer under test, not a harness death
  { pthread_t th; pthread_create(&th, nullptr, watchdog_main, nullptr); pthread_detach(th); }
  int rc = engine_main();
  clear_current();
  int frc = rep().finish();
  return rc ? rc : frc;
}
#endif
