// Independent reflection of C++ types into Sch/Val. It does not use nop::Encoding, MemberList or the
// NOP macros' metadata: user-defined types get explicit Reflect specialisations emitted by gen/typegen.py.
#pragma once
#include <array>
#include <cstring>
#include <functional>
#include <map>
#include <string>
#include <tuple>
#include <type_traits>
#include <unordered_map>
#include <vector>

#include <nop/table.h>
#include <nop/types/handle.h>
#include <nop/types/optional.h>
#include <nop/types/result.h>
#include <nop/types/variant.h>

#include "ref/val.h"
#include "vlib/rt.h"

namespace vf {

template <typename T, typename E = void> struct Reflect;
template <typename T> Sch SchemaOf() { return Reflect<T>::schema(); }
template <typename T> Val ToVal(const T& x) { return Reflect<T>::to(x); }
template <typename T> void FromVal(const Val& v, T* x) { Reflect<T>::from(v, x); }

// ---- scalars
template <> struct Reflect<bool> {
  static Sch schema() { Sch s{K::BOOL}; return s; }
  // read the object representation: a bool decoded from hostile bytes is never produced by libnop (prefix 0/1 only)
  static Val to(bool x) { Val v; v.u = x ? 1 : 0; return v; }
  static void from(const Val& v, bool* x) { *x = v.u != 0; }
};
template <> struct Reflect<char> {
  static Sch schema() { Sch s{K::CHAR}; s.bits = 8; return s; }
  static Val to(char x) { Val v; v.u = (uint8_t)x; return v; }
  static void from(const Val& v, char* x) { *x = (char)v.u; }
};
template <typename T>
struct Reflect<T, std::enable_if_t<std::is_integral<T>::value && !std::is_same<T, bool>::value && !std::is_same<T, char>::value>> {
  static Sch schema() { Sch s{std::is_signed<T>::value ? K::INT : K::UINT}; s.bits = sizeof(T) * 8; return s; }
  static Val to(T x) { Val v; v.u = (uint64_t)(std::make_unsigned_t<T>)x; return v; }
  static void from(const Val& v, T* x) { *x = (T)v.u; }
};
template <typename T> struct Reflect<T, std::enable_if_t<std::is_enum<T>::value>> {
  using U = std::underlying_type_t<T>;
  static Sch schema() { return Reflect<U>::schema(); }
  static Val to(T x) { return Reflect<U>::to((U)x); }
  static void from(const Val& v, T* x) { U u; Reflect<U>::from(v, &u); *x = (T)u; }
};
template <> struct Reflect<float> {
  static Sch schema() { Sch s{K::F32}; return s; }
  static Val to(float x) { Val v; uint32_t b; memcpy(&b, &x, 4); v.u = b; return v; }
  static void from(const Val& v, float* x) { uint32_t b = (uint32_t)v.u; memcpy(x, &b, 4); }
};
template <> struct Reflect<double> {
  static Sch schema() { Sch s{K::F64}; return s; }
  static Val to(double x) { Val v; memcpy(&v.u, &x, 8); return v; }
  static void from(const Val& v, double* x) { memcpy(x, &v.u, 8); }
};
template <typename C> struct Reflect<std::basic_string<C>> {
  static Sch schema() { Sch s{K::STR}; s.bits = sizeof(C) * 8; return s; }
  static Val to(const std::basic_string<C>& x) { Val v; v.bytes.assign((const char*)x.data(), x.size() * sizeof(C)); return v; }
  static void from(const Val& v, std::basic_string<C>* x) { x->assign((const C*)v.bytes.data(), v.bytes.size() / sizeof(C)); }
};

// ---- sequences: integral elements -> BIN (raw little-endian bytes), others -> ARY
template <typename T> struct IsInt : std::is_integral<T> {};
template <typename T, typename It> Val seq_to(It b, It e, std::true_type) { Val v; for (; b != e; ++b) { T x = *b; v.bytes.append((const char*)&x, sizeof(T)); } return v; }
template <typename T, typename It> Val seq_to(It b, It e, std::false_type) { Val v; for (; b != e; ++b) v.kids.push_back(ToVal<T>(*b)); return v; }
template <typename T> size_t seq_count(const Val& v) { return std::is_integral<T>::value ? v.bytes.size() / sizeof(T) : v.kids.size(); }
template <typename T> void seq_get(const Val& v, size_t i, T* x, std::true_type) { memcpy(x, v.bytes.data() + i * sizeof(T), sizeof(T)); }
template <typename T> void seq_get(const Val& v, size_t i, T* x, std::false_type) { FromVal<T>(v.kids[i], x); }
template <typename T> Sch seq_schema(Len len, uint64_t n) {
  Sch s{std::is_integral<T>::value ? K::BIN : K::ARY}; s.len = len; s.n = n;
  if (std::is_integral<T>::value) { s.bits = sizeof(T) * 8; s.boolel = std::is_same<T, bool>::value; } else s.kids.push_back(SchemaOf<T>());
  return s;
}
template <typename T, typename A> struct Reflect<std::vector<T, A>> {
  static Sch schema() { return seq_schema<T>(Len::VAR, 0); }
  static Val to(const std::vector<T, A>& x) { return seq_to<T>(x.begin(), x.end(), IsInt<T>{}); }
  static void from(const Val& v, std::vector<T, A>* x) { x->clear(); size_t n = seq_count<T>(v); for (size_t i = 0; i < n; i++) { T e{}; seq_get<T>(v, i, &e, IsInt<T>{}); x->push_back(std::move(e)); } }
};
template <typename T, size_t N> struct Reflect<std::array<T, N>> {
  static Sch schema() { return seq_schema<T>(Len::FIXED, N); }
  static Val to(const std::array<T, N>& x) { return seq_to<T>(x.begin(), x.end(), IsInt<T>{}); }
  static void from(const Val& v, std::array<T, N>* x) { for (size_t i = 0; i < N; i++) seq_get<T>(v, i, &(*x)[i], IsInt<T>{}); }
};
template <typename T, size_t N> struct Reflect<T[N]> {
  static Sch schema() { return seq_schema<T>(Len::FIXED, N); }
  static Val to(const T (&x)[N]) { return seq_to<T>(&x[0], &x[0] + N, IsInt<T>{}); }
  static void from(const Val& v, T (*x)[N]) { for (size_t i = 0; i < N; i++) seq_get<T>(v, i, &(*x)[i], IsInt<T>{}); }
};
// logical buffer helpers (array member + size member); the wire form is that of a vector with a capacity
template <typename Arr> struct ArrElem;
template <typename T, size_t N> struct ArrElem<T[N]> { using type = T; enum : size_t { n = N }; };
template <typename T, size_t N> struct ArrElem<std::array<T, N>> { using type = T; enum : size_t { n = N }; };
template <typename Arr, typename Sz> Sch lb_schema(bool unbounded = false) { using T = typename ArrElem<Arr>::type; return seq_schema<T>(unbounded ? Len::VAR : Len::CAP, ArrElem<Arr>::n); }
// set when an object is inspected whose size member does not fit its array (an application walking a[0..n) would leave the object)
inline bool& lb_inspected_out_of_range() { static thread_local bool f = false; return f; }
template <typename Arr, typename Sz> Val lb_to(const Arr& a, const Sz& n) {
  using T = typename ArrElem<Arr>::type; size_t c = (size_t)n; if (n < Sz(0) || c > ArrElem<Arr>::n) { c = (n < Sz(0)) ? 0 : ArrElem<Arr>::n; lb_inspected_out_of_range() = true; }   // never walk past the array
  return seq_to<T>(&a[0], &a[0] + c, IsInt<T>{});
}
// A Val with more elements than the capacity stores `capacity` elements and sets the size member to the Val's
// count (used only to build the "size member exceeds capacity" objects of C01's stated exclusion).
inline bool& lb_oversize_flag() { static thread_local bool f = false; return f; }
template <typename Arr, typename Sz> void lb_from(const Val& v, Arr* a, Sz* n) {
  using T = typename ArrElem<Arr>::type; size_t total = seq_count<T>(v), c = total; if (c > ArrElem<Arr>::n) c = ArrElem<Arr>::n;
  for (size_t i = 0; i < c; i++) seq_get<T>(v, i, &(*a)[i], IsInt<T>{});
  *n = (Sz)total;
  if ((size_t)*n > ArrElem<Arr>::n) lb_oversize_flag() = true;
}

// ---- products
template <typename A, typename B> struct Reflect<std::pair<A, B>> {
  static Sch schema() { Sch s{K::TUPLE}; s.kids = {SchemaOf<A>(), SchemaOf<B>()}; return s; }
  static Val to(const std::pair<A, B>& x) { Val v; v.kids = {ToVal<A>(x.first), ToVal<B>(x.second)}; return v; }
  static void from(const Val& v, std::pair<A, B>* x) { FromVal<A>(v.kids[0], &x->first); FromVal<B>(v.kids[1], &x->second); }
};
template <typename... Ts> struct Reflect<std::tuple<Ts...>> {
  using T = std::tuple<Ts...>;
  static Sch schema() { Sch s{K::TUPLE}; s.kids = {SchemaOf<Ts>()...}; return s; }
  template <size_t... I> static Val to_i(const T& x, std::index_sequence<I...>) { Val v; v.kids = {ToVal<Ts>(std::get<I>(x))...}; return v; }
  template <size_t... I> static void from_i(const Val& v, T* x, std::index_sequence<I...>) { int d[] = {0, (FromVal<Ts>(v.kids[I], &std::get<I>(*x)), 0)...}; (void)d; (void)v; (void)x; }
  static Val to(const T& x) { return to_i(x, std::index_sequence_for<Ts...>{}); }
  static void from(const Val& v, T* x) { from_i(v, x, std::index_sequence_for<Ts...>{}); }
};
template <typename M, bool Ordered> struct ReflectMap {
  using KT = typename M::key_type; using VT = typename M::mapped_type;
  static Sch schema() { Sch s{K::MAP}; s.ordered = Ordered; s.kids = {SchemaOf<KT>(), SchemaOf<VT>()}; return s; }
  static Val to(const M& x) { Val v; for (auto& e : x) { v.kids.push_back(ToVal<KT>(e.first)); v.kids.push_back(ToVal<VT>(e.second)); } return v; }
  static void from(const Val& v, M* x) { x->clear(); for (size_t i = 0; i + 1 < v.kids.size(); i += 2) { KT k{}; VT val{}; FromVal<KT>(v.kids[i], &k); FromVal<VT>(v.kids[i + 1], &val); x->emplace(std::move(k), std::move(val)); } }
};
template <typename Kt, typename V, typename C, typename A> struct Reflect<std::map<Kt, V, C, A>> : ReflectMap<std::map<Kt, V, C, A>, true> {};
template <typename Kt, typename V, typename H, typename Eq, typename A> struct Reflect<std::unordered_map<Kt, V, H, Eq, A>> : ReflectMap<std::unordered_map<Kt, V, H, Eq, A>, false> {};

// ---- sums
template <typename T> struct Reflect<nop::Optional<T>> {
  static Sch schema() { Sch s{K::OPT}; s.kids = {SchemaOf<T>()}; return s; }
  static Val to(const nop::Optional<T>& x) { Val v; v.u = !x.empty(); if (v.u) v.kids.push_back(ToVal<T>(x.get())); return v; }
  // in-place engage: plain assignment of a T that is itself an Optional would select the converting assignment
  static void from(const Val& v, nop::Optional<T>* x) { if (!v.u) { x->clear(); return; } T t{}; FromVal<T>(v.kids[0], &t); *x = nop::Optional<T>{nop::InPlace{}, std::move(t)}; }
};
template <typename T, uint64_t Id> struct Reflect<nop::Entry<T, Id, nop::ActiveEntry>> {
  static Sch schema() { Sch s{K::OPT}; s.kids = {SchemaOf<T>()}; return s; }
  static Val to(const nop::Entry<T, Id, nop::ActiveEntry>& x) { Val v; v.u = !x.empty(); if (v.u) v.kids.push_back(ToVal<T>(x.get())); return v; }
  static void from(const Val& v, nop::Entry<T, Id, nop::ActiveEntry>* x) { if (!v.u) { x->clear(); return; } T t{}; FromVal<T>(v.kids[0], &t); *x = nop::Entry<T, Id, nop::ActiveEntry>{nop::InPlace{}, std::move(t)}; }
};
template <typename E, typename T> struct Reflect<nop::Result<E, T>> {
  static Sch schema() { Sch s{K::RES}; s.kids = {SchemaOf<E>(), SchemaOf<T>()}; return s; }
  static Val to(const nop::Result<E, T>& x) { Val v; if (x.has_value()) { v.u = 2; v.kids.push_back(ToVal<T>(x.get())); } else if (x.has_error()) { v.u = 1; v.kids.push_back(ToVal<E>(x.error())); } return v; }
  static void from(const Val& v, nop::Result<E, T>* x) { if (v.u == 2) { T t{}; FromVal<T>(v.kids[0], &t); *x = std::move(t); } else if (v.u == 1) { E e{}; FromVal<E>(v.kids[0], &e); *x = e; } else x->clear(); }
};
template <typename... Ts> struct Reflect<nop::Variant<Ts...>> {
  using V = nop::Variant<Ts...>;
  static Sch schema() { Sch s{K::VAR}; s.kids = {SchemaOf<Ts>()...}; return s; }
  struct ToV { Val operator()(nop::EmptyVariant) const { return Val(); } template <typename T> Val operator()(const T& e) const { Val v; v.kids.push_back(ToVal<T>(e)); return v; } };
  static Val to(const V& x) { Val v = x.Visit(ToV{}); v.u = (uint64_t)(x.index() + 1); return v; }
  struct FromV { const Val& v; void operator()(nop::EmptyVariant) const {} template <typename T> void operator()(T& e) const { FromVal<T>(v.kids[0], &e); } };
  static void from(const Val& v, V* x) { x->Become((int)v.u - 1); x->Visit(FromV{v}); }
};
// handles: value = the raw handle value (round trips through the writer's out-of-band channel)
template <typename P> struct Reflect<nop::Handle<P>> {
  static Sch schema() { Sch s{K::HND}; s.hash = P::HandleType(); s.bits = sizeof(decltype(P::HandleType())) * 8; return s; }
  static Val to(const nop::Handle<P>& x) { Val v; v.u = (uint64_t)(int64_t)x.get(); return v; }
  static void from(const Val& v, nop::Handle<P>* x) { *x = nop::Handle<P>{static_cast<typename P::Type>((int64_t)v.u)}; }
};

// ---- holder: storage for one object of type T (reference_wrapper needs a referent)
template <typename T> struct Holder { T obj{}; T& get() { return obj; } const T& get() const { return obj; } };
template <typename X> struct Holder<std::reference_wrapper<X>> {
  X target{}; std::reference_wrapper<X> obj{target};
  Holder() = default; Holder(const Holder&) = delete;
  std::reference_wrapper<X>& get() { return obj; } const std::reference_wrapper<X>& get() const { return obj; }
};
template <typename X> struct Reflect<std::reference_wrapper<X>> {
  static Sch schema() { return SchemaOf<X>(); }
  static Val to(const std::reference_wrapper<X>& x) { return ToVal<X>(x.get()); }
  static void from(const Val& v, std::reference_wrapper<X>* x) { FromVal<X>(v, &x->get()); }
};

}  // namespace vf
