#!/usr/bin/env python3
"""Driver for the libnop runtime-monitoring checks.

./check <ID> [--tier quick|thorough] [--seed N] [--workers N] [--replay FILE] [--keep]

exit 0: property held on everything explored (known findings are printed, not failed)
exit 1: violation not listed in KNOWN_FINDINGS.txt (prints VIOLATION property=<id> replay=<path>)
exit 2: harness failure / inconclusive (build error, worker crash outside a monitored case,
        watchdog, too few non-trivial cases observed)
"""
import concurrent.futures as cf
import glob
import hashlib
import json
import os
import re
import shutil
import subprocess
import sys
import time

VERIF = os.path.dirname(os.path.dirname(os.path.abspath(__file__)))
REPO = os.environ.get("VERIF_REPO", "/repo")
BUILD = os.path.join(VERIF, "build")
NCPU = min(16, os.cpu_count() or 4)

sys.path.insert(0, os.path.join(VERIF, "vlib"))
sys.path.insert(0, VERIF)

CLANG = "clang++"
GXX = "g++"

FLAVOURS = {
    # name: (compiler, flags per tier)
    "asan": (CLANG, {
        "quick": ["-O0"], "thorough": ["-O1"],
        "common": ["-std=c++14", "-gline-tables-only", "-fno-omit-frame-pointer",
                   "-fsanitize=address,undefined", "-fno-sanitize-recover=all",
                   "-fno-sanitize=nonnull-attribute", "-Wno-everything", "-ferror-limit=8"],
        "link": ["-fsanitize=address,undefined", "-lpthread"]}),
    "tsan": (GXX, {
        "quick": ["-O1"], "thorough": ["-O1"],
        "common": ["-std=c++14", "-g", "-fsanitize=thread", "-w", "-fmax-errors=8"],
        "link": ["-fsanitize=thread", "-lpthread"]}),
    "fuzz": (CLANG, {
        "quick": ["-O1"], "thorough": ["-O1"],
        "common": ["-std=c++14", "-gline-tables-only", "-fno-omit-frame-pointer", "-fsanitize=fuzzer,address,undefined", "-fno-sanitize-recover=all",
                   "-fno-sanitize=nonnull-attribute", "-Wno-everything", "-ferror-limit=8"],
        "link": ["-fsanitize=fuzzer,address,undefined", "-lpthread"]}),
    # second compiler for the stages that are cheap to repeat: overload resolution, list-initialization and constant evaluation differ between
    # g++ and clang++ in corners a property can depend on (e.g. T{x} for a type with an initializer_list<T> constructor)
    "gasan": (GXX, {
        "quick": ["-O0"], "thorough": ["-O1"],
        "common": ["-std=c++14", "-g1", "-fno-omit-frame-pointer", "-fsanitize=address,undefined", "-fno-sanitize-recover=all",
                   "-fno-sanitize=nonnull-attribute", "-w", "-fmax-errors=8"],
        "link": ["-fsanitize=address,undefined", "-lpthread"]}),
    "plain": (GXX, {
        "quick": ["-O2"], "thorough": ["-O2"],
        "common": ["-std=c++14", "-w", "-fmax-errors=8"],
        "link": ["-lpthread"]}),
}

SAN_ENV = {
    "ASAN_OPTIONS": "abort_on_error=1:detect_leaks=1:allocator_may_return_null=1:detect_stack_use_after_return=1:handle_abort=0:symbolize=1:malloc_context_size=12",
    "UBSAN_OPTIONS": "print_stacktrace=1:halt_on_error=1",
    "LSAN_OPTIONS": "exitcode=23",
    "ASAN_SYMBOLIZER_PATH": shutil.which("llvm-symbolizer") or shutil.which("llvm-symbolizer-14") or "",
}


def log(*a):
    print(*a, file=sys.stderr, flush=True)


def sha(*parts):
    h = hashlib.sha256()
    for p in parts:
        if isinstance(p, str):
            p = p.encode()
        h.update(p)
        h.update(b"\0")
    return h.hexdigest()


def tree_hash(root):
    h = hashlib.sha256()
    for d, dirs, files in sorted(os.walk(root)):
        dirs.sort()
        for f in sorted(files):
            p = os.path.join(d, f)
            h.update(os.path.relpath(p, root).encode())
            h.update(b"\0")
            with open(p, "rb") as fh:
                h.update(fh.read())
            h.update(b"\0")
    return h.hexdigest()


def files_hash(paths):
    h = hashlib.sha256()
    for p in sorted(paths):
        h.update(p.encode())
        with open(p, "rb") as fh:
            h.update(fh.read())
    return h.hexdigest()


class HarnessError(Exception):
    pass


class BuildViolation(Exception):
    """A harness translation unit that instantiates supported library shapes no longer compiles, and the first error is
    located inside /repo/include/nop: the library stopped supporting an instantiation the property quantifies over."""
    def __init__(self, key, text, src):
        Exception.__init__(self, key)
        self.key, self.text, self.src = key, text, src


def shared_headers(engine):
    hs = glob.glob(os.path.join(VERIF, "vlib", "*.h")) + glob.glob(os.path.join(VERIF, "ref", "*.h"))
    hs += glob.glob(os.path.join(VERIF, "engines", engine, "*.h"))
    return sorted(hs)


def compile_one(job):
    comp, flags, src, obj, logf = job
    if os.path.exists(obj):
        try:
            os.utime(obj)
        except OSError:
            pass
        return (src, 0, "", True)
    tmp = obj + ".tmp%d" % os.getpid()
    cmd = [comp] + flags + ["-c", src, "-o", tmp]
    t0 = time.time()
    p = subprocess.run(cmd, stdout=subprocess.PIPE, stderr=subprocess.STDOUT, text=True)
    if p.returncode == 0:
        os.replace(tmp, obj)
    else:
        try:
            os.remove(tmp)
        except OSError:
            pass
    out = p.stdout if len(p.stdout) < 16000 else p.stdout[:10000] + "\n...\n" + p.stdout[-5000:]
    return (src, p.returncode, out, False, time.time() - t0)


def _compiles_against_head(src, comp, flags):
    """syntax-check `src` against the include tree of /repo's HEAD commit (exported to a scratch directory)"""
    import tempfile
    tmp = tempfile.mkdtemp(prefix="vfhead", dir=BUILD)
    try:
        p = subprocess.run("git -C %s archive HEAD include | tar -x -C %s" % (REPO, tmp), shell=True, stdout=subprocess.PIPE, stderr=subprocess.STDOUT)
        if p.returncode != 0:
            return False
        f2 = [("-I" + os.path.join(tmp, "include")) if f == "-I" + os.path.join(REPO, "include") else f for f in flags]
        p = subprocess.run([comp] + f2 + ["-fsyntax-only", src], stdout=subprocess.PIPE, stderr=subprocess.STDOUT)
        return p.returncode == 0
    finally:
        shutil.rmtree(tmp, ignore_errors=True)


def prune_build(inc_key):
    """Keep objects/binaries of the 5 most recently used include-tree keys."""
    os.makedirs(BUILD, exist_ok=True)
    rf = os.path.join(BUILD, "recent.json")
    try:
        recent = json.load(open(rf))
    except Exception:
        recent = []
    recent = [k for k in recent if k != inc_key]
    recent.insert(0, inc_key)
    keep = set(recent[:5])
    recent = recent[:5]
    try:
        json.dump(recent, open(rf + ".tmp", "w"))
        os.replace(rf + ".tmp", rf)
    except OSError:
        pass
    for sub in ("obj", "bin"):
        d = os.path.join(BUILD, sub)
        if not os.path.isdir(d):
            continue
        now = time.time()
        for f in os.listdir(d):
            if f[:12] not in keep:
                try:
                    # files touched in the last two hours may belong to a check that is running right now against another include tree
                    # (recent.json is updated without a lock): leave them to a later prune
                    if now - os.path.getmtime(os.path.join(d, f)) > 7200:
                        os.remove(os.path.join(d, f))
                except OSError:
                    pass


def build_engine(engine, flavour, tier, sources, extra_flags=(), gen_includes=()):
    """Compile `sources` (absolute paths) against /repo/include as it is now; returns binary path."""
    comp, fl = FLAVOURS[flavour]
    flags = list(fl["common"]) + list(fl[tier]) + list(extra_flags)
    flags += ["-I" + os.path.join(REPO, "include"), "-I" + VERIF, "-I" + os.path.join(VERIF, "engines", engine)]
    for g in gen_includes:
        flags.append("-I" + g)
    inc_key = tree_hash(os.path.join(REPO, "include"))[:12]
    hdrs = shared_headers(engine)
    for g in gen_includes:
        hdrs += sorted(glob.glob(os.path.join(g, "*.h")) + glob.glob(os.path.join(g, "*.inc")))
    hkey = files_hash(hdrs)
    os.makedirs(os.path.join(BUILD, "obj"), exist_ok=True)
    os.makedirs(os.path.join(BUILD, "bin"), exist_ok=True)
    prune_build(inc_key)
    jobs, objs = [], []
    for s in sources:
        text = open(s, "rb").read()
        # per-source flags: a first line "// VF-FLAGS(<flavour>[,<flavour>]): <flags>" (e.g. translation units that instantiate the documented
        # flexible-array idiom of NOP_UNBOUNDED_BUFFER switch the array-bounds check off, see DESIGN.md 9.6)
        sflags = list(flags)
        m = re.match(rb"// VF-FLAGS\(([\w,]+)\): ([^\n]*)\n", text)
        if m and flavour in m.group(1).decode().split(","):
            sflags += m.group(2).decode().split()
        k = sha(inc_key, hkey, text, " ".join(sflags), comp)[:24]
        obj = os.path.join(BUILD, "obj", "%s-%s-%s.o" % (inc_key, os.path.basename(s).replace(".", "_"), k))
        objs.append(obj)
        jobs.append((comp, sflags, s, obj, None))
    bkey = sha(*objs, " ".join(fl["link"]))[:24]
    binary = os.path.join(BUILD, "bin", "%s-%s-%s-%s" % (inc_key, engine, flavour, bkey))
    if os.path.exists(binary):
        for f in objs + [binary]:          # mark as in use (see prune_build)
            try:
                os.utime(f)
            except OSError:
                pass
        return binary, {"compiled": 0, "cached": len(objs), "build_s": 0.0}
    t0 = time.time()
    ncomp = 0
    with cf.ThreadPoolExecutor(max_workers=NCPU) as ex:
        for r in ex.map(compile_one, jobs):
            if r[1] != 0:
                m = re.search(r"(/\S*/include/nop/\S+?):(\d+):\d+: (?:fatal )?error: (.*)", r[2])
                if m and not _compiles_against_head(r[0], comp, flags):
                    # the same translation unit does not compile against the committed (HEAD) headers either:
                    # the harness asks for a shape the library never supported -> harness failure, not a violation
                    raise HarnessError("compile failed (also against the HEAD headers): %s\n%s" % (r[0], r[2]))
                if m:
                    msg = re.sub(r"'[^']*'", "'..'", m.group(3))[:80]
                    raise BuildViolation("build-error@%s:%s" % (m.group(1).split("/include/nop/")[1], msg.strip().replace(" ", "_")), r[2], r[0])
                raise HarnessError("compile failed: %s\n%s" % (r[0], r[2]))
            if not r[3]:
                ncomp += 1
    tmp = binary + ".tmp%d" % os.getpid()
    p = subprocess.run([comp] + objs + ["-o", tmp] + fl["link"], stdout=subprocess.PIPE, stderr=subprocess.STDOUT, text=True)
    if p.returncode != 0:
        raise HarnessError("link failed:\n" + p.stdout[-4000:])
    os.replace(tmp, binary)
    return binary, {"compiled": ncomp, "cached": len(objs) - ncomp, "build_s": round(time.time() - t0, 1)}


# ------------------------------------------------------------------ sanitizer report parsing
def _fn_name(sig):
    """qualified function name of a symbolized frame: template arguments and parameter lists dropped, return type dropped"""
    out, depth = [], 0
    for ch in sig:
        if ch == "<":
            depth += 1
        elif ch == ">":
            depth = max(0, depth - 1)
        elif depth == 0:
            out.append(ch)
    flat = "".join(out)
    flat = flat.split("(")[0].strip()
    return flat.split(" ")[-1] if flat else "?"


def sanitizer_key(text):
    """Reduce a sanitizer report to a stable key: kind + first libnop frame."""
    kind = None
    m = re.search(r"ERROR: AddressSanitizer: ([\w-]+)", text)
    if m:
        kind = "asan:" + m.group(1)
    if not kind:
        m = re.search(r"ERROR: LeakSanitizer: detected memory leaks", text)
        if m:
            kind = "lsan:leak"
    if not kind:
        m = re.search(r"runtime error: (.*)", text)
        if m:
            msg = m.group(1)
            msg = re.sub(r"0x[0-9a-f]+", "ADDR", msg)
            msg = re.sub(r"-?\d+", "N", msg)
            kind = "ubsan:" + msg[:60].strip().replace(" ", "_")
    if not kind:
        m = re.search(r"WARNING: ThreadSanitizer: ([\w -]+?) \(", text)
        if m:
            kind = "tsan:" + m.group(1).replace(" ", "_")
    if not kind:
        return None
    frame = "?"
    for m in re.finditer(r"#\d+ (?:0x[0-9a-f]+ in )?(.+?) (/\S+?):(\d+)", text):
        fn, path = m.group(1), m.group(2)
        if "/include/nop/" in path:
            frame = _fn_name(fn) + "@" + path.split("/include/nop/")[1]
            break
    return kind + "@" + frame


# ------------------------------------------------------------------ known findings
def load_known():
    findings, fixed = [], []
    p = os.path.join(VERIF, "KNOWN_FINDINGS.txt")
    if os.path.exists(p):
        for line in open(p):
            line = line.strip()
            if not line or line.startswith("#"):
                continue
            m = re.match(r"finding:\s+property=(\S+)\s+key=(\S+)\s+(.*)", line)
            if m:
                findings.append({"property": m.group(1), "key": m.group(2), "text": m.group(3)})
                continue
            m = re.match(r"fixed:\s+property=(\S+)\s+(\S+)\s+(.*)", line)
            if m:
                fixed.append({"property": m.group(1), "commit": m.group(2), "text": m.group(3)})
    return findings, fixed


# ------------------------------------------------------------------ running workers
def run_worker(binary, argv, env, outdir, i, timeout):
    so = open(os.path.join(outdir, "worker-%d.stdout" % i), "w")
    se = open(os.path.join(outdir, "worker-%d.stderr" % i), "w")
    t0 = time.time()
    try:
        p = subprocess.run([binary] + argv, stdout=so, stderr=se, env=env, timeout=timeout, cwd=outdir)
        rc, timed_out = p.returncode, False
    except subprocess.TimeoutExpired:
        rc, timed_out = -9, True
    so.close()
    se.close()
    return i, rc, timed_out, time.time() - t0


def run_second_build_stage(cfg, prop, tier, seed, sources, gen_dirs, base, env, outdir, viols, counters, harness_problems):
    """Repeat part of the workload with the same sources built another way. cfg["second_build"] is one dict or a list of dicts
    {"flavour", "only_type", optional "flags" (extra compile flags), "prefix" (violation-key prefix, default gxx), "label", "counter_prefix"}."""
    sbs = cfg["second_build"]
    for sb in (sbs if isinstance(sbs, list) else [sbs]):
        _one_second_build(sb, cfg, prop, tier, seed, sources, gen_dirs, base, env, outdir, viols, counters, harness_problems)


def _one_second_build(sb, cfg, prop, tier, seed, sources, gen_dirs, base, env, outdir, viols, counters, harness_problems):
    pfx = sb.get("prefix", "gxx") + ":"
    label = sb.get("label", "built with g++")
    cpfx = sb.get("counter_prefix", "second_compiler_")
    try:
        binary, binfo = build_engine(cfg["engine"], sb["flavour"], tier, sources, list(cfg.get("flags", [])) + list(sb.get("flags", [])), gen_dirs)
    except BuildViolation as bv:
        e = viols.setdefault(pfx + bv.key, {"key": pfx + bv.key, "what": "%s (%s): %s" % (label, sb["flavour"], bv.key), "count": 0, "replay": ""})
        e["count"] += 1
        return
    except HarnessError as he:
        # e.g. an internal compiler error of the second compiler on a changed tree: this stage is inconclusive, what the primary build observed stands
        harness_problems.append("second-build stage (%s) could not be built (inconclusive): %s" % (label, str(he)[-1500:]))
        return
    sdir = os.path.join(outdir, "second-build-" + sb.get("prefix", "gxx"))
    os.makedirs(sdir, exist_ok=True)
    sargs = list(base) + ["--worker", "0/1"] + (["--only-type", sb["only_type"]] if sb.get("only_type") else [])
    sargs[sargs.index("--out") + 1] = sdir
    _, rc, to, dt = run_worker(binary, sargs, env, sdir, 0, cfg.get("second_build_timeout", 900))
    wj = os.path.join(sdir, "worker-0.json")
    if to:
        harness_problems.append("second-build stage (%s) hit its watchdog (inconclusive)" % label)
        return
    if os.path.exists(wj):
        w = json.load(open(wj))
        for k, v in w["counters"].items():
            counters[cpfx + k] = counters.get(cpfx + k, 0) + v
        for v in w["violations"]:
            key = pfx + v["key"]
            e = viols.setdefault(key, {"key": key, "what": label + ": " + v["what"], "count": 0, "replay": v["replay"]})
            e["count"] += v["count"]
    if rc not in (0, 1) or not os.path.exists(wj):
        stderr_txt = open(os.path.join(sdir, "worker-0.stderr"), errors="replace").read()
        skey = sanitizer_key(stderr_txt)
        cp = os.path.join(sdir, "worker-0.current")
        cur = open(cp, errors="replace").read().strip() if os.path.exists(cp) else ""
        if skey or cur:
            key = pfx + (skey or ("crash:rc%d" % rc))
            rp = os.path.join(outdir, "replay-%s-second-build-%s-crash.json" % (prop, sb.get("prefix", "gxx")))
            json.dump({"property": prop, "key": key, "what": "%s: aborted (rc=%d)" % (label, rc), "case": cur, "report": stderr_txt[-12000:]}, open(rp, "w"), indent=1)
            e = viols.setdefault(key, {"key": key, "what": "%s: abnormal exit rc=%d: %s" % (label, rc, skey or "crash"), "count": 0, "replay": rp})
            e["count"] += 1
        else:
            harness_problems.append("second-build stage (%s) exited rc=%d without a case in flight:\n%s" % (label, rc, stderr_txt[-2000:]))


def run_fuzz_stage(cfg, prop, tier, seed, gen_sources, gen_dirs, engine_binary, env, outdir, viols, counters, harness_problems, artifact=None):
    """libFuzzer stage (thorough tier of C02 / C04): coverage-guided inputs through the same monitored decode."""
    engine = cfg["engine"]
    fsrc = [s for s in gen_sources] + [os.path.join(VERIF, cfg["fuzz"])]
    fbin, finfo = build_engine(engine, "fuzz", tier, fsrc, list(cfg.get("flags", [])), gen_dirs)
    fdir = os.path.join(outdir, "fuzz")
    os.makedirs(os.path.join(fdir, "corpus"), exist_ok=True)
    fenv = dict(env)
    fenv["ASAN_OPTIONS"] = env["ASAN_OPTIONS"].replace("abort_on_error=1", "abort_on_error=1:quarantine_size_mb=8")

    def triage(path):
        p = subprocess.run([fbin, path], stdout=subprocess.PIPE, stderr=subprocess.STDOUT, text=True, env=fenv, cwd=fdir, timeout=300)
        m = re.search(r"VF-VIOLATION key=(\S+) (.*)", p.stdout)
        if m:
            return m.group(1), m.group(2)[:400], p.stdout
        k = sanitizer_key(p.stdout)
        if k:
            return k, "sanitizer report on a fuzzer-found input", p.stdout
        if p.returncode != 0:
            base = os.path.basename(path)
            return ("hang:fuzz" if "timeout" in base else "oom:fuzz" if "oom" in base else "crash:fuzz"), "abnormal exit on a fuzzer-found input", p.stdout
        return None, None, p.stdout

    if artifact:
        key, what, out = triage(artifact)
        return key, what, out
    p = subprocess.run([engine_binary, "--engine", engine, "--prop", prop, "--tier", tier, "--seed", str(seed), "--out", fdir, "--dump-corpus", os.path.join(fdir, "corpus")],
                       stdout=subprocess.PIPE, stderr=subprocess.STDOUT, text=True, env=env, cwd=fdir)
    nseeds = len(os.listdir(os.path.join(fdir, "corpus")))
    if nseeds == 0:
        harness_problems.append("fuzz stage: no seed corpus was produced: " + p.stdout[-500:])
        return
    with open(os.path.join(fdir, "dict"), "w") as f:
        for b in list(range(0x80, 0x8a)) + list(range(0xb5, 0xc0)) + [0x00, 0x01, 0x7f, 0xff, 0xc0]:
            f.write('"\\x%02x"\n' % b)
        for w in ["\\xff\\xff\\xff\\xff\\xff\\xff\\xff\\xff", "\\x83\\xff\\xff\\xff\\xff\\xff\\xff\\xff\\xff", "\\x82\\x00\\x00\\x01\\x00", "\\x81\\x00\\x01", "\\x87\\x00\\x00\\x00\\x00\\x00\\x00\\x00\\x80"]:
            f.write('"%s"\n' % w)
    runs = cfg.get("fuzz_runs", 250000)
    t0 = time.time()
    cmd = [fbin, "corpus", "-runs=%d" % runs, "-seed=%d" % (seed * 1000 + (2 if prop == "C02" else 4)), "-max_len=600", "-jobs=%d" % NCPU, "-workers=%d" % NCPU,
           "-artifact_prefix=%s/art-" % fdir, "-print_final_stats=1", "-timeout=25", "-rss_limit_mb=3000", "-dict=dict", "-use_value_profile=1"]
    try:
        subprocess.run(cmd, stdout=subprocess.PIPE, stderr=subprocess.STDOUT, text=True, env=fenv, cwd=fdir, timeout=cfg.get("fuzz_timeout", 3 * 3600))
    except subprocess.TimeoutExpired:
        harness_problems.append("fuzz stage exceeded its watchdog (inconclusive)")
    execs = 0
    for lf in glob.glob(os.path.join(fdir, "fuzz-*.log")):
        m = re.search(r"stat::number_of_executed_units:\s*(\d+)", open(lf, errors="replace").read())
        if m:
            execs += int(m.group(1))
    counters["fuzz_executions"] = execs
    counters["fuzz_seed_inputs"] = nseeds
    counters["fuzz_corpus_units_found"] = max(0, len(os.listdir(os.path.join(fdir, "corpus"))) - nseeds)
    counters["fuzz_wall_s"] = int(time.time() - t0)
    if execs == 0:
        harness_problems.append("fuzz stage executed nothing")
    arts = sorted(glob.glob(os.path.join(fdir, "art-*")))
    counters["fuzz_artifacts"] = len(arts)
    for a in arts[:40]:
        try:
            key, what, out = triage(a)
        except subprocess.TimeoutExpired:
            key, what, out = "hang:fuzz", "the fuzzer-found input does not terminate", ""
        if not key:
            continue       # not reproducible alone (e.g. a leak report tied to fuzzer state): ignored
        rp = os.path.join(outdir, "replay-%s-fuzz-%s.json" % (prop, hashlib.sha1(key.encode()).hexdigest()[:8]))
        keep_art = os.path.join(VERIF, "replays", "fuzz-input-%s-%s" % (prop, os.path.basename(a)[-16:]))
        os.makedirs(os.path.join(VERIF, "replays"), exist_ok=True)
        shutil.copy(a, keep_art)
        if key not in viols:
            json.dump({"property": prop, "key": key, "what": what, "case": {"engine": engine, "prop": prop, "tier": tier, "seed": seed, "artifact": keep_art}, "report": out[-8000:]}, open(rp, "w"), indent=1)
        e = viols.setdefault(key, {"key": key, "what": "libFuzzer-found input: %s" % what, "count": 0, "replay": rp})
        e["count"] += 1


def run_check(cfg, prop, tier, seed, workers, replay=None, keep=False):
    t_start = time.time()
    engine = cfg["engine"]
    flavour = cfg.get("flavour", "asan")
    if isinstance(flavour, dict):
        flavour = flavour[tier]
    gen_dirs = []
    sources = []
    gen_sources = []
    if "gen" in cfg:
        gdir, gsrcs = cfg["gen"](prop, tier, seed)
        gen_dirs.append(gdir)
        sources += gsrcs
        gen_sources = list(gsrcs)
    for pat in cfg["sources"]:
        sources += sorted(glob.glob(os.path.join(VERIF, pat)))
    if not sources:
        raise HarnessError("no sources for " + prop)
    extra = list(cfg.get("flags", []))
    binary, binfo = build_engine(engine, flavour, tier, sources, extra, gen_dirs)
    outdir = os.path.join(BUILD, "run", "%s-%s-%d-%d" % (prop, tier, seed, os.getpid()))
    shutil.rmtree(outdir, ignore_errors=True)
    os.makedirs(outdir)
    env = dict(os.environ)
    env.update(SAN_ENV)
    if flavour == "tsan":
        env["TSAN_OPTIONS"] = "halt_on_error=0:exitcode=0:second_deadlock_stack=1:history_size=4:log_path=%s" % os.path.join(outdir, "tsan")   # reports are counted from the log, not from the exit code
    env.update(cfg.get("env", {}))
    nw = 1 if replay else min(workers, cfg.get("max_workers", workers))
    base = ["--engine", engine, "--prop", prop, "--tier", tier, "--seed", str(seed), "--out", outdir]
    if replay and (json.load(open(replay)).get("case") or {}).get("artifact"):
        art = json.load(open(replay))["case"]["artifact"]
        key, what, out = run_fuzz_stage(cfg, prop, "thorough", seed, gen_sources, gen_dirs, binary, env, outdir, {}, {}, [], artifact=art)
        if key:
            print("VIOLATION property=%s replay=%s" % (prop, replay))
            print("  key=%s %s" % (key, what))
            return 1
        print("replay: the input no longer triggers anything")
        return 0
    if replay:
        rj = json.load(open(replay))
        c = rj.get("case") or {}
        if c.get("type"):
            base += ["--only-type", str(c["type"])]
        if c.get("case") is not None and int(c["case"]) >= 0:
            base += ["--only-case", str(c["case"])]
        if c.get("stage"):
            base += ["--only-stage", str(c["stage"])]
        if c.get("seed") is not None:
            base[base.index("--seed") + 1] = str(c["seed"])
        if c.get("tier"):
            base[base.index("--tier") + 1] = str(c["tier"])
    fuzz_only = bool(os.environ.get("VERIF_FUZZ_ONLY")) and cfg.get("fuzz") and tier == "thorough" and not replay
    if fuzz_only:      # sensitivity experiments on seeded changes: skip the enumerated workload, run only the libFuzzer stage (floors will report the run as inconclusive)
        base += ["--only-type", "__none__"]
        cfg = dict(cfg, fuzz_runs=int(os.environ.get("VERIF_FUZZ_RUNS", "30000")))
    timeout = cfg.get("timeout", {"quick": 1500, "thorough": 6 * 3600})[tier]
    results = {}
    with cf.ThreadPoolExecutor(max_workers=nw) as ex:
        futs = [ex.submit(run_worker, binary, base + ["--worker", "%d/%d" % (i, nw)], env, outdir, i, timeout) for i in range(nw)]
        for f in futs:
            i, rc, to, dt = f.result()
            results[i] = (rc, to, dt)
    # one retry for watchdog timeouts
    for i, (rc, to, dt) in list(results.items()):
        if to:
            log("worker %d hit the watchdog (%ds); re-running once" % (i, timeout))
            _, rc2, to2, dt2 = run_worker(binary, base + ["--worker", "%d/%d" % (i, nw)], env, outdir, i, timeout)
            results[i] = (rc2, to2, dt2)

    # ---------------- aggregate
    counters, infos, samples, viols = {}, {}, [], {}
    evaluations = 0
    enumerated = 0
    harness_problems = []
    max_counters = set(cfg.get("max_counters", []))
    for i in range(nw):
        rc, to, dt = results[i]
        wj = os.path.join(outdir, "worker-%d.json" % i)
        stderr_txt = open(os.path.join(outdir, "worker-%d.stderr" % i), errors="replace").read()
        if os.path.exists(wj):
            w = json.load(open(wj))
            evaluations += w["evaluations"]
            enumerated += w.get("enumerated_distinct", 0)
            for k, v in w["counters"].items():
                if k in max_counters or k.startswith("max_"):
                    counters[k] = max(counters.get(k, 0), v)
                else:
                    counters[k] = counters.get(k, 0) + v
            infos.update(w.get("infos", {}))
            samples += w["samples"]
            for v in w["violations"]:
                e = viols.setdefault(v["key"], {"key": v["key"], "what": v["what"], "count": 0, "replay": v["replay"]})
                e["count"] += v["count"]
        if to:
            harness_problems.append("worker %d: watchdog timeout twice (inconclusive)" % i)
            continue
        if rc in (0, 1) and os.path.exists(wj):
            continue
        if rc == 77:
            cp = os.path.join(outdir, "worker-%d.current" % i)
            cur = open(cp, errors="replace").read().strip() if os.path.exists(cp) else ""
            try:
                cj = json.loads(cur)
            except Exception:
                cj = None
            if cj is None:
                harness_problems.append("worker %d: per-case watchdog fired without a replayable case descriptor" % i)
                continue
            key = "hang:" + str(cj.get("stage", "")).split("#")[0].split("/")[0] + ":" + re.sub(r"[<{=].*", "", str(cj.get("type", "")))
            if key in viols:      # this class of hang was already confirmed by re-running another worker's case alone
                viols[key]["count"] += 1
                continue
            rargs = list(base) + ["--worker", "0/1", "--only-type", str(cj.get("type", "")), "--only-case", str(cj.get("case", -1))]
            if cj.get("stage"):
                rargs += ["--only-stage", str(cj["stage"])]
            rdir = os.path.join(outdir, "hangcheck-%d" % i)
            os.makedirs(rdir, exist_ok=True)
            rargs[rargs.index("--out") + 1] = rdir
            _, rc2, to2, _ = run_worker(binary, rargs, env, rdir, 0, cfg.get("hang_recheck_s", 400))
            if rc2 == 77 or to2:
                rp = os.path.join(outdir, "replay-%s-hang-w%d.json" % (prop, i))
                json.dump({"property": prop, "key": key, "what": "the case did not terminate (per-case watchdog fired, and fired again when the case was re-run alone)", "case": cj}, open(rp, "w"), indent=1)
                e = viols.setdefault(key, {"key": key, "what": "non-termination: %s" % json.dumps(cj)[:300], "count": 0, "replay": rp})
                e["count"] += 1
            else:
                harness_problems.append("worker %d: watchdog fired once but the case terminated when re-run alone (inconclusive, machine load?)" % i)
            continue
        # abnormal exit: sanitizer abort or crash
        cur = ""
        cp = os.path.join(outdir, "worker-%d.current" % i)
        if os.path.exists(cp):
            cur = open(cp, errors="replace").read().strip()
        skey = sanitizer_key(stderr_txt)
        if cur or skey:
            key = skey or ("crash:rc%d" % rc)
            rp = os.path.join(outdir, "replay-%s-crash-w%d.json" % (prop, i))
            try:
                cj = json.loads(cur) if cur else None
            except Exception:
                cj = {"raw": cur}
            json.dump({"property": prop, "key": key, "what": "worker aborted (rc=%d) while running the case; sanitizer/crash report follows" % rc,
                       "case": cj, "report": stderr_txt[-12000:]}, open(rp, "w"), indent=1)
            e = viols.setdefault(key, {"key": key, "what": "abnormal exit rc=%d: %s" % (rc, (skey or "crash")), "count": 0, "replay": rp})
            e["count"] += 1
        else:
            harness_problems.append("worker %d exited rc=%d without a case in flight:\n%s" % (i, rc, stderr_txt[-3000:]))
    if cfg.get("second_build") and not replay and not fuzz_only:
        run_second_build_stage(cfg, prop, tier, seed, sources, gen_dirs, base, env, outdir, viols, counters, harness_problems)
    if cfg.get("fuzz") and tier == "thorough" and not replay and not viols:
        run_fuzz_stage(cfg, prop, tier, seed, gen_sources, gen_dirs, binary, env, outdir, viols, counters, harness_problems)
    # TSan logs
    tsan_reports = 0
    for lf in glob.glob(os.path.join(outdir, "tsan.*")):
        txt = open(lf, errors="replace").read()
        for block in txt.split("=================="):
            if "WARNING: ThreadSanitizer" not in block:
                continue
            tsan_reports += 1
            if "/include/nop/" not in block:
                # a race whose stacks never enter libnop is a defect of the harness, not of the property
                harness_problems.append("ThreadSanitizer report without any libnop frame (harness race):\n" + block[:1500])
                continue
            key = sanitizer_key(block) or "tsan:unknown"
            # stack signature without line numbers
            sig = re.sub(r":\d+", "", " ".join(_fn_name(m.group(1)) for m in re.finditer(r"#\d+ (?:0x[0-9a-f]+ in )?(.+?) /\S+?:\d+", block)))[:400]
            key = key + "#" + hashlib.sha1(sig.encode()).hexdigest()[:8] if key.endswith("@?") else key
            rp = os.path.join(outdir, "replay-%s-tsan-%s.json" % (prop, hashlib.sha1(key.encode()).hexdigest()[:8]))
            if key not in viols:
                json.dump({"property": prop, "key": key, "what": "ThreadSanitizer report", "case": {"engine": engine, "prop": prop, "tier": tier, "seed": seed}, "report": block[-8000:]}, open(rp, "w"), indent=1)
            e = viols.setdefault(key, {"key": key, "what": "ThreadSanitizer report", "count": 0, "replay": rp})
            e["count"] += 1
    if flavour == "tsan":
        counters["tsan_reports"] = tsan_reports

    hash_files = sorted(glob.glob(os.path.join(outdir, "worker-*.hashes")))
    distinct = 0
    if hash_files:
        p = subprocess.run([binary, "--merge-hashes"] + hash_files, stdout=subprocess.PIPE, text=True, env=env)
        try:
            distinct = int(p.stdout.strip())
        except ValueError:
            harness_problems.append("hash merge failed")
    hashed_distinct = distinct
    distinct += enumerated

    # ---------------- known findings
    findings, fixed = load_known()
    known_lines, new_viols = [], []
    os.makedirs(os.path.join(VERIF, "replays"), exist_ok=True)
    for key, v in sorted(viols.items()):
        match = [f for f in findings if f["property"] == prop and f["key"] == key]
        if match:
            known_lines.append("KNOWN-FINDING: property=%s %s (key=%s, %d occurrence(s) this run)" % (prop, match[0]["text"], key, v["count"]))
        else:
            dst = os.path.join(VERIF, "replays", os.path.basename(v["replay"]))
            try:
                shutil.copy(v["replay"], dst)
            except OSError:
                dst = v["replay"]
            v["replay"] = dst
            new_viols.append(v)

    wall = round(time.time() - t_start, 1)
    if replay:
        for l in known_lines:
            print(l)
        for v in new_viols:
            print("VIOLATION property=%s replay=%s" % (prop, v["replay"]))
            print("  key=%s %s" % (v["key"], v["what"]))
        if not keep:
            shutil.rmtree(outdir, ignore_errors=True)
        if harness_problems:
            log("\n".join(harness_problems))
            return 2
        print("replay: %d evaluation(s), %d violation(s)" % (evaluations, len(new_viols)))
        return 1 if new_viols else 0

    # ---------------- evidence
    seen_s, uniq = set(), []
    for smp in samples:
        k = json.dumps(smp, sort_keys=True)
        if k not in seen_s:
            seen_s.add(k)
            uniq.append(smp)
    samples = uniq[: cfg.get("max_samples", 16)]
    cov = {
        "evaluations": evaluations,
        "distinct_nontrivial": distinct,
        "rule": cfg["rule"],
        "samples": samples,
        "distinct_by_hash_set": hashed_distinct,
        "distinct_by_enumeration": enumerated,
        "workers": nw,
        "build": binfo,
        "flavour": flavour,
        "counters": counters,
        "known_findings_seen": [l for l in known_lines],
        "violation_keys": sorted(v["key"] for v in new_viols),
    }
    if infos:
        cov["observed"] = infos
    if cfg.get("exhaustive_counter") and counters.get(cfg["exhaustive_counter"]):
        cov["exhaustive"] = True
    if "programs_counter" in cfg:
        cov["programs"] = counters.get(cfg["programs_counter"], 0)
    ev = {
        "property_id": prop, "tier": tier, "seed": seed, "level": cfg["level"],
        "coverage": cov,
        "assumptions": cfg.get("assumptions", []),
        "wall_s": wall,
        "violations": len(new_viols),
    }
    floor = cfg.get("floor", {}).get(tier, 2)
    inconclusive = list(harness_problems)
    if distinct < floor and not new_viols:
        inconclusive.append("only %d distinct non-trivial cases observed (floor %d)" % (distinct, floor))
    for need in cfg.get("require_counters", []):
        if not counters.get(need):
            if not new_viols:
                inconclusive.append("monitor counter %r is zero: the monitored events were never observed" % need)
    evdir = os.environ.get("VERIF_EVIDENCE_DIR") or os.path.join(VERIF, "evidence")   # seeded-change runs redirect their evidence
    os.makedirs(evdir, exist_ok=True)
    evp = os.path.join(evdir, prop + ".json")
    if inconclusive:
        ev["coverage"]["inconclusive"] = inconclusive
    with open(evp + ".tmp", "w") as f:
        json.dump(ev, f, indent=1)
    os.replace(evp + ".tmp", evp)

    for l in known_lines:
        print(l)
    rc = 0
    if new_viols:
        for v in new_viols:
            print("VIOLATION property=%s replay=%s" % (prop, v["replay"]))
            print("  key=%s count=%d %s" % (v["key"], v["count"], v["what"][:300]))
        rc = 1
    elif inconclusive:
        log("INCONCLUSIVE %s: %s" % (prop, "; ".join(inconclusive)))
        rc = 2
    print("%s %s seed=%d: %d evaluations, %d distinct non-trivial, %d new violation key(s), %d known; build %s; %.1fs" % (
        prop, tier, seed, evaluations, distinct, len(new_viols), len(known_lines), binfo, wall))
    if not keep and rc != 2:
        shutil.rmtree(outdir, ignore_errors=True)
    elif rc == 2:
        log("run directory kept: " + outdir)
    return rc


def main(argv):
    import checks
    if len(argv) < 2 or argv[1] in ("-h", "--help"):
        print(__doc__)
        print("checks:", " ".join(sorted(checks.CHECKS)))
        return 2
    prop = argv[1]
    tier = os.environ.get("VERIF_TIER", "quick")
    seed = int(os.environ.get("VERIF_SEED", "1") or 1)
    workers = NCPU
    replay = None
    keep = False
    i = 2
    while i < len(argv):
        a = argv[i]
        if a == "--tier":
            tier = argv[i + 1]; i += 2
        elif a == "--seed":
            seed = int(argv[i + 1]); i += 2
        elif a == "--workers":
            workers = int(argv[i + 1]); i += 2
        elif a == "--replay":
            replay = argv[i + 1]; i += 2
        elif a == "--keep":
            keep = True; i += 1
        else:
            print("unknown argument", a); return 2
    if tier not in ("quick", "thorough"):
        print("bad tier"); return 2
    if prop not in checks.CHECKS:
        print("unknown check", prop); return 2
    try:
        return run_check(checks.CHECKS[prop], prop, tier, seed, workers, replay, keep)
    except BuildViolation as e:
        findings, _ = load_known()
        os.makedirs(os.path.join(VERIF, "replays"), exist_ok=True)
        rp = os.path.join(VERIF, "replays", "replay-%s-build-error.json" % prop)
        json.dump({"property": prop, "key": e.key, "what": "a harness translation unit instantiating supported library shapes does not compile against /repo/include; first error inside libnop", "case": {"source": e.src}, "report": e.text[-6000:]}, open(rp, "w"), indent=1)
        if any(f["property"] == prop and f["key"] == e.key for f in findings):
            print("KNOWN-FINDING: property=%s %s" % (prop, e.key))
            return 2
        print("VIOLATION property=%s replay=%s" % (prop, rp))
        print("  key=%s the library no longer compiles for a shape this property quantifies over (%s)" % (e.key, os.path.basename(e.src)))
        return 1
    except HarnessError as e:
        log("HARNESS FAILURE: %s" % e)
        return 2
    except Exception:                    # anything unexpected in the driver itself is a harness failure (exit 2), never a verdict
        import traceback
        log("HARNESS FAILURE: unexpected exception in the driver\n" + traceback.format_exc())
        return 2


if __name__ == "__main__":
    sys.exit(main(sys.argv))
