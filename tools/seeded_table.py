#!/usr/bin/env python3
"""Markdown table rows (change | needs | caught by | first key) for seeded ids with the given suffixes, from seeded/*/meta.json.
usage: seeded_table.py m5 m6 [...]"""
import json, os, re, sys
V = os.path.dirname(os.path.dirname(os.path.abspath(__file__)))
suf = sys.argv[1:]
rows = []
for d in sorted(os.listdir(os.path.join(V, "seeded"))):
    m = re.match(r"(C\d\d)_(m\d+)$", d)
    if not m or m.group(2) not in suf:
        continue
    meta = json.load(open(os.path.join(V, "seeded", d, "meta.json")))
    caught, key = [], ""
    for ck, res in sorted(meta.get("checks", {}).items()):
        if res.get("exit") == 1 and ck.endswith("/quick"):
            caught.append(ck.split("/")[0])
            if not key or ck.startswith(meta["breaks_property"]):
                k = (res.get("keys") or [""])[0]
                mm = re.match(r"key=(\S+)", k)
                key = mm.group(1) if mm else key
    own = meta["breaks_property"]
    caught = sorted(set(caught), key=lambda c: (c != own, c))
    rows.append("| %s | %s | %s | `%s` |" % (d, meta["needs_to_manifest"].replace("|", "/"), ", ".join(caught) or "**not caught**", key[:110]))
print("\n".join(rows))
