#!/usr/bin/env python3
"""Prepare round-N sub-agent tasks: mktasks.py <prev_round_dir> <new_round_dir> <suffixes of the newest seeded ids, e.g. m11 m12>
Takes the previous round's TASK.md per property (property text + avoid list), re-bases the paths, appends the newest seeded changes to the
avoid list and swaps in the steering paragraph in tools/steer.txt (if present). Creates a scratch worktree of /repo per property."""
import json, os, re, subprocess, sys
prev, new = sys.argv[1], sys.argv[2]; sufs = sys.argv[3:]
V = os.path.dirname(os.path.dirname(os.path.abspath(__file__)))
steer = open(os.path.join(V, "tools", "steer.txt")).read().strip() if os.path.exists(os.path.join(V, "tools", "steer.txt")) else None
for k in range(1, 21):
    P = "C%02d" % k
    wt = os.path.join(new, P)
    if not os.path.isdir(wt):
        subprocess.check_call(["git", "-C", "/repo", "worktree", "add", "--detach", "-f", wt, "HEAD"], stdout=subprocess.DEVNULL, stderr=subprocess.DEVNULL)
    t = open(os.path.join(prev, P, "TASK.md")).read().replace(prev, new)
    extra = []
    for sfx in sufs:
        mp = os.path.join(V, "seeded", "%s_%s" % (P, sfx), "meta.json")
        if os.path.exists(mp):
            m = json.load(open(mp)); title = m.get("title") or m.get("change") or ""
            need = m.get("needs_to_manifest") or ""
            extra.append("  - %s%s" % (title.strip(), (": " + need.strip()) if need and need.strip() != title.strip() else ""))
    i = t.index("\nDeliverables")
    t = t[:i].rstrip("\n") + "\n" + "\n".join(extra) + "\n" + t[i:]
    if steer:
        a = t.index("* A long list of mechanisms has been used already"); b = t.index("* The two changes must use different mechanisms")
        t = t[:a] + steer + "\n" + t[b:]
    open(os.path.join(wt, "TASK.md"), "w").write(t)
    print(P, len(extra), "added")
