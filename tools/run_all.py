#!/usr/bin/env python3
"""Run every registered check once (default quick) on /repo as it is; print one line per check. usage: run_all.py [quick|thorough] [seed] [property ...]   (properties in the given order; default: all, in MANIFEST order)"""
import json, os, subprocess, sys, time
V = os.path.dirname(os.path.dirname(os.path.abspath(__file__)))
tier = sys.argv[1] if len(sys.argv) > 1 else "quick"; seed = sys.argv[2] if len(sys.argv) > 2 else "1"
m = json.load(open(os.path.join(V, "MANIFEST.json")))
bad = 0
order = sys.argv[3:] or [c["property_id"] for c in m["checks"]]
for p in order:
    t0 = time.time()
    env = dict(os.environ); env["VERIF_SEED"] = seed
    r = subprocess.run([os.path.join(V, "check"), p, "--tier", tier], stdout=subprocess.PIPE, stderr=subprocess.STDOUT, text=True, cwd=V, env=env)
    last = [l for l in r.stdout.splitlines() if l.startswith(p + " ")]
    viol = [l for l in r.stdout.splitlines() if l.startswith("VIOLATION") or l.startswith("INCONCLUSIVE") or "HARNESS FAILURE" in l]
    print("%s exit=%d %5.1fs %s" % (p, r.returncode, time.time() - t0, last[-1] if last else r.stdout[-300:]), flush=True)
    for v in viol[:5]:
        print("    " + v[:300])
    bad += r.returncode != 0
sys.exit(1 if bad else 0)
