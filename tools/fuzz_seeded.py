#!/usr/bin/env python3
"""Sensitivity experiment for the libFuzzer stage alone: apply a kept seeded change in a scratch worktree and run only the
fuzz stage of C02/C04 thorough (VERIF_FUZZ_ONLY) against it. usage: fuzz_seeded.py <seeded id> <C02|C04> [runs per job]"""
import os, shutil, subprocess, sys
V = os.path.dirname(os.path.dirname(os.path.abspath(__file__)))
sid, prop = sys.argv[1], sys.argv[2]; runs = sys.argv[3] if len(sys.argv) > 3 else "30000"
tree = "/tmp/fuzzseed_%d" % os.getpid()
def sh(c): return subprocess.run(c, shell=True, stdout=subprocess.PIPE, stderr=subprocess.STDOUT, text=True)
r = sh("git -C /repo worktree add --detach %s HEAD" % tree); assert r.returncode == 0, r.stdout
try:
    r = sh("git -C %s apply %s/seeded/%s/patch.diff" % (tree, V, sid)); assert r.returncode == 0, r.stdout
    env = dict(os.environ, VERIF_REPO=tree, VERIF_FUZZ_ONLY="1", VERIF_FUZZ_RUNS=runs, VERIF_EVIDENCE_DIR=os.path.join(V, "build", "seeded-evidence"))
    r = subprocess.run([os.path.join(V, "check"), prop, "--tier", "thorough"], stdout=subprocess.PIPE, stderr=subprocess.STDOUT, text=True, cwd=V, env=env)
    print("\n".join(l for l in r.stdout.splitlines() if "key=" in l or l.startswith("VIOLATION") or "fuzz" in l or "thorough seed" in l)[:3000])
    print("exit", r.returncode)
finally:
    sh("git -C /repo worktree remove --force %s" % tree); shutil.rmtree(tree, ignore_errors=True)
