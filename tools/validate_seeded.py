#!/usr/bin/env python3
"""Confirm a candidate breaking change before keeping it under /verif/seeded/<id>/:
   applies patch.diff in a scratch worktree of /repo (outside /repo and /verif), builds and runs the unit tests,
   builds demo.cpp against the patched and the clean tree and runs both.
usage: validate_seeded.py <candidate dir> <seeded id> <property id>"""
import json, os, shutil, subprocess, sys, time
cand, sid, prop = sys.argv[1], sys.argv[2], sys.argv[3]
wt = "/tmp/seedwt_%d" % os.getpid()
def sh(cmd, **kw):
    return subprocess.run(cmd, shell=True, stdout=subprocess.PIPE, stderr=subprocess.STDOUT, text=True, **kw)
res = {"property": prop, "id": sid, "validated_at": time.strftime("%Y-%m-%d %H:%M:%S")}
try:
    r = sh("git -C /repo worktree add --detach %s HEAD" % wt); assert r.returncode == 0, r.stdout
    res["base_commit"] = sh("git -C /repo rev-parse --short HEAD").stdout.strip()
    # demo on the clean tree
    r = sh("g++ -std=c++14 -O1 -I%s/include %s/demo.cpp -o %s/demo_clean -lpthread" % (wt, cand, wt)); res["demo_clean_build"] = r.returncode
    r2 = sh("%s/demo_clean" % wt, timeout=120) if r.returncode == 0 else None
    res["demo_clean_exit"] = r2.returncode if r2 else None; res["demo_clean_out"] = (r2.stdout[-400:] if r2 else r.stdout[-800:])
    r = sh("git -C %s apply %s/patch.diff" % (wt, cand)); res["patch_applies"] = r.returncode == 0
    assert r.returncode == 0, r.stdout
    r = sh("cd %s && make -j16 out/test 2>&1 | tail -5 && ./out/test 2>&1 | tail -3" % wt, timeout=900)
    res["tests_pass"] = "[  PASSED  ] 315 tests." in r.stdout; res["tests_tail"] = r.stdout[-300:]
    r = sh("g++ -std=c++14 -O1 -I%s/include %s/demo.cpp -o %s/demo_mod -lpthread" % (wt, cand, wt)); res["demo_mod_build"] = r.returncode
    try:
        r2 = sh("%s/demo_mod" % wt, timeout=120) if r.returncode == 0 else None
        res["demo_mod_exit"] = r2.returncode if r2 else None; res["demo_mod_out"] = (r2.stdout[-400:] if r2 else r.stdout[-800:])
    except subprocess.TimeoutExpired:
        res["demo_mod_exit"] = "timeout"; res["demo_mod_out"] = "demo did not terminate within 120 s"
    ok = res["tests_pass"] and res["demo_clean_exit"] == 0 and res["demo_mod_exit"] not in (0, None)
    res["confirmed"] = bool(ok)
finally:
    sh("git -C /repo worktree remove --force %s" % wt); shutil.rmtree(wt, ignore_errors=True)
print(json.dumps(res, indent=1))
if res.get("confirmed"):
    dst = "/verif/seeded/%s" % sid
    os.makedirs(dst, exist_ok=True)
    for f in ("patch.diff", "demo.cpp", "notes.md"):
        if os.path.exists(os.path.join(cand, f)):
            shutil.copy(os.path.join(cand, f), dst)
    title = "see notes.md"
    try:
        import re
        first = [x.strip() for x in open(os.path.join(cand, "notes.md")).read().splitlines() if x.strip()][0]
        title = re.sub(r"^#\s*((cand_[ab]|Candidate [AB])\s*[-:]\s*)?", "", first)
    except Exception:
        pass
    meta = {"id": sid, "breaks_property": prop, "origin": "independent sub-agent given only the property text and a scratch worktree",
            "needs_to_manifest": title, "confirmation": res, "checks": {}}
    mp = os.path.join(dst, "meta.json")
    if os.path.exists(mp):
        old = json.load(open(mp)); meta["checks"] = old.get("checks", {}); meta["needs_to_manifest"] = old.get("needs_to_manifest", meta["needs_to_manifest"])
    json.dump(meta, open(mp, "w"), indent=1)
sys.exit(0 if res.get("confirmed") else 1)
