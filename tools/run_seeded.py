#!/usr/bin/env python3
"""Run checks against a kept seeded change: apply seeded/<id>/patch.diff to /repo, run ./check <P> for each property given
(default: the property it breaks), undo the patch straight afterwards, record what each check reported in meta.json.
usage: run_seeded.py <seeded id> [<property> ...] [--tier quick|thorough]"""
import json, os, subprocess, sys, time
V = os.path.dirname(os.path.dirname(os.path.abspath(__file__)))
args = sys.argv[1:]; tier = "quick"
if "--tier" in args:
    i = args.index("--tier"); tier = args[i + 1]; del args[i:i + 2]
sid = args[0]; d = os.path.join(V, "seeded", sid); meta = json.load(open(os.path.join(d, "meta.json")))
props = args[1:] or [meta["breaks_property"]]
assert subprocess.run("git -C /repo status --porcelain --untracked-files=no", shell=True, stdout=subprocess.PIPE, text=True).stdout.strip() == "", "/repo not clean"
r = subprocess.run("git -C /repo apply %s/patch.diff" % d, shell=True); assert r.returncode == 0
try:
    for p in props:
        t0 = time.time()
        env = dict(os.environ); env["VERIF_EVIDENCE_DIR"] = os.path.join(V, "build", "seeded-evidence")   # never overwrite the unchanged-tree evidence
        r = subprocess.run([os.path.join(V, "check"), p, "--tier", tier], stdout=subprocess.PIPE, stderr=subprocess.STDOUT, text=True, cwd=V, env=env)
        keys = [l.strip() for l in r.stdout.splitlines() if l.strip().startswith("key=")]
        viol = [l for l in r.stdout.splitlines() if l.startswith("VIOLATION")]
        meta.setdefault("checks", {})["%s/%s" % (p, tier)] = {"exit": r.returncode, "violations": len(viol), "keys": [k[:300] for k in keys[:6]], "wall_s": round(time.time() - t0, 1),
                                                              "ran_at": time.strftime("%Y-%m-%d %H:%M:%S")}
        print("%s %s on seeded %s: exit %d, %d violation line(s) %s" % (p, tier, sid, r.returncode, len(viol), keys[:2]))
finally:
    subprocess.run("git -C /repo checkout -- .", shell=True)
json.dump(meta, open(os.path.join(d, "meta.json"), "w"), indent=1)
