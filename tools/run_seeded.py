#!/usr/bin/env python3
"""Run checks against a kept seeded change. By default the patch is applied in a scratch worktree of /repo (outside /repo and
/verif, removed afterwards) and the checks are pointed at it with VERIF_REPO, so that /repo itself is never disturbed and several
seeded runs can proceed side by side; --in-repo applies it to /repo itself (git -C /repo apply; git -C /repo checkout -- . afterwards).
Evidence of these runs goes to build/seeded-evidence, never to evidence/.
usage: run_seeded.py <seeded id> [<property> ...] [--tier quick|thorough] [--in-repo]"""
import json, os, shutil, subprocess, sys, time
V = os.path.dirname(os.path.dirname(os.path.abspath(__file__)))
args = sys.argv[1:]; tier = "quick"; in_repo = False
if "--tier" in args:
    i = args.index("--tier"); tier = args[i + 1]; del args[i:i + 2]
if "--in-repo" in args:
    in_repo = True; args.remove("--in-repo")
sid = args[0]; d = os.path.join(V, "seeded", sid); meta = json.load(open(os.path.join(d, "meta.json")))
props = args[1:] or [meta["breaks_property"]]
def sh(c):
    return subprocess.run(c, shell=True, stdout=subprocess.PIPE, stderr=subprocess.STDOUT, text=True)
if in_repo:
    assert sh("git -C /repo status --porcelain --untracked-files=no").stdout.strip() == "", "/repo not clean"
    tree = "/repo"
else:
    tree = "/tmp/seedrepo_%d" % os.getpid()
    r = sh("git -C /repo worktree add --detach %s HEAD" % tree); assert r.returncode == 0, r.stdout
r = sh("git -C %s apply %s/patch.diff" % (tree, d))
if r.returncode != 0:      # /repo's HEAD has moved since the patch was taken (later fix: commits): fall back to a three-way merge on the blobs the patch names
    r = sh("git -C %s apply -3 %s/patch.diff" % (tree, d))
assert r.returncode == 0, r.stdout
try:
    for p in props:
        t0 = time.time()
        env = dict(os.environ); env["VERIF_EVIDENCE_DIR"] = os.path.join(V, "build", "seeded-evidence"); env["VERIF_REPO"] = tree
        r = subprocess.run([os.path.join(V, "check"), p, "--tier", tier], stdout=subprocess.PIPE, stderr=subprocess.STDOUT, text=True, cwd=V, env=env)
        keys = [l.strip() for l in r.stdout.splitlines() if l.strip().startswith("key=")]
        viol = [l for l in r.stdout.splitlines() if l.startswith("VIOLATION")]
        meta.setdefault("checks", {})["%s/%s" % (p, tier)] = {"exit": r.returncode, "violations": len(viol), "keys": [k[:300] for k in keys[:6]], "wall_s": round(time.time() - t0, 1),
                                                              "ran_at": time.strftime("%Y-%m-%d %H:%M:%S")}
        print("%s %s on seeded %s: exit %d, %d violation line(s) %s" % (p, tier, sid, r.returncode, len(viol), keys[:2]), flush=True)
finally:
    if in_repo:
        sh("git -C /repo checkout -- .")
    else:
        sh("git -C /repo worktree remove --force %s" % tree); shutil.rmtree(tree, ignore_errors=True)
json.dump(meta, open(os.path.join(d, "meta.json"), "w"), indent=1)
