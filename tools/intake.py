#!/usr/bin/env python3
"""Intake of sub-agent candidates: validate (tools/validate_seeded.py) and, when confirmed, run the target property's quick check against it
(tools/run_seeded.py). usage: intake.py <round dir e.g. /tmp/r3> <property> [<property> ...]   (candidates cand_a -> <P>_m5, cand_b -> <P>_m6 by default)"""
import json, os, subprocess, sys
V = os.path.dirname(os.path.dirname(os.path.abspath(__file__)))
root = sys.argv[1]; base = int(os.environ.get("INTAKE_BASE", "5"))
for prop in sys.argv[2:]:
    for j, cand in enumerate(["cand_a", "cand_b"]):
        d = os.path.join(root, prop, cand); sid = "%s_m%d" % (prop, base + j)
        if not os.path.exists(os.path.join(d, "patch.diff")):
            print(sid, "no candidate"); continue
        r = subprocess.run([sys.executable, os.path.join(V, "tools", "validate_seeded.py"), d, sid, prop], stdout=subprocess.PIPE, stderr=subprocess.STDOUT, text=True)
        try:
            res = json.loads(r.stdout[r.stdout.index("{"):])
        except Exception:
            res = {}
        if r.returncode != 0:
            print(sid, "NOT CONFIRMED", {k: res.get(k) for k in ("patch_applies", "tests_pass", "demo_clean_exit", "demo_mod_exit")}, flush=True); continue
        r2 = subprocess.run([sys.executable, os.path.join(V, "tools", "run_seeded.py"), sid], stdout=subprocess.PIPE, stderr=subprocess.STDOUT, text=True)
        print(sid, "confirmed;", r2.stdout.strip().splitlines()[-1][:400] if r2.stdout.strip() else "no output", flush=True)
