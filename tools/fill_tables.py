#!/usr/bin/env python3
"""Replace the @@TABLEn@@ placeholders of DESIGN.md 9.5 with tables generated from seeded/*/meta.json (tools/seeded_table.py)."""
import os, re, subprocess, sys
V = os.path.dirname(os.path.dirname(os.path.abspath(__file__)))
p = os.path.join(V, "DESIGN.md"); s = open(p).read()
for n, sufs in {3: ["m5", "m6"], 4: ["m7", "m8"], 5: ["m9", "m10"], 6: ["m11", "m12"], 7: ["m13", "m14"]}.items():
    tag = "@@TABLE%d@@" % n
    if tag not in s:
        continue
    rows = subprocess.run([sys.executable, os.path.join(V, "tools", "seeded_table.py")] + sufs, stdout=subprocess.PIPE, text=True).stdout.strip()
    rows = "\n".join(l for l in rows.splitlines() if l.startswith("|"))
    s = s.replace(tag, "| change | what it needs to manifest | caught by (quick) | first violation key |\n|---|---|---|---|\n" + rows)
open(p, "w").write(s)
