#!/usr/bin/env python3
"""Run every kept seeded change (and the reintroduced defects R_D*) against the quick check of the property it breaks; print one line each and a summary.
usage: run_all_seeded.py [id-prefix ...]"""
import json, os, subprocess, sys
V = os.path.dirname(os.path.dirname(os.path.abspath(__file__)))
pref = sys.argv[1:]
ids = sorted(d for d in os.listdir(os.path.join(V, "seeded")) if os.path.exists(os.path.join(V, "seeded", d, "meta.json")))
if pref:
    ids = [i for i in ids if any(i.startswith(p) for p in pref)]
missed = []
for sid in ids:
    r = subprocess.run([sys.executable, os.path.join(V, "tools", "run_seeded.py"), sid], stdout=subprocess.PIPE, stderr=subprocess.STDOUT, text=True)
    line = [l for l in r.stdout.splitlines() if " on seeded " in l]
    out = line[-1][:260] if line else ("ERROR " + r.stdout[-300:].replace("\n", " | "))
    print(sid, "|", out, flush=True)
    if not line or "exit 1" not in line[-1]:
        missed.append(sid)
print("SUMMARY: %d seeded changes, %d not caught: %s" % (len(ids), len(missed), " ".join(missed)), flush=True)
