#!/usr/bin/env python3
"""Run every kept seeded change (and the reintroduced defects R_D*) against the quick check of the property it breaks; print one line each and a summary.
usage: run_all_seeded.py [id-prefix ...]"""
import json, os, subprocess, sys
V = os.path.dirname(os.path.dirname(os.path.abspath(__file__)))
pref = sys.argv[1:]
ids = sorted(d for d in os.listdir(os.path.join(V, "seeded")) if os.path.exists(os.path.join(V, "seeded", d, "meta.json")))
if pref:
    ids = [i for i in ids if any(i.startswith(p) for p in pref)]
if os.environ.get("SEEDED_SKIP_FILE"):        # ids already done (one per line)
    done = set(open(os.environ["SEEDED_SKIP_FILE"]).read().split()); ids = [i for i in ids if i not in done]
if os.environ.get("SEEDED_SUFFIXES"):         # e.g. "m1 m2 m3": only these rounds
    suf = set(os.environ["SEEDED_SUFFIXES"].split()); ids = [i for i in ids if i.split("_", 1)[1] in suf]
# ids of one property run one after the other (they share that property's run directory); properties are spread over LANES parallel lanes by estimated cost
import concurrent.futures as cf, threading
LANES = int(os.environ.get("SEEDED_LANES", "4"))
COST = {"C12": 5.0, "C13": 5.0, "C01": 2.5, "C02": 2.0, "C04": 2.0, "C09": 2.0}
byprop = {}
for sid in ids:
    try:
        prop = json.load(open(os.path.join(V, "seeded", sid, "meta.json")))["breaks_property"]
    except Exception:
        prop = sid[:3]
    byprop.setdefault(prop, []).append(sid)
lanes = [[] for _ in range(LANES)]; load = [0.0] * LANES
for prop, lst in sorted(byprop.items(), key=lambda kv: -COST.get(kv[0], 1.0) * len(kv[1])):
    k = load.index(min(load)); lanes[k] += lst; load[k] += COST.get(prop, 1.0) * len(lst)
missed = []; lock = threading.Lock()


def run_lane(lst):
    for sid in lst:
        r = subprocess.run([sys.executable, os.path.join(V, "tools", "run_seeded.py"), sid], stdout=subprocess.PIPE, stderr=subprocess.STDOUT, text=True)
        line = [l for l in r.stdout.splitlines() if " on seeded " in l]
        out = line[-1][:260] if line else ("ERROR " + r.stdout[-300:].replace("\n", " | "))
        with lock:
            print(sid, "|", out, flush=True)
            if not line or "exit 1" not in line[-1]:
                missed.append(sid)


with cf.ThreadPoolExecutor(max_workers=LANES) as ex:
    list(ex.map(run_lane, lanes))
print("SUMMARY: %d seeded changes, %d not caught: %s" % (len(ids), len(missed), " ".join(sorted(missed))), flush=True)
