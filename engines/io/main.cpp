// Engine `io`: C16 (BoundedReader / BoundedWriter confinement) and C17 (one byte-source / byte-sink contract).
// Oracles are small executable models run in lock-step with the shipped readers/writers; call sequences are
// enumerated exhaustively up to a bounded length over a relative-size alphabet and sampled randomly beyond.
#define VF_RT_MAIN
#include <functional>
#include "vlib/ops.h"
#include "vlib/sigstorm.h"

using namespace vf;
namespace vf { std::vector<TypeOps>& registry() { static std::vector<TypeOps> r; return r; } }

// ---------------------------------------------------------------- op descriptions
// size classes are relative to the state in which the op executes, so that "exactly the remaining budget" and
// "one more" are reached on every path
enum SzClass { Z0, Z1, ZREM_M1, ZREM, ZREM_P1, Z2_32, Z2_63, ZMAX_K, ZSMALL, Z_NCLASS };
static const char* kSzName[] = {"0", "1", "rem-1", "rem", "rem+1", "2^32", "2^63", "2^64-1-k", "small"};
enum OpKind { OP_ENSURE, OP_READ1, OP_BLOCK, OP_SKIP, OP_PADDING };      // writers: Prepare, Write1, WriteBlock, Skip, WritePadding
static const char* kRName[] = {"Ensure", "Read", "ReadBlock", "Skip", "ReadPadding"};
static const char* kWName[] = {"Prepare", "Write", "WriteBlock", "Skip", "WritePadding"};
struct IoOp { uint8_t kind, sz, w, val; };   // w: element width for blocks; val: byte / padding value seed
static uint64_t resolve(uint8_t sz, uint64_t rem, uint64_t k) {
  switch (sz) { case Z0: return 0; case Z1: return 1; case ZREM_M1: return rem ? rem - 1 : 0; case ZREM: return rem; case ZREM_P1: return rem + 1; case Z2_32: return 1ull << 32; case Z2_63: return 1ull << 63; case ZMAX_K: return ~0ull - (k % 17); default: return 2 + k % 5; }
}
static std::string op_str(const IoOp& o, bool writer) { return fmt("%s(%s%s)", (writer ? kWName : kRName)[o.kind], o.kind == OP_BLOCK ? fmt("w=%d x ", o.w).c_str() : "", (o.kind == OP_READ1 || o.kind == OP_PADDING) ? "" : kSzName[o.sz]); }
static std::string seq_str(const std::vector<IoOp>& s, bool writer) { std::string o = "["; for (size_t i = 0; i < s.size(); i++) { if (i) o += ","; o += "\"" + op_str(s[i], writer) + "\""; } return o + "]"; }

template <typename T> struct HasSkip : std::true_type {};
template <> struct HasSkip<nop::FdReader> : std::false_type {};
template <> struct HasSkip<nop::BoundedReader<nop::FdReader>> : std::false_type {};
template <> struct HasSkip<nop::FdWriter> : std::false_type {};
template <> struct HasSkip<nop::BoundedWriter<nop::FdWriter>> : std::false_type {};
struct Res { bool ok = true; nop::ErrorStatus err = nop::ErrorStatus::None; Bytes bytes; };
static Res from(const nop::Status<void>& s) { Res r; r.ok = (bool)s; if (!s) r.err = s.error(); return r; }

// ---------------------------------------------------------------- generic application of an op to a reader
template <typename R> static Res apply_read(R& r, int kind, uint64_t n, int w) {
  Res out;
  switch (kind) {
    case OP_ENSURE: return from(r.Ensure((size_t)n));
    case OP_READ1: { uint8_t b = 0xEE; auto s = r.Read(&b); out = from(s); if (s) out.bytes.push_back(b); return out; }
    case OP_BLOCK: {   // n = element count
      size_t bytes = (size_t)n * (size_t)w; ExactBuf dst(bytes);     // exact-size destination: a write past the block is an ASan report
      nop::Status<void> s;
      if (w == 1) s = r.Read(dst.p, dst.p + n); else if (w == 2) s = r.Read(reinterpret_cast<uint16_t*>(dst.p), reinterpret_cast<uint16_t*>(dst.p) + n);
      else if (w == 4) s = r.Read(reinterpret_cast<uint32_t*>(dst.p), reinterpret_cast<uint32_t*>(dst.p) + n); else s = r.Read(reinterpret_cast<uint64_t*>(dst.p), reinterpret_cast<uint64_t*>(dst.p) + n);
      out = from(s); if (s) out.bytes.assign(dst.p, dst.p + bytes); return out;
    }
    default: return out;
  }
}
template <typename R> static Res apply_skip_impl(R& r, uint64_t n, std::true_type) { return from(r.Skip((size_t)n)); }
template <typename R> static Res apply_skip_impl(R&, uint64_t, std::false_type) { return Res(); }
template <typename R> static Res apply_skip(R& r, uint64_t n) { return apply_skip_impl(r, n, HasSkip<R>{}); }

// ================================================================= C16: BoundedReader
// Model of a (possibly failing) inner reader = a twin LogReader with the same data and fault plan: "calls within the
// limit behave exactly like the wrapped reader". BoundedModel adds the budget rule.
struct RCfg { size_t limit, inner_len; int64_t fail_at; nop::ErrorStatus err; size_t limit2; };   // limit2: SIZE_MAX = no nesting
static void c16_reader_seq(const RCfg& cfg, const std::vector<IoOp>& seq, const std::string& cd_type, int64_t case_idx, const std::string& stage) {
  Bytes data(cfg.inner_len); for (size_t i = 0; i < data.size(); i++) data[i] = (uint8_t)(i * 37 + 11);
  ExactBuf buf(data), tbuf(data);
  LogReader inner(buf.p, data.size()), twin(tbuf.p, data.size());
  inner.fault.fail_at = twin.fault.fail_at = cfg.fail_at; inner.fault.error = twin.fault.error = cfg.err;
  nop::BoundedReader<LogReader> b1(&inner, cfg.limit);
  nop::BoundedReader<nop::BoundedReader<LogReader>> b2(&b1, cfg.limit2 == SIZE_MAX ? 0 : cfg.limit2);
  const bool nested = cfg.limit2 != SIZE_MAX;
  uint64_t used1 = 0, used2 = 0;   // model budgets
  auto viol = [&](const std::string& key, const std::string& what, size_t upto) {
    std::vector<IoOp> s(seq.begin(), seq.begin() + upto + 1);
    rep().violation("C16:reader:" + key, fmt("%s; limit %zu%s, wrapped reader holds %zu bytes%s; calls %s", what.c_str(), cfg.limit, nested ? fmt(" (outer limit %zu)", cfg.limit2).c_str() : "", cfg.inner_len,
                                            cfg.fail_at >= 0 ? fmt(", its call #%" PRId64 " fails with '%s'", cfg.fail_at, errname(cfg.err)).c_str() : "", seq_str(s, false).c_str()),
                    case_desc(cd_type, case_idx, stage, J().raw("ops", seq_str(s, false)).u("limit", cfg.limit).u("inner_len", cfg.inner_len).i("fail_at", cfg.fail_at).str()));
  };
  for (size_t i = 0; i < seq.size(); i++) {
    const IoOp& o = seq[i];
    uint64_t rem1 = cfg.limit - used1, rem2 = nested ? cfg.limit2 - used2 : 0;
    uint64_t rem = nested ? std::min(rem1, rem2) : rem1;
    uint64_t n = o.kind == OP_READ1 ? 1 : resolve(o.sz, o.kind == OP_BLOCK ? rem / o.w : rem, i + o.val);
    if (o.kind == OP_BLOCK && n > 64) n = rem / o.w + 1 + (n % 3);          // block counts stay small (the destination is allocated)
    uint64_t nbytes = o.kind == OP_BLOCK ? n * o.w : n;
    // ---- model
    bool within1, within2 = true; Res exp; bool forwarded = false;
    if (o.kind == OP_PADDING) {
      // ReadPadding of the outermost wrapper skips its remaining budget in the wrapped reader
      uint64_t k = nested ? rem2 : rem1;
      if (nested) { within1 = k <= rem1; if (within1) { exp = apply_skip(twin, k); forwarded = true; if (exp.ok) { used1 += k; used2 += k; } } else { exp.ok = false; exp.err = nop::ErrorStatus::ReadLimitReached; } }
      else { exp = apply_skip(twin, k); forwarded = true; if (exp.ok) used1 += k; }
    } else {
      uint64_t need = o.kind == OP_ENSURE ? n : nbytes;
      if (nested) within2 = (o.kind == OP_READ1) ? used2 < cfg.limit2 : need <= rem2;
      within1 = (o.kind == OP_READ1) ? used1 < cfg.limit : need <= rem1;
      if (!within2 || !within1) { exp.ok = false; exp.err = nop::ErrorStatus::ReadLimitReached; }
      else {
        forwarded = true;
        exp = o.kind == OP_SKIP ? apply_skip(twin, n) : apply_read(twin, o.kind, n, o.w);
        if (exp.ok && o.kind != OP_ENSURE) { used1 += nbytes; if (nested) used2 += nbytes; }
      }
    }
    // ---- implementation
    size_t calls_before = inner.calls.size(), pos_before = inner.pos;
    Res got;
    if (nested) got = o.kind == OP_PADDING ? from(b2.ReadPadding()) : o.kind == OP_SKIP ? apply_skip(b2, n) : apply_read(b2, o.kind, n, o.w);
    else got = o.kind == OP_PADDING ? from(b1.ReadPadding()) : o.kind == OP_SKIP ? apply_skip(b1, n) : apply_read(b1, o.kind, n, o.w);
    rep().count("c16_reader_calls"); if (!forwarded) rep().count("c16_reader_calls_crossing_the_limit"); if (n >= (1ull << 32)) rep().count("c16_reader_calls_with_huge_sizes");
    // ---- compare
    if (!forwarded && inner.calls.size() != calls_before) { viol("crossing-call-touched-wrapped-reader:" + std::string(kRName[o.kind]), fmt("%s of %" PRIu64 " bytes crosses the limit (budget left %" PRIu64 ") but reached the wrapped reader", kRName[o.kind], o.kind == OP_ENSURE ? n : nbytes, rem), i); return; }
    if (got.ok != exp.ok || (!got.ok && got.err != exp.err)) { viol(fmt("status:%s:%s", kRName[o.kind], forwarded ? "within-limit" : "crossing"), fmt("%s(%" PRIu64 ") returned '%s', expected '%s'", kRName[o.kind], n, got.ok ? "ok" : errname(got.err), exp.ok ? "ok" : errname(exp.err)), i); return; }
    if (got.ok && got.bytes != exp.bytes) { viol(fmt("bytes:%s", kRName[o.kind]), "delivered bytes differ from what the wrapped reader delivers directly", i); return; }
    if (inner.pos != twin.pos) { viol(fmt("wrapped-position:%s", kRName[o.kind]), fmt("wrapped reader at %zu, a direct call would leave it at %zu", inner.pos, twin.pos), i); return; }
    if (inner.pos > cfg.limit) { viol("consumed-beyond-limit", fmt("%zu bytes consumed from the wrapped reader, limit %zu", inner.pos, cfg.limit), i); return; }
    if (b1.size() != used1 || (nested && b2.size() != used2)) { viol(fmt("budget-accounting:%s:%s", kRName[o.kind], got.ok ? "ok" : "failed"), fmt("size() = %zu after %s %s, model says %" PRIu64 " (counted only when the call succeeds)", nested ? b2.size() : b1.size(), kRName[o.kind], got.ok ? "succeeded" : "failed", nested ? used2 : used1), i); return; }
    if (b1.empty() != (used1 == cfg.limit) || b1.capacity() != cfg.limit) { viol("empty-capacity", "empty()/capacity() disagree with the budget", i); return; }
    if (o.kind == OP_PADDING && got.ok && !nested && inner.pos - 0 != cfg.limit && pos_before <= cfg.limit) { viol("padding-position", fmt("after ReadPadding the wrapped reader is at %zu, the limit is %zu", inner.pos, cfg.limit), i); return; }
    if (!got.ok && forwarded && cfg.fail_at < 0 && o.kind != OP_ENSURE) break;   // the wrapped reader ran dry: its later behaviour is its own business
  }
}

// ================================================================= C16: BoundedWriter
template <typename W> static Res wskip_impl(W& w, uint64_t n, uint8_t val, std::true_type) { return from(w.Skip((size_t)n, val)); }
template <typename W> static Res wskip_impl(W&, uint64_t, uint8_t, std::false_type) { return Res(); }
template <typename W> static Res apply_write(W& w, int kind, uint64_t n, int width, uint8_t val) {
  switch (kind) {
    case OP_ENSURE: return from(w.Prepare((size_t)n));
    case OP_READ1: return from(w.Write((uint8_t)val));
    case OP_BLOCK: {
      size_t bytes = (size_t)n * (size_t)width; ExactBuf src(bytes); for (size_t i = 0; i < bytes; i++) src.p[i] = (uint8_t)(val + i * 13);
      if (width == 1) return from(w.Write(src.p, src.p + n)); if (width == 2) return from(w.Write(reinterpret_cast<const uint16_t*>(src.p), reinterpret_cast<const uint16_t*>(src.p) + n));
      if (width == 4) return from(w.Write(reinterpret_cast<const uint32_t*>(src.p), reinterpret_cast<const uint32_t*>(src.p) + n)); return from(w.Write(reinterpret_cast<const uint64_t*>(src.p), reinterpret_cast<const uint64_t*>(src.p) + n));
    }
    case OP_SKIP: return wskip_impl(w, n, val, HasSkip<W>{});
    default: return Res();
  }
}
struct WCfg { size_t limit, inner_cap; int64_t fail_at; nop::ErrorStatus err; };
struct Done { int kind; uint64_t n; int w; uint8_t val; Res exp; };
template <typename W, typename GetBytes>
static void c16_replay(const char* wname_, W& shipped, GetBytes get, const WCfg& cfg, const std::vector<Done>& done, const LogWriter& twin, const std::vector<IoOp>& seq, const std::string& cd_type, int64_t case_idx, const std::string& stage) {
  nop::BoundedWriter<W> b(&shipped, cfg.limit);
  for (size_t i = 0; i < done.size(); i++) { const Done& d = done[i];
    Res got = d.kind == OP_PADDING ? from(b.WritePadding(d.val)) : apply_write(b, d.kind, d.n, d.w, d.val);
    rep().count("c16_writer_calls_on_shipped_writers");
    if (got.ok != d.exp.ok || (!got.ok && got.err != d.exp.err)) { std::vector<IoOp> sq(seq.begin(), seq.begin() + i + 1);
      rep().violation(fmt("C16:writer:shipped:status:%s:%s", wname_, kWName[d.kind]), fmt("BoundedWriter<%s>: %s(%" PRIu64 ") returned '%s', the budget model says '%s'; limit %zu; calls %s", wname_, kWName[d.kind], d.n, got.ok ? "ok" : errname(got.err), d.exp.ok ? "ok" : errname(d.exp.err), cfg.limit, seq_str(sq, true).c_str()),
                      case_desc(cd_type, case_idx, stage, J().raw("ops", seq_str(sq, true)).u("limit", cfg.limit).s("writer", wname_).str())); return; } }
  Bytes b2 = get();
  if (b2 != twin.data) rep().violation(fmt("C16:writer:shipped:bytes:%s", wname_), fmt("BoundedWriter<%s> put %s on the medium, the same calls made directly give %s (padding value / block contents); limit %zu; calls %s", wname_, hex(b2, 32).c_str(), hex(twin.data, 32).c_str(), cfg.limit, seq_str(seq, true).c_str()),
                      case_desc(cd_type, case_idx, stage, J().raw("ops", seq_str(seq, true)).u("limit", cfg.limit).s("writer", wname_).str()));
}
static void c16_writer_seq(const WCfg& cfg, const std::vector<IoOp>& seq, const std::string& cd_type, int64_t case_idx, const std::string& stage) {
  LogWriter inner, twin; inner.capacity = twin.capacity = cfg.inner_cap;
  inner.fault.fail_at = twin.fault.fail_at = cfg.fail_at; inner.fault.error = twin.fault.error = cfg.err;
  nop::BoundedWriter<LogWriter> bw(&inner, cfg.limit);
  uint64_t used = 0;
  std::vector<Done> done;   // the resolved calls, replayed afterwards on BoundedWriter over the shipped writers
  auto viol = [&](const std::string& key, const std::string& what, size_t upto) {
    std::vector<IoOp> s(seq.begin(), seq.begin() + upto + 1);
    rep().violation("C16:writer:" + key, fmt("%s; limit %zu, wrapped writer capacity %zu%s; calls %s", what.c_str(), cfg.limit, cfg.inner_cap, cfg.fail_at >= 0 ? fmt(", its call #%" PRId64 " fails with '%s'", cfg.fail_at, errname(cfg.err)).c_str() : "", seq_str(s, true).c_str()),
                    case_desc(cd_type, case_idx, stage, J().raw("ops", seq_str(s, true)).u("limit", cfg.limit).u("inner_cap", cfg.inner_cap).i("fail_at", cfg.fail_at).str()));
  };
  for (size_t i = 0; i < seq.size(); i++) {
    const IoOp& o = seq[i];
    uint64_t rem = cfg.limit - used;
    uint64_t n = o.kind == OP_READ1 ? 1 : resolve(o.sz, o.kind == OP_BLOCK ? rem / o.w : rem, i + o.val);
    if (o.kind == OP_BLOCK && n > 64) n = rem / o.w + 1 + (n % 3);
    if ((o.kind == OP_SKIP) && n > (1u << 20) && n <= rem) n = rem;
    uint64_t nbytes = o.kind == OP_BLOCK ? n * o.w : n;
    uint8_t val = (uint8_t)(o.val * 29 + 3);
    Res exp; bool forwarded = false;
    if (o.kind == OP_PADDING) { if (rem > (1u << 20)) return; exp = apply_write(twin, OP_SKIP, rem, 1, val); forwarded = true; if (exp.ok) used += rem; }
    else {
      bool within = (o.kind == OP_READ1) ? used < cfg.limit : (o.kind == OP_ENSURE ? n : nbytes) <= rem;
      if (!within) { exp.ok = false; exp.err = nop::ErrorStatus::WriteLimitReached; }
      else { forwarded = true; exp = apply_write(twin, o.kind, n, o.w, val); if (exp.ok && o.kind != OP_ENSURE) used += nbytes; }
    }
    size_t calls_before = inner.calls.size();
    Res got = o.kind == OP_PADDING ? from(bw.WritePadding(val)) : apply_write(bw, o.kind, n, o.w, val);
    done.push_back(Done{o.kind, n, o.w, val, exp});
    rep().count("c16_writer_calls"); if (!forwarded) rep().count("c16_writer_calls_crossing_the_limit"); if (n >= (1ull << 32)) rep().count("c16_writer_calls_with_huge_sizes");
    if (!forwarded && inner.calls.size() != calls_before) { viol("crossing-call-touched-wrapped-writer:" + std::string(kWName[o.kind]), fmt("%s of %" PRIu64 " bytes crosses the limit (budget left %" PRIu64 ") but reached the wrapped writer", kWName[o.kind], o.kind == OP_ENSURE ? n : nbytes, rem), i); return; }
    if (got.ok != exp.ok || (!got.ok && got.err != exp.err)) { viol(fmt("status:%s:%s", kWName[o.kind], forwarded ? "within-limit" : "crossing"), fmt("%s(%" PRIu64 ") returned '%s', expected '%s'", kWName[o.kind], n, got.ok ? "ok" : errname(got.err), exp.ok ? "ok" : errname(exp.err)), i); return; }
    if (inner.data != twin.data) { viol(fmt("bytes:%s", kWName[o.kind]), "bytes reaching the wrapped writer differ from a direct call (padding value / block contents)", i); return; }
    if (inner.data.size() > cfg.limit) { viol("written-beyond-limit", fmt("%zu bytes reached the wrapped writer, limit %zu", inner.data.size(), cfg.limit), i); return; }
    if (bw.size() != used || bw.capacity() != cfg.limit) { viol(fmt("budget-accounting:%s:%s", kWName[o.kind], got.ok ? "ok" : "failed"), fmt("size() = %zu, model says %" PRIu64, bw.size(), used), i); return; }
    if (o.kind == OP_PADDING && got.ok && inner.data.size() != cfg.limit) { viol("padding-position", fmt("after WritePadding the wrapped writer holds %zu bytes, the limit is %zu", inner.data.size(), cfg.limit), i); return; }
    if (!got.ok && forwarded && cfg.fail_at < 0 && o.kind != OP_ENSURE) break;
  }
  // replay on the shipped writers (only where the wrapped writer never refuses on its own: its capacity covers the limit, no injected fault)
  if (cfg.fail_at < 0 && cfg.inner_cap >= cfg.limit && cfg.limit <= 4096 && (case_idx % 4 == 0 || args().replay())) {
    { nop::StreamWriter<std::stringstream> sw; c16_replay("StreamWriter", sw, [&]() { std::string o = sw.stream().str(); return Bytes(o.begin(), o.end()); }, cfg, done, twin, seq, cd_type, case_idx, stage); }
    { ExactBuf eb(cfg.limit); nop::PedanticBufferWriter pw(eb.p, cfg.limit); c16_replay("PedanticBufferWriter", pw, [&]() { return eb.vec(pw.size()); }, cfg, done, twin, seq, cd_type, case_idx, stage); }
    { ExactBuf eb(cfg.limit); nop::BufferWriter w2(eb.p, cfg.limit); c16_replay("BufferWriter", w2, [&]() { return eb.vec(w2.size()); }, cfg, done, twin, seq, cd_type, case_idx, stage); }
  }
}

// ---------------------------------------------------------------- alphabets and enumeration
static std::vector<IoOp> alphabet(bool with_padding, bool with_ensure = true, bool with_skip = true, bool huge = true) {
  std::vector<IoOp> al;
  for (int sz = 0; sz < Z_NCLASS; sz++) { if (!huge && (sz == Z2_32 || sz == Z2_63 || sz == ZMAX_K)) continue; if (with_ensure) al.push_back({OP_ENSURE, (uint8_t)sz, 1, (uint8_t)sz}); if (with_skip) al.push_back({OP_SKIP, (uint8_t)sz, 1, (uint8_t)(sz + 1)}); }
  al.push_back({OP_READ1, Z1, 1, 5});
  for (int w : {1, 2, 4, 8}) for (int sz : {Z0, Z1, ZREM, ZREM_P1, ZSMALL}) al.push_back({OP_BLOCK, (uint8_t)sz, (uint8_t)w, (uint8_t)(w + sz)});
  if (with_padding) al.push_back({OP_PADDING, Z0, 1, 9});
  return al;
}
template <typename F> static void enumerate(const char* type, const std::string& stage_prefix, const std::vector<IoOp>& al, int maxlen, uint64_t cfg_id, uint64_t ncfg, F&& run) {
  const Args& a = args(); size_t A = al.size();
  for (int L = 1; L <= maxlen; L++) {
    uint64_t total = 1; for (int i = 0; i < L; i++) total *= A;
    std::string stage = fmt("%s/exh%d/cfg%" PRIu64, stage_prefix.c_str(), L, cfg_id);
    if (!a.only_stage.empty() && a.only_stage != stage) continue;
    for (uint64_t n = 0; n < total; n++) {
      if (a.only_case >= 0) { if ((uint64_t)a.only_case != n) continue; } else if (!mine(n * ncfg + cfg_id)) continue;
      std::vector<IoOp> seq; uint64_t k = n; for (int i = 0; i < L; i++) { seq.push_back(al[k % A]); k /= A; }
      set_current("%s", case_desc(type, (int64_t)n, stage).c_str());
      run(seq, (int64_t)n, stage);
      rep().note_enumerated(L >= 2);
    }
  }
}
template <typename F> static void randomized(const char* type, const std::string& stage_prefix, const std::vector<IoOp>& al, uint64_t count, int minlen, int maxlen, uint64_t cfg_id, uint64_t ncfg, F&& run) {
  const Args& a = args(); std::string stage = fmt("%s/rnd/cfg%" PRIu64, stage_prefix.c_str(), cfg_id);
  if (!a.only_stage.empty() && a.only_stage != stage) return;
  for (uint64_t n = 0; n < count; n++) {
    if (a.only_case >= 0) { if ((uint64_t)a.only_case != n) continue; } else if (!mine(n * ncfg + cfg_id)) continue;
    Rng r = case_rng(type, n, 77 + cfg_id);
    int len = minlen + (int)r.below((uint64_t)(maxlen - minlen + 1)); std::vector<IoOp> seq; uint64_t h = cfg_id;
    for (int i = 0; i < len; i++) { IoOp o = al[r.below(al.size())]; o.val = (uint8_t)r.next(); seq.push_back(o); h = hash_combine(h, (uint64_t)o.kind * 4099 + o.sz * 131 + o.w * 7 + o.val); }
    set_current("%s", case_desc(type, (int64_t)n, stage).c_str());
    run(seq, (int64_t)n, stage);
    rep().note(hash_combine(hash_str(type), h), true);
  }
}

static void run_c16() {
  bool th = args().thorough();
  // ---- reader configurations: limits x inner length (longer / shorter than the limit) x inner fault plans x nesting
  std::vector<RCfg> rc;
  for (size_t L : {0, 1, 2, 7, 8, 9, 64}) {
    rc.push_back({L, L + 3, -1, nop::ErrorStatus::None, SIZE_MAX});
    rc.push_back({L, L > 2 ? L - 2 : 0, -1, nop::ErrorStatus::None, SIZE_MAX});                       // wrapped reader runs dry before the limit
    for (int64_t j : {0, 1, 2}) rc.push_back({L, L + 3, j, j == 1 ? nop::ErrorStatus::IOError : j == 2 ? nop::ErrorStatus::ProtocolError : nop::ErrorStatus::StreamError, SIZE_MAX});
    rc.push_back({L, L + 3, -1, nop::ErrorStatus::None, L / 2});                                      // nested, outer tighter
    rc.push_back({L, L + 3, -1, nop::ErrorStatus::None, L + 2});                                      // nested, inner tighter
  }
  auto ral = alphabet(true);
  rep().infos["c16_reader_alphabet"] = std::to_string(ral.size()); rep().infos["c16_reader_configs"] = std::to_string(rc.size());
  for (size_t ci = 0; ci < rc.size(); ci++) {
    auto run = [&](const std::vector<IoOp>& s, int64_t n, const std::string& st) { c16_reader_seq(rc[ci], s, "BoundedReader", n, st); };
    enumerate("BoundedReader", "r", ral, th ? 4 : 3, ci, rc.size(), run);
    randomized("BoundedReader", "r", ral, th ? 40000 : 3000, 4, 12, ci, rc.size(), run);
  }
  std::vector<WCfg> wc;
  for (size_t L : {0, 1, 2, 7, 8, 9, 64}) {
    wc.push_back({L, SIZE_MAX, -1, nop::ErrorStatus::None});
    wc.push_back({L, L > 2 ? L - 2 : 0, -1, nop::ErrorStatus::None});                                // wrapped writer fills up before the limit
    for (int64_t j : {0, 1, 2}) wc.push_back({L, SIZE_MAX, j, j == 1 ? nop::ErrorStatus::IOError : j == 2 ? nop::ErrorStatus::ProtocolError : nop::ErrorStatus::StreamError});
  }
  auto wal = alphabet(true);
  rep().infos["c16_writer_configs"] = std::to_string(wc.size());
  for (size_t ci = 0; ci < wc.size(); ci++) {
    auto run = [&](const std::vector<IoOp>& s, int64_t n, const std::string& st) { c16_writer_seq(wc[ci], s, "BoundedWriter", n, st); };
    enumerate("BoundedWriter", "w", wal, th ? 4 : 3, ci, wc.size(), run);
    randomized("BoundedWriter", "w", wal, th ? 40000 : 3000, 4, 12, ci, wc.size(), run);
  }
  if (rep().want_sample("BoundedReader", 1)) rep().sample("BoundedReader", J().u("limit", 8).u("wrapped_len", 11).raw("ops", seq_str({ral[3], ral[20], ral[ral.size() - 1]}, false)).str(), 1);
  if (rep().want_sample("BoundedWriter", 1)) rep().sample("BoundedWriter", J().u("limit", 8).raw("ops", seq_str({wal[6], wal[21], wal[wal.size() - 1]}, true)).str(), 1);
}

// ================================================================= C17 readers: differential against the array+position model
struct SrcModel { const Bytes* d; size_t pos = 0; };
template <typename F> static void with_reader(Source& s, F&& f) {
  switch (s.kind) {
    case R_LOG: f(s.log); break; case R_BUFFER: f(s.br); break; case R_PEDANTIC: f(s.pr); break; case R_STREAM: f(*s.sr); break; case R_CHUNKED: f(*s.cr); break; case R_FD: f(*s.fr); break;
    case R_B_PEDANTIC: f(s.bpr); break; case R_B_BUFFER: f(s.bbr); break; case R_B_LOG: f(s.blr); break; case R_B_STREAM: f(s.bsr); break; case R_B_CHUNKED: f(s.bcr); break; case R_B_FD: f(s.bfr); break;
  }
}

static void c17_reader_seq(const Bytes& data, const std::vector<IoOp>& seq, const char* type, int64_t case_idx, const std::string& stage) {
  bool has_skip = false; for (auto& o : seq) if (o.kind == OP_SKIP) has_skip = true;
  for (int rk = 0; rk < R_COUNT; rk++) {
    if (rk == R_LOG || rk == R_B_LOG) continue;                          // harness readers are not under test here
    bool is_fd = r_inner(rk) == R_FD; if (is_fd && has_skip) continue;   // FdReader offers no Skip
    for (int variant = 0; variant < (r_is_bounded(rk) ? 2 : 1); variant++) {
      // bounded: variant 0 = limit beyond the data (transparent), variant 1 = limit inside the data (the source is its first `limit` bytes)
      size_t limit = variant == 0 ? data.size() + 5 : data.size() / 2;
      Bytes view = (r_is_bounded(rk) && variant == 1) ? Bytes(data.begin(), data.begin() + limit) : data;
      Source src; src.init(rk, data.data(), data.size(), r_is_bounded(rk) ? limit : SIZE_MAX, 1 + (unsigned)(case_idx % 5), (case_idx & 1) != 0);
      size_t pos = 0; bool bounded_kind = rk == R_BUFFER || rk == R_PEDANTIC || r_is_bounded(rk);
      for (size_t i = 0; i < seq.size(); i++) {
        const IoOp& o = seq[i]; uint64_t rem = view.size() - pos;
        uint64_t n = o.kind == OP_READ1 ? 1 : resolve(o.sz, o.kind == OP_BLOCK ? rem / o.w : rem, i + o.val);
        if (o.kind == OP_BLOCK && n > 64) n = rem / o.w + 1 + (n % 3);
        uint64_t nbytes = o.kind == OP_BLOCK ? n * o.w : n;
        bool exp_ok = o.kind == OP_ENSURE ? n <= rem : nbytes <= rem;
        Res got;
        with_reader(src, [&](auto& r) { got = o.kind == OP_SKIP ? apply_skip(r, n) : apply_read(r, o.kind, n, o.w); });
        rep().count("c17_reader_calls"); rep().count(std::string("c17_reader_") + rname(rk));
        auto viol = [&](const std::string& key, const std::string& what) {
          std::vector<IoOp> s(seq.begin(), seq.begin() + i + 1);
          rep().violation(fmt("C17:reader:%s:%s", key.c_str(), rname(rk)), fmt("%s: %s; source of %zu bytes%s; calls %s", rname(rk), what.c_str(), data.size(), r_is_bounded(rk) ? fmt(", limit %zu", limit).c_str() : "", seq_str(s, false).c_str()),
                          case_desc(type, case_idx, stage, J().s("reader", rname(rk)).raw("ops", seq_str(s, false)).s("data", hex(data, 80)).str()));
        };
        if (o.kind == OP_ENSURE) {
          if (bounded_kind) {
            // Ensure(n) on a bounded reader succeeds exactly when n bytes remain (a BoundedReader over an unbounded reader can only see its own limit)
            bool inner_unbounded = r_is_bounded(rk) && (r_inner(rk) == R_STREAM || r_inner(rk) == R_CHUNKED || r_inner(rk) == R_FD);
            bool e2 = inner_unbounded ? n <= (r_is_bounded(rk) ? limit - pos : rem) : exp_ok;
            if (inner_unbounded && variant == 0) e2 = n <= limit - pos;
            if (got.ok != e2) { viol("ensure", fmt("Ensure(%" PRIu64 ") returned %s with %" PRIu64 " bytes remaining", n, got.ok ? "ok" : errname(got.err), rem)); break; }
            if (!got.ok && got.err != nop::ErrorStatus::ReadLimitReached) { viol("ensure-category", fmt("Ensure failed with '%s'", errname(got.err))); break; }
          }
          continue;
        }
        if (got.ok != exp_ok) { viol(exp_ok ? "fails-early" : "succeeds-past-the-end", fmt("%s of %" PRIu64 " bytes with %" PRIu64 " remaining returned %s (call %zu); the byte-source model %s", kRName[o.kind], nbytes, rem, got.ok ? "ok" : errname(got.err), i, exp_ok ? "succeeds" : "fails")); break; }
        if (!got.ok) {
          nop::ErrorStatus e = got.err; bool allowed = e == nop::ErrorStatus::ReadLimitReached || ((r_inner(rk) == R_STREAM || r_inner(rk) == R_CHUNKED) && e == nop::ErrorStatus::StreamError) || (is_fd && e == nop::ErrorStatus::IOError);
          if (!allowed) viol("category", fmt("exhausted source reported '%s'", errname(e)));
          break;     // equivalence is required up to and including the first failing call
        }
        if (o.kind != OP_SKIP) { if (got.bytes.size() != nbytes || memcmp(got.bytes.data(), view.data() + pos, nbytes) != 0) { viol("bytes", fmt("%s delivered %s, the source holds %s at offset %zu", kRName[o.kind], hex(got.bytes, 24).c_str(), hex(view.data() + pos, (size_t)nbytes, 24).c_str(), pos)); break; } }
        pos += nbytes;
        if (rk == R_BUFFER && src.br.remaining() != data.size() - pos) { viol("remaining", "remaining() disagrees with the bytes delivered"); break; }
        if (rk == R_PEDANTIC && src.pr.remaining() != data.size() - pos) { viol("remaining", "remaining() disagrees with the bytes delivered"); break; }
      }
    }
  }
}

// ================================================================= C17 writers: differential against the vector+capacity model
template <typename F> static void with_writer(Sink& s, F&& f) {
  switch (s.kind) {
    case W_LOG: f(s.log); break; case W_BUFFER: f(s.bw); break; case W_PEDANTIC: f(s.pw); break; case W_CONSTEXPR: f(s.cw); break; case W_STREAM: f(*s.sw); break; case W_FD: f(*s.fw); break;
    case W_B_PEDANTIC: f(s.bpw); break; case W_B_BUFFER: f(s.bbw); break; case W_B_LOG: f(s.blw); break; case W_B_STREAM: f(s.bsw); break; case W_B_CONSTEXPR: f(s.bcw); break; case W_B_FD: f(s.bfw); break;
  }
}
template <typename W> static Res apply_write_c17(W& w, const IoOp& o, uint64_t n, uint8_t val) { return apply_write(w, o.kind, n, o.w, val); }

static void c17_writer_seq(size_t cap, const std::vector<IoOp>& seq, const char* type, int64_t case_idx, const std::string& stage) {
  bool has_skip = false; for (auto& o : seq) if (o.kind == OP_SKIP) has_skip = true;
  for (int wk0 = 0; wk0 < W_COUNT + 2; wk0++) {
    // two extra passes: BoundedWriter over a checked buffer writer whose own capacity (cap) is tighter than the bound (cap + 2): the effective capacity is the wrapped writer's
    const bool inner_tight = wk0 >= W_COUNT; const int wk = inner_tight ? (wk0 == W_COUNT ? W_B_PEDANTIC : W_B_CONSTEXPR) : wk0;
    if (wk == W_LOG || wk == W_B_LOG) continue;
    int in = w_inner(wk); bool is_fd = in == W_FD; if (is_fd && has_skip) continue;
    bool unbounded = (wk == W_STREAM || wk == W_FD);
    bool checked = wk == W_PEDANTIC || wk == W_CONSTEXPR || w_is_bounded(wk);
    Sink s;
    if (inner_tight) { s.init(wk, cap, cap + 2, false); rep().count("c17_bounded_writer_over_tighter_writer_sequences"); }
    else if (w_is_bounded(wk)) s.init(wk, cap + 80, cap, (case_idx & 1) != 0); else s.init(wk, cap, SIZE_MAX, (case_idx & 1) != 0);
    Bytes model;
    for (size_t i = 0; i < seq.size(); i++) {
      const IoOp& o = seq[i]; uint64_t rem = unbounded ? 24 : cap - model.size();
      uint64_t n = o.kind == OP_READ1 ? 1 : resolve(o.sz, o.kind == OP_BLOCK ? rem / o.w : rem, i + o.val);
      if (o.kind == OP_BLOCK && n > 64) n = rem / o.w + 1 + (n % 3);
      uint64_t nbytes = o.kind == OP_BLOCK ? n * o.w : n; uint8_t val = (uint8_t)(o.val * 29 + 3);
      bool fits = unbounded ? true : ((o.kind == OP_ENSURE ? n : nbytes) <= cap - model.size());
      if (unbounded && o.kind != OP_ENSURE && nbytes > 4096) continue;                               // unbounded writers would really write that much
      if (wk == W_BUFFER && !fits && o.kind != OP_ENSURE) break;                                       // the unchecked writer is only driven within its capacity (refusal is required of checked writers)
      Res got; with_writer(s, [&](auto& w) { got = apply_write_c17(w, o, n, val); });
      rep().count("c17_writer_calls"); rep().count(std::string("c17_writer_") + wname(wk));
      auto viol = [&](const std::string& key, const std::string& what) {
        std::vector<IoOp> sq(seq.begin(), seq.begin() + i + 1);
        rep().violation(fmt("C17:writer:%s:%s", key.c_str(), wname(wk)), fmt("%s: %s; capacity %zu; calls %s", wname(wk), what.c_str(), cap, seq_str(sq, true).c_str()), case_desc(type, case_idx, stage, J().s("writer", wname(wk)).raw("ops", seq_str(sq, true)).u("cap", cap).str()));
      };
      if (o.kind == OP_ENSURE) {
        if (checked || wk == W_BUFFER) { if (got.ok != fits) { viol("prepare", fmt("Prepare(%" PRIu64 ") returned %s with %" PRIu64 " bytes of capacity left", n, got.ok ? "ok" : errname(got.err), rem)); break; } if (!got.ok && got.err != nop::ErrorStatus::WriteLimitReached) { viol("prepare-category", fmt("Prepare failed with '%s'", errname(got.err))); break; } }
        else if (!got.ok) { viol("prepare", "Prepare failed on an unbounded writer"); break; }
        continue;
      }
      if (got.ok != fits) { viol(fits ? "refuses-fitting-call" : "accepts-call-beyond-capacity", fmt("%s of %" PRIu64 " bytes with %" PRIu64 " bytes of capacity left returned %s", kWName[o.kind], nbytes, rem, got.ok ? "ok" : errname(got.err))); break; }
      // a refused call leaves no trace: the sequence goes on, and later calls that fit must still be accepted ("refuse exactly the calls that would exceed their capacity")
      if (!got.ok) { if (got.err != nop::ErrorStatus::WriteLimitReached) { viol("category", fmt("refusal reported '%s'", errname(got.err))); break; } rep().count("c17_writer_calls_after_a_refusal_follow"); continue; }
      if (o.kind == OP_READ1) model.push_back(val); else if (o.kind == OP_SKIP) model.insert(model.end(), (size_t)n, val); else for (size_t k = 0; k < nbytes; k++) model.push_back((uint8_t)(val + k * 13));
      Bytes b = s.bytes();
      if (b != model) { viol(fmt("bytes:%s", kWName[o.kind]), fmt("byte stream %s differs from the model %s", hex(b, 40).c_str(), hex(model, 40).c_str())); break; }
    }
  }
}

// StreamWriter over a sink that fills up (a fixed-size device, a full disk): the streambuf refuses characters beyond its capacity. Every call that fits is
// accepted and puts exactly its bytes on the sink; the first call that does not fit must come back as an error (bytes of that call may have reached the
// sink). Also a FdWriter on /dev/full (every ::write fails with ENOSPC): no call may report success.
struct FixedSinkBuf : std::streambuf {
  std::string data; size_t cap;
  explicit FixedSinkBuf(size_t c) : cap(c) {}
  int_type overflow(int_type c) override { if (traits_type::eq_int_type(c, traits_type::eof())) return traits_type::not_eof(c); if (data.size() >= cap) return traits_type::eof(); data.push_back(traits_type::to_char_type(c)); return c; }
  std::streamsize xsputn(const char* p, std::streamsize n) override { size_t k = std::min((size_t)n, cap - data.size()); data.append(p, k); return (std::streamsize)k; }
};
static void c17_full_sink_seq(size_t cap, const std::vector<IoOp>& seq, const char* type, int64_t case_idx, const std::string& stage) {
  FixedSinkBuf sink(cap); nop::StreamWriter<std::ostream> w(&sink); Bytes model;
  for (size_t i = 0; i < seq.size(); i++) {
    const IoOp& o = seq[i]; if (o.kind == OP_ENSURE) continue;
    uint64_t rem = cap - model.size();
    uint64_t n = o.kind == OP_READ1 ? 1 : resolve(o.sz, o.kind == OP_BLOCK ? rem / o.w : rem, i + o.val);
    if (o.kind == OP_BLOCK && n > 64) n = rem / o.w + 1 + (n % 3);
    if (o.kind == OP_SKIP && n > rem + 40) n = rem + 1 + (n % 7);
    uint64_t nbytes = o.kind == OP_BLOCK ? n * o.w : n; uint8_t val = (uint8_t)(o.val * 29 + 3);
    const bool fits = nbytes <= rem;
    Res got = apply_write(w, o.kind, n, o.w, val);
    rep().count("c17_writer_calls"); rep().count("c17_stream_writer_calls_on_a_sink_that_fills_up");
    auto viol = [&](const std::string& key, const std::string& what) { std::vector<IoOp> sq(seq.begin(), seq.begin() + i + 1);
      rep().violation(fmt("C17:writer:%s:StreamWriter<full sink>", key.c_str()), fmt("StreamWriter over a %zu-byte sink: %s; calls %s", cap, what.c_str(), seq_str(sq, true).c_str()), case_desc(type, case_idx, stage, J().s("writer", "StreamWriter<full sink>").raw("ops", seq_str(sq, true)).u("capacity", cap).str())); };
    if (got.ok != fits) { viol(fits ? "refuses-fitting-call" : "accepts-call-beyond-capacity", fmt("%s of %" PRIu64 " bytes with %" PRIu64 " bytes left on the sink returned %s (the sink holds %zu bytes)", kWName[o.kind], nbytes, rem, got.ok ? "ok" : errname(got.err), sink.data.size())); return; }
    if (!got.ok) { if (got.err != nop::ErrorStatus::StreamError) viol("category", fmt("a refused character was reported as '%s'", errname(got.err))); return; }   // the stream is in a failed state from here on
    if (o.kind == OP_READ1) model.push_back(val); else if (o.kind == OP_SKIP) model.insert(model.end(), (size_t)n, val); else for (size_t k = 0; k < nbytes; k++) model.push_back((uint8_t)(val + k * 13));
    if (Bytes(sink.data.begin(), sink.data.end()) != model) { viol(fmt("bytes:%s", kWName[o.kind]), "the bytes on the sink differ from the model"); return; }
  }
}
static void c17_dev_full() {
  if (!mine(31)) return;
  int fd = ::open("/dev/full", O_WRONLY); if (fd < 0) return;
  { nop::FdWriter w(fd); uint32_t blk[4] = {1, 2, 3, 4};
    struct { const char* what; bool ok; } t[] = {{"Write(byte)", (bool)w.Write((uint8_t)7)}, {"Write(block)", (bool)w.Write(blk, blk + 4)}, {"Write(byte) again", (bool)w.Write((uint8_t)8)}};
    for (auto& x : t) { rep().count("c17_fd_writer_calls_on_dev_full"); if (x.ok) rep().violation("C17:writer:accepts-call-beyond-capacity:FdWriter</dev/full>", fmt("FdWriter on /dev/full (every write fails with ENOSPC): %s reported success", x.what), case_desc("dev-full", 0, "dev-full")); } }
}

// ================================================================= C17: compile-time serialization equals run time
template <typename T, size_t Size> struct CxArray {
  T elements[Size];
  constexpr const T* begin() const { return &elements[0]; } constexpr const T* end() const { return &elements[Size]; }
  constexpr T* data() { return elements; } constexpr size_t size() const { return Size; }
  NOP_VALUE(CxArray, elements);
};
template <typename T> constexpr size_t CxEncodingSize(const T& value) { return nop::Encoding<T>::Size(value); }
template <std::size_t Size, typename T> constexpr auto CxSerialize(const T& value) {
  CxArray<std::uint8_t, Size> bytes{{}};
  nop::Serializer<nop::ConstexprBufferWriter> serializer{bytes.data(), bytes.size()};
  auto status = serializer.Write(value);
  return status ? bytes : throw status;
}
template <typename T> static std::vector<uint8_t> CxRuntimeBytes(const T& v, int kind) {
  size_t gs = nop::Encoding<T>::Size(v);
  if (kind == 0) { ExactBuf b(gs); nop::Serializer<nop::ConstexprBufferWriter> s{b.p, gs}; auto st = s.Write(v); return st ? b.vec(s.writer().size()) : Bytes{0xEE}; }
  if (kind == 1) { ExactBuf b(gs); nop::Serializer<nop::BufferWriter> s{b.p, gs}; auto st = s.Write(v); return st ? b.vec(s.writer().size()) : Bytes{0xEE}; }
  if (kind == 2) { ExactBuf b(gs); nop::Serializer<nop::PedanticBufferWriter> s{b.p, gs}; auto st = s.Write(v); return st ? b.vec(s.writer().size()) : Bytes{0xEE}; }
  nop::Serializer<SStreamWriter> s; auto st = s.Write(v); std::string str = s.writer().stream().str(); return st ? Bytes(str.begin(), str.end()) : Bytes{0xEE};
}
struct CxRow { const char* type; const std::uint8_t* ct; size_t n; std::vector<uint8_t> (*rt)(int); };
struct CxSeqResult { std::uint8_t bytes[224]; bool ok[8]; std::size_t size_after[8]; int nops; std::size_t size; };
struct CxSeqOp { int kind; unsigned long long n; int w; int val; unsigned long long vals[10]; };
struct CxSeqRow { int cap; int nops; CxSeqOp ops[8]; const CxSeqResult* ct; CxSeqResult (*rt)(); };
#include "cx_values.inc"

static void c17_constexpr() {
  size_t nrows = sizeof(kCxRows) / sizeof(kCxRows[0]);
  for (size_t i = 0; i < nrows; i++) {
    if (!mine(i) || !selected("constexpr-value", (int64_t)i)) continue;
    const CxRow& r = kCxRows[i]; Bytes ct(r.ct, r.ct + r.n);
    set_current("%s", case_desc("constexpr-value", (int64_t)i, "cx").c_str());
    static const char* names[] = {"ConstexprBufferWriter (run time)", "BufferWriter", "PedanticBufferWriter", "StreamWriter"};
    for (int k = 0; k < 4; k++) { Bytes rt = r.rt(k); rep().count("c17_constexpr_vs_runtime_comparisons"); if (rt != ct) rep().violation(fmt("C17:constexpr-bytes-differ:%s", names[k]), fmt("%s: compile-time bytes %s, %s produced %s", r.type, hex(ct, 48).c_str(), names[k], hex(rt, 48).c_str()), case_desc("constexpr-value", (int64_t)i, "cx")); }
    rep().note(hash_combine(hash_str("cx"), hash_bytes(ct.data(), ct.size())), true);
    if (rep().want_sample("constexpr-value", 2)) rep().sample("constexpr-value", J().s("type", r.type).s("compile_time_bytes", hex(ct, 40)).str(), 2);
  }
  size_t nseq = sizeof(kCxSeqRows) / sizeof(kCxSeqRows[0]);
  for (size_t i = 0; i < nseq; i++) {
    if (!mine(i) || !selected("constexpr-sequence", (int64_t)i)) continue;
    const CxSeqRow& q = kCxSeqRows[i]; const CxSeqResult& ct = *q.ct;
    set_current("%s", case_desc("constexpr-sequence", (int64_t)i, "cxseq").c_str());
    // model: byte vector + capacity
    Bytes model; bool ok_m[8]; size_t sz_m[8];
    for (int j = 0; j < q.nops; j++) {
      const CxSeqOp& o = q.ops[j]; unsigned long long room = (unsigned long long)q.cap - model.size();
      if (o.kind == 0) ok_m[j] = o.n <= room;
      else if (o.kind == 1) { ok_m[j] = room >= 1; if (ok_m[j]) model.push_back((uint8_t)o.val); }
      else if (o.kind == 2) { unsigned long long nb = o.n * (unsigned long long)o.w; ok_m[j] = nb <= room; if (ok_m[j]) for (unsigned long long e = 0; e < o.n; e++) for (int b = 0; b < o.w; b++) model.push_back((uint8_t)(o.vals[e] >> (8 * b))); }
      else { ok_m[j] = o.n <= room; if (ok_m[j]) model.insert(model.end(), (size_t)o.n, (uint8_t)o.val); }
      sz_m[j] = model.size();
    }
    CxSeqResult rt = q.rt();   // the same constexpr function evaluated at run time
    rep().count("c17_constexpr_sequences"); rep().note(hash_combine(hash_str("cxseq"), (uint64_t)i * 7919 + (uint64_t)q.cap), true);
    for (int j = 0; j < q.nops; j++) {
      if (ct.ok[j] != ok_m[j] || ct.size_after[j] != sz_m[j]) { rep().violation(fmt("C17:constexpr-sequence:status:op%d", q.ops[j].kind), fmt("compile-time call %d (kind %d, n=%llu) on a %d-byte ConstexprBufferWriter returned %d / size %zu, model %d / %zu", j, q.ops[j].kind, q.ops[j].n, q.cap, (int)ct.ok[j], ct.size_after[j], (int)ok_m[j], sz_m[j]), case_desc("constexpr-sequence", (int64_t)i, "cxseq")); break; }
      if (rt.ok[j] != ct.ok[j] || rt.size_after[j] != ct.size_after[j]) { rep().violation("C17:constexpr-sequence:compile-time!=run-time", "the same call sequence gives different statuses at compile time and at run time", case_desc("constexpr-sequence", (int64_t)i, "cxseq")); break; }
    }
    if (ct.size != model.size() || memcmp(ct.bytes, model.data(), model.size()) != 0) rep().violation("C17:constexpr-sequence:bytes", fmt("compile-time byte stream %s differs from the model %s", hex(ct.bytes, ct.size, 40).c_str(), hex(model, 40).c_str()), case_desc("constexpr-sequence", (int64_t)i, "cxseq"));
    if (memcmp(rt.bytes, ct.bytes, sizeof ct.bytes) != 0) rep().violation("C17:constexpr-sequence:compile-time!=run-time", "compile-time and run-time byte streams differ", case_desc("constexpr-sequence", (int64_t)i, "cxseq"));
  }
  clear_current();
}

// ================================================================= C17: fd reader/writer under interrupted and partial system calls
// The byte-sink / byte-source contract on the medium where system calls really are partial: a blocking pipe with a 4 KiB kernel buffer,
// a slow peer thread, and a signal storm (no SA_RESTART) on the thread inside the library call. Every writer must still produce the model's
// byte stream and accept every call; the reader must deliver the model's bytes and fail only where the data ends.
static void c17_fd_storm(uint64_t n) {
  Rng r = case_rng("fd-storm", n, 77);
  set_current("%s", case_desc("fd-storm", (int64_t)n, "storm").c_str());
  // a random Prepare / Write(byte) / Write(block of 1,2,4,8-byte elements) sequence with blocks up to 96 KiB
  struct Blk { int w; Bytes raw; };
  std::vector<Blk> ops; Bytes model; int nops = 2 + (int)r.below(6);
  for (int i = 0; i < nops; i++) { Blk b; static const int ws[] = {0, 1, 2, 4, 8}; b.w = ws[r.below(5)];
    size_t bytes = b.w == 0 ? 1 : (r.below(3) == 0 ? 20000 + r.below(80000) : r.below(6000)); if (b.w) bytes -= bytes % (size_t)b.w;
    b.raw.resize(bytes); for (auto& c : b.raw) c = (uint8_t)r.next(); model.insert(model.end(), b.raw.begin(), b.raw.end()); ops.push_back(std::move(b)); }
  uint64_t sig0 = storm_delivered().load();
  { int fds[2]; if (::pipe(fds) != 0) return; shrink_pipe(fds[1]);
    SlowDrain drain(fds[0], n * 13 + 5); nop::Status<void> st; int failed_at = -1;
    { nop::FdWriter w(fds[1]);
      { SignalStorm storm(pthread_self(), 50);
        for (int i = 0; i < nops && failed_at < 0; i++) { const Blk& b = ops[(size_t)i];
          (void)w.Prepare(b.raw.size());
          switch (b.w) { case 0: st = w.Write(b.raw[0]); break; case 1: st = w.Write(b.raw.data(), b.raw.data() + b.raw.size()); break;
            case 2: st = w.Write((const uint16_t*)b.raw.data(), (const uint16_t*)(b.raw.data() + b.raw.size())); break; case 4: st = w.Write((const uint32_t*)b.raw.data(), (const uint32_t*)(b.raw.data() + b.raw.size())); break;
            default: st = w.Write((const uint64_t*)b.raw.data(), (const uint64_t*)(b.raw.data() + b.raw.size())); break; }
          if (!st) failed_at = i; } }
    }   // FdWriter destroyed: write end closed
    Bytes& got = drain.join();
    rep().count("c17_fd_storm_writer_sequences"); rep().count("c17_writer_calls", (uint64_t)nops); rep().count("c17_writer_FdWriter<pipe under signals>", (uint64_t)nops);
    std::string cd = case_desc("fd-storm", (int64_t)n, "storm", J().u("ops", (uint64_t)nops).u("bytes", model.size()).str());
    if (failed_at >= 0) rep().violation("C17:writer:fd-signal-storm:refused", fmt("FdWriter on a blocking pipe under signals refused call %d (%zu bytes) with '%s'; every other writer accepts it", failed_at, ops[(size_t)failed_at].raw.size(), errname(st.error())), cd);
    else if (got != model) { size_t d = 0; while (d < got.size() && d < model.size() && got[d] == model[d]) d++;
      rep().violation("C17:writer:fd-signal-storm:bytes", fmt("FdWriter on a blocking pipe under signals produced %zu bytes, the byte-sink model %zu; first difference at %zu", got.size(), model.size(), d), cd); }
  }
  { int fds[2]; if (::pipe(fds) != 0) return; shrink_pipe(fds[1]);
    SlowFeed feed(fds[1], model, n * 7 + 11);
    { nop::FdReader rd(fds[0]); SignalStorm storm(pthread_self(), 50); size_t pos = 0; std::string cd = case_desc("fd-storm", (int64_t)n, "storm-read", J().u("bytes", model.size()).str());
      for (int i = 0; i < nops; i++) { const Blk& b = ops[(size_t)i]; Bytes out(b.raw.size(), 0xEE); nop::Status<void> st;
        (void)rd.Ensure(b.raw.size());
        switch (b.w) { case 0: st = rd.Read(out.data()); break; case 1: st = rd.Read(out.data(), out.data() + out.size()); break;
          case 2: st = rd.Read((uint16_t*)out.data(), (uint16_t*)(out.data() + out.size())); break; case 4: st = rd.Read((uint32_t*)out.data(), (uint32_t*)(out.data() + out.size())); break;
          default: st = rd.Read((uint64_t*)out.data(), (uint64_t*)(out.data() + out.size())); break; }
        rep().count("c17_reader_calls"); rep().count("c17_reader_FdReader<pipe under signals>");
        if (!st) { rep().violation("C17:reader:fd-signal-storm:fails-early", fmt("FdReader on a slowly fed pipe under signals failed call %d with '%s' although %zu bytes were still to come", i, errname(st.error()), model.size() - pos), cd); break; }
        if (memcmp(out.data(), model.data() + pos, out.size()) != 0) { rep().violation("C17:reader:fd-signal-storm:bytes", fmt("FdReader on a slowly fed pipe under signals delivered other bytes than the source holds (call %d)", i), cd); break; }
        pos += out.size(); }
      if (pos == model.size()) { uint8_t x; auto st = rd.Read(&x); if (st) rep().violation("C17:reader:fd-signal-storm:succeeds-past-the-end", "FdReader delivered a byte after the data was exhausted", cd); }
      rep().count("c17_fd_storm_reader_sequences");
    }
  }
  rep().count("c17_fd_storm_signals_delivered", storm_delivered().load() - sig0);
  rep().note(hash_combine(hash_str("fd-storm"), hash_bytes(model.data(), std::min<size_t>(model.size(), 256)) ^ model.size()), true);
  clear_current();
}

// ================================================================= C17: readers / writers constructed from a pointer to a multi-byte type
// The documented constructor is (pointer, size in bytes). A buffer declared as uint16_t/uint32_t/uint64_t/double[] and passed with its sizeof must give
// exactly that many bytes - not that many elements.
template <typename E> static void c17_typed_buffer(const char* ename) {
  const size_t N = 4, bytes = N * sizeof(E);
  std::unique_ptr<E[]> mem(new E[N]); uint8_t* raw = reinterpret_cast<uint8_t*>(mem.get()); for (size_t i = 0; i < bytes; i++) raw[i] = (uint8_t)(0x11 * (i + 1));
  std::string cd = case_desc("typed-buffer", -1, ename);
  set_current("%s", cd.c_str());
  auto bad = [&](const char* who, const std::string& what) { rep().violation(fmt("C17:typed-pointer-constructor:%s", who), fmt("%s constructed from (%s*, %zu bytes): %s", who, ename, bytes, what.c_str()), cd); };
  { nop::BufferReader r{mem.get(), bytes}; rep().count("c17_typed_pointer_constructions");
    if (r.remaining() != bytes) bad("BufferReader", fmt("remaining() = %zu", r.remaining()));
    else { if (r.Ensure(bytes + 1)) bad("BufferReader", "Ensure(size + 1) succeeded"); Bytes got(bytes); auto st = r.Read(got.data(), got.data() + bytes); if (!st || memcmp(got.data(), raw, bytes) != 0) bad("BufferReader", "did not deliver the buffer's bytes"); uint8_t x; if (r.Read(&x)) bad("BufferReader", "delivered a byte beyond the buffer"); } }
  { nop::PedanticBufferReader r{mem.get(), bytes}; rep().count("c17_typed_pointer_constructions");
    if (r.remaining() != bytes) bad("PedanticBufferReader", fmt("remaining() = %zu", r.remaining()));
    else { if (r.Ensure(bytes + 1)) bad("PedanticBufferReader", "Ensure(size + 1) succeeded"); if (!r.Skip(bytes)) bad("PedanticBufferReader", "Skip(size) failed"); uint8_t x; if (r.Read(&x)) bad("PedanticBufferReader", "delivered a byte beyond the buffer"); } }
  { nop::BufferWriter w{mem.get(), bytes}; rep().count("c17_typed_pointer_constructions");
    if (w.capacity() != bytes) bad("BufferWriter", fmt("capacity() = %zu", w.capacity())); else if (w.Prepare(bytes + 1)) bad("BufferWriter", "Prepare(size + 1) succeeded"); }
  { nop::PedanticBufferWriter w{mem.get(), bytes}; rep().count("c17_typed_pointer_constructions");
    if (w.capacity() != bytes) bad("PedanticBufferWriter", fmt("capacity() = %zu", w.capacity())); else { if (w.Prepare(bytes + 1)) bad("PedanticBufferWriter", "Prepare(size + 1) succeeded"); if (!w.Skip(bytes, 0x5a)) bad("PedanticBufferWriter", "Skip(size) failed"); if (w.Write((uint8_t)1)) bad("PedanticBufferWriter", "accepted a byte beyond the buffer"); } }
  { nop::ConstexprBufferWriter w{raw, bytes}; rep().count("c17_typed_pointer_constructions");
    if (w.capacity() != bytes) bad("ConstexprBufferWriter", fmt("capacity() = %zu", w.capacity())); else if (w.Prepare(bytes + 1)) bad("ConstexprBufferWriter", "Prepare(size + 1) succeeded"); }
  rep().note(hash_str(ename) ^ 0x7e, true);
  clear_current();
}

static void run_c17() {
  bool th = args().thorough();
  if (mine(3) && (args().only_type.empty() || args().only_type == "typed-buffer")) { c17_typed_buffer<uint8_t>("uint8_t"); c17_typed_buffer<char>("char"); c17_typed_buffer<uint16_t>("uint16_t"); c17_typed_buffer<uint32_t>("uint32_t"); c17_typed_buffer<int64_t>("int64_t"); c17_typed_buffer<double>("double"); }
  if (args().only_type.empty()) c17_dev_full();
  if (args().only_type.empty() || args().only_type == "fd-storm") for (uint64_t n = 0; n < (th ? 4000u : 240u); n++) { if (args().only_case >= 0 ? (uint64_t)args().only_case != n : !mine(n)) continue; c17_fd_storm(n); }
  auto ral = alphabet(false, true, true, true);
  auto ral_noskip = alphabet(false, true, false, true);
  // sources of 0..64 bytes
  std::vector<size_t> lens = {0, 1, 2, 3, 7, 8, 9, 16, 33, 64};
  rep().infos["c17_reader_alphabet"] = std::to_string(ral.size());
  for (size_t li = 0; li < lens.size(); li++) {
    Bytes data(lens[li]); for (size_t i = 0; i < data.size(); i++) data[i] = (uint8_t)(i * 73 + 29 + li);
    auto run = [&](const std::vector<IoOp>& s, int64_t n, const std::string& st) { c17_reader_seq(data, s, "reader-contract", n, st); };
    enumerate("reader-contract", "rd", ral, th ? 3 : 2, li, lens.size(), run);
    enumerate("reader-contract", "rdns", ral_noskip, th ? 3 : 2, li, lens.size(), run);            // Skip-free sequences reach the fd readers
    randomized("reader-contract", "rd", ral, th ? 20000 : 1500, 3, 10, li, lens.size(), run);
    randomized("reader-contract", "rdns", ral_noskip, th ? 20000 : 1500, 3, 10, li, lens.size(), run);
  }
  auto wal = alphabet(false, true, true, true), wal_noskip = alphabet(false, true, false, true);
  std::vector<size_t> caps = {0, 1, 2, 7, 8, 9, 16, 31, 64};
  for (size_t ci = 0; ci < caps.size(); ci++) {
    auto run = [&](const std::vector<IoOp>& s, int64_t n, const std::string& st) { c17_writer_seq(caps[ci], s, "writer-contract", n, st); c17_full_sink_seq(caps[ci], s, "writer-contract", n, st); };
    enumerate("writer-contract", "wr", wal, th ? 3 : 2, ci, caps.size(), run);
    enumerate("writer-contract", "wrns", wal_noskip, th ? 3 : 2, ci, caps.size(), run);
    randomized("writer-contract", "wr", wal, th ? 20000 : 1500, 3, 10, ci, caps.size(), run);
    randomized("writer-contract", "wrns", wal_noskip, th ? 20000 : 1500, 3, 10, ci, caps.size(), run);
  }
  if (args().only_type.empty() || args().only_type.find("constexpr") == 0) c17_constexpr();
  if (rep().want_sample("reader-contract", 1)) rep().sample("reader-contract", J().u("source_len", 9).raw("ops", seq_str({ral[2], ral[19], ral[5]}, false)).str(), 1);
  if (rep().want_sample("writer-contract", 1)) rep().sample("writer-contract", J().u("capacity", 8).raw("ops", seq_str({wal[0], wal[19], wal[7]}, true)).str(), 1);
}

int vf::engine_main() {
  const Args& a = args();
  set_watchdog(120);
  if (a.prop == "C16") { run_c16(); return 0; }
  if (a.prop == "C17") { run_c17(); return 0; }
  fprintf(stderr, "io engine: unknown property %s\n", a.prop.c_str());
  return 2;
}
