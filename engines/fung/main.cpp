// Engine `fung`: C09 — IsFungible<A,B> implies wire compatibility; reflexive; symmetric; documented pairs are true.
#define VF_RT_MAIN
#ifndef VF_OPS_FEW
#define VF_OPS_FEW
#endif
#include "vlib/ops.h"
#include "ref/mutate.h"
#include "engines/fung/pairs.h"

using namespace vf;
namespace vf { std::vector<TypeOps>& registry() { static std::vector<TypeOps> r; return r; } }

struct TCtx { const TypeOps* t; Sch sch; };
static const TypeOps* find_type(const char* name) { for (auto& t : registry()) if (strcmp(t.name, name) == 0) return &t; return nullptr; }
static bool has_unordered(uint32_t f) { return (f & F_UNORDERED) != 0; }

// one direction X -> Y of the wire test; returns number of values actually cross-decoded
static int wire_direction(const FungPair& p, size_t pi, const TCtx& X, const TCtx& Y, const char* dir, int nvals) {
  int tested = 0;
  for (int ci = 0; ci < nvals; ci++) {
    if (args().only_case >= 0 && args().only_case != ci) continue;
    Rng r = case_rng(std::string(p.a) + "|" + p.b + "|" + dir, (uint64_t)ci, 9);
    // half of the values of a documented pair are generated on the *other* type's schema (equal value-tree shapes), so that
    // capacities and fixed counts of the destination are hit exactly instead of by luck
    Gen g(r); Val v;
    if (p.documented && (ci & 1)) { Val vy = g.gen(Y.sch); Enc ey; RefEncode(Y.sch, vy, ey); Val vx; DecResult dx = RefDecode(X.sch, ey.out.data(), ey.out.size(), &vx, nullptr); if (dx.cat == Cat::OK && dx.consumed == ey.out.size()) v = vx; else v = g.gen(X.sch); }
    else v = g.gen(X.sch);
    void* xo = X.t->create(); X.t->from_val(v, xo); Val xv = X.t->to_val(xo);
    Sink s; s.init(W_LOG, SIZE_MAX); auto ws = X.t->write(s, xo); X.t->destroy(xo);
    std::string cd = case_desc(std::string(p.a) + " ~ " + p.b, ci, dir, J().s("rule", p.rule).s("value", str(xv).substr(0, 160)).s("bytes", hex(s.log.data, 120)).str());
    set_current("%s", cd.c_str());
    if (!ws) continue;
    const Bytes& bytes = s.log.data;
    // do the element counts of this value fit the other type? (the reference decoder judges the bytes under Y's schema)
    Val rv; DecResult rr = RefDecode(Y.sch, bytes.data(), bytes.size(), &rv, nullptr);
    rep().count("c09_values_encoded");
    if (rr.cat == Cat::InvalidContainerLength || rr.cat == Cat::InvalidMemberCount) { rep().count("c09_values_whose_counts_do_not_fit"); continue; }
    tested++;
    rep().note(hash_combine(hash_combine(hash_str(p.a), hash_str(p.b)), hash_combine(hash_bytes(bytes.data(), bytes.size()), hash_str(dir))), bytes.size() >= 2);
    rep().count("c09_cross_decodes");
    std::string key_rule = p.rule;
    // the reader kind rotates (bounded, seekable stream, non-seekable chunked stream): wire compatibility is a statement about the bytes, whichever reader delivers them
    static const int kRd[] = {R_PEDANTIC, R_STREAM, R_CHUNKED, R_PEDANTIC, R_B_PEDANTIC};
    int rk = kRd[(size_t)ci % 5]; if (!r_ok(rk, Y.t->flags) || (Y.t->flags & F_HANDLE)) rk = R_PEDANTIC;
    rep().count(std::string("c09_reader_") + rname(rk));
    Source src; src.init(rk, bytes.data(), bytes.size(), bytes.size(), 1 + (unsigned)(ci % 6));
    void* yo = Y.t->create(); auto rs = Y.t->read(src, yo);
    if (!rs) { rep().violation(fmt("C09:trait-true-but-not-wire-compatible:%s", key_rule.c_str()), fmt("IsFungible<%s, %s> is true but an encoding of the first (%s) does not decode as the second: '%s' (rule: %s, direction %s)", p.a, p.b, hex(bytes, 32).c_str(), errname(rs.error()), p.rule, dir), cd); Y.t->destroy(yo); continue; }
    if (src.consumed() != bytes.size()) rep().violation(fmt("C09:consumed:%s", key_rule.c_str()), fmt("decoding %s as %s consumed %zu of %zu bytes", p.a, p.b, src.consumed(), bytes.size()), cd);
    Val yv = canoned(Y.sch, Y.t->to_val(yo)), xc = canoned(X.sch, xv);
    if (yv != xc) rep().violation(fmt("C09:value-differs:%s", key_rule.c_str()), fmt("%s decoded as %s gives %s, the value was %s", p.a, p.b, str(yv).substr(0, 160).c_str(), str(xc).substr(0, 160).c_str()), cd);
    // re-encoding the B value reproduces the bytes (entries of unordered maps may legitimately come out in another order)
    Sink s2; s2.init(W_LOG, SIZE_MAX); auto w2 = Y.t->write(s2, yo); Y.t->destroy(yo);
    if (!w2) rep().violation(fmt("C09:reencode-failed:%s", key_rule.c_str()), fmt("re-encoding the decoded %s failed", p.b), cd);
    else if (!has_unordered(X.t->flags) && !has_unordered(Y.t->flags)) { if (s2.log.data != bytes) rep().violation(fmt("C09:reencode-differs:%s", key_rule.c_str()), fmt("re-encoding as %s gives %s, the original bytes were %s", p.b, hex(s2.log.data, 40).c_str(), hex(bytes, 40).c_str()), cd); }
    else { Val r2; DecResult d2 = RefDecode(Y.sch, s2.log.data.data(), s2.log.data.size(), &r2, nullptr); if (s2.log.data.size() != bytes.size() || d2.cat != Cat::OK || canoned(Y.sch, r2) != yv) rep().violation(fmt("C09:reencode-differs:%s", key_rule.c_str()), "re-encoding (compared modulo unordered_map iteration order) differs", cd); rep().count("c09_reencodings_compared_modulo_unordered_order"); }
    clear_current();
  }
  return tested;
}

int vf::engine_main() {
  set_watchdog(90);
  auto pairs = fung_pairs();
  bool th = args().thorough(); int nvals = th ? 200 : 40;
  rep().counters["programs_pairs"] = args().worker == 0 ? pairs.size() : 0;
  if (args().worker == 0 || args().replay()) for (const FungFact& f : fung_facts()) {
    std::string cd = case_desc(std::string(f.a) + " ~ " + f.b, -1, "fact", J().s("rule", f.rule).b("IsFungible_AB", f.ab).b("IsFungible_BA", f.ba).b("Protocol_write", f.proto_write).str());
    rep().count("c09_trait_only_facts"); rep().note(hash_combine(hash_str(f.a), hash_str(f.b)), true);
    if (f.ab != f.ba) rep().violation(fmt("C09:asymmetric:%s", f.rule), fmt("IsFungible<%s, %s> = %d but IsFungible<%s, %s> = %d", f.a, f.b, (int)f.ab, f.b, f.a, (int)f.ba), cd);
    if (f.expected && !f.ab) rep().violation(fmt("C09:documented-pair-false:%s", f.rule), fmt("IsFungible<%s, %s> is false (%s)", f.a, f.b, f.rule), cd);
    if (f.proto_write != f.ab) rep().violation(fmt("C09:protocol-gate:%s", f.rule), fmt("Protocol<%s>::Write admits %s: %d, IsFungible = %d", f.b, f.a, (int)f.proto_write, (int)f.ab), cd);
  }
  for (size_t pi = 0; pi < pairs.size(); pi++) {
    const FungPair& p = pairs[pi];
    std::string pname = std::string(p.a) + " ~ " + p.b;
    if (!args().only_type.empty() && args().only_type != pname) continue;
    if (args().only_type.empty() && !mine(pi)) continue;
    std::string cd = case_desc(pname, -1, "trait", J().s("rule", p.rule).b("IsFungible_AB", p.ab).b("IsFungible_BA", p.ba).str());
    set_current("%s", cd.c_str());
    rep().note(hash_combine(hash_str(p.a), hash_str(p.b)), true);
    rep().count("c09_pairs"); rep().count(p.documented ? "c09_documented_pairs" : "c09_near_miss_pairs"); if (p.ab) rep().count("c09_pairs_trait_true"); else rep().count("c09_pairs_trait_false");
    if (!p.aa || !p.bb) rep().violation(fmt("C09:not-reflexive:%s", p.rule), fmt("IsFungible<T,T> is false for T = %s", !p.aa ? p.a : p.b), cd);
    if (p.ab != p.ba) rep().violation(fmt("C09:asymmetric:%s", p.rule), fmt("IsFungible<%s, %s> = %d but IsFungible<%s, %s> = %d", p.a, p.b, (int)p.ab, p.b, p.a, (int)p.ba), cd);
    if (p.documented && !p.ab) rep().violation(fmt("C09:documented-pair-false:%s", p.rule), fmt("the documentation declares %s and %s fungible (%s) but IsFungible is false", p.a, p.b, p.rule), cd);
    if (p.proto_write != p.ab || p.proto_read != p.ab) rep().violation(fmt("C09:protocol-gate:%s", p.rule), fmt("Protocol<%s>::Write/Read admits %s: write=%d read=%d, IsFungible = %d", p.a, p.b, (int)p.proto_write, (int)p.proto_read, (int)p.ab), cd);
    if (p.sig_arg != p.ab || p.sig_ret != p.ab) rep().violation(fmt("C09:signature-rule:%s", p.rule), fmt("IsFungible on signatures void(A)/void(B) = %d, A(int)/B(int) = %d, IsFungible<A,B> = %d for A = %s, B = %s", (int)p.sig_arg, (int)p.sig_ret, (int)p.ab, p.a, p.b), cd);
    if (p.bind_ref != p.ab || p.bind_val != p.ab || p.bind_mixed != p.ab || p.bind_ret != p.ab) rep().violation(fmt("C09:bind-gate:%s", p.rule), fmt("Method::Bind of a handler over %s to a method over %s: by const reference=%d, by value=%d, mixed=%d, as return type=%d; IsFungible = %d", p.b, p.a, (int)p.bind_ref, (int)p.bind_val, (int)p.bind_mixed, (int)p.bind_ret, (int)p.ab), cd);
    rep().count("c09_bind_probes", 4);
    if (p.ab || p.ba) {
      const TypeOps* ta = find_type(p.a); const TypeOps* tb = find_type(p.b);
      if (!ta || !tb) { fprintf(stderr, "fung: type missing for %s\n", pname.c_str()); return 2; }
      TCtx A{ta, ta->schema()}, B{tb, tb->schema()};
      int t1 = 0, t2 = 0;
      if (args().only_stage.empty() || args().only_stage == "A->B") t1 = wire_direction(p, pi, A, B, "A->B", nvals);
      if (args().only_stage.empty() || args().only_stage == "B->A") t2 = wire_direction(p, pi, B, A, "B->A", nvals);
      if (t1 + t2 == 0) rep().count("c09_trait_true_pairs_without_fitting_values"); else rep().count("c09_trait_true_pairs_wire_tested");
    }
    if (rep().want_sample(p.documented ? "documented" : "near-miss", 3)) rep().sample(p.documented ? "documented" : "near-miss", J().s("A", p.a).s("B", p.b).s("rule", p.rule).b("IsFungible", p.ab).str(), 3);
    clear_current();
  }
  return 0;
}
