// Pair table emitted by gen/funggen.py: compile-time facts observed at run time.
#pragma once
#include <string>
#include <tuple>
#include <vector>
#include <sstream>
#include <nop/protocol.h>
#include <nop/rpc/interface.h>
#include <nop/serializer.h>
#include <nop/utility/stream_reader.h>
#include <nop/utility/stream_writer.h>
// hand-written types for trait-only facts
namespace vf { namespace facts {
struct LBConstArr { const std::array<int, 4> a{{1, 2, 3, 4}}; std::size_t n{2}; NOP_STRUCTURE(LBConstArr, (a, n)); };
struct LBConstStrArr { const std::array<std::string, 3> a{}; std::uint8_t n{0}; NOP_STRUCTURE(LBConstStrArr, (a, n)); };
struct LBArr { std::array<int, 4> a{}; std::size_t n{0}; NOP_STRUCTURE(LBArr, (a, n)); };
struct VecIntS { std::vector<int> a; NOP_STRUCTURE(VecIntS, a); };
struct VecStrS { std::vector<std::string> a; NOP_STRUCTURE(VecStrS, a); };
struct ArrIntS { std::array<int, 4> a{}; NOP_STRUCTURE(ArrIntS, a); };
struct KeyW { std::uint32_t v{0}; bool operator<(const KeyW& o) const { return v < o.v; } bool operator==(const KeyW& o) const { return v == o.v; } NOP_VALUE(KeyW, v); };
} }
namespace vf {
struct FungPair {
  const char* a; const char* b; const char* rule; bool documented;
  bool ab, ba, aa, bb;            // IsFungible<A,B>, <B,A>, <A,A>, <B,B>
  bool sig_arg, sig_ret;          // IsFungible<void(A),void(B)>, IsFungible<A(int),B(int)>
  bool proto_write, proto_read;   // does Protocol<A>::Write / Read admit a B
  bool bind_ref, bind_val, bind_mixed, bind_ret;   // does Method::Bind admit a handler whose B-typed signature is fungible with the method's A-typed one
};
// SFINAE probe: is Protocol<P>::Write(serializer, const T&) / Read(deserializer, T*) well-formed?
template <typename P, typename T> struct ProtocolAdmits {
  using Ser = nop::Serializer<nop::StreamWriter<std::stringstream>>; using Des = nop::Deserializer<nop::StreamReader<std::stringstream>>;
  template <typename U> static auto w(int) -> decltype(nop::Protocol<P>::Write(static_cast<Ser*>(nullptr), std::declval<const U&>()), std::true_type{});
  template <typename U> static std::false_type w(...);
  template <typename U> static auto r(int) -> decltype(nop::Protocol<P>::Read(static_cast<Des*>(nullptr), static_cast<U*>(nullptr)), std::true_type{});
  template <typename U> static std::false_type r(...);
  enum : bool { write = decltype(w<T>(0))::value, read = decltype(r<T>(0))::value };
};
// SFINAE probe of interface binding: the generator declares one interface per pair whose methods are written over A (NOP_METHOD cannot be used inside a
// class template); the handler is written over B (by const reference, by value, one of each, as the return type)
template <typename If, typename B> struct BindAdmits {
  template <typename M, typename H> static auto t(int) -> decltype(M::Bind(std::declval<H>()), std::true_type{});
  template <typename M, typename H> static std::false_type t(...);
  enum : bool { by_ref = decltype(t<typename If::ByRef, int (*)(const B&)>(0))::value, by_val = decltype(t<typename If::ByVal, int (*)(B)>(0))::value,
                mixed = decltype(t<typename If::ByRef, int (*)(B)>(0))::value, ret = decltype(t<typename If::Ret, B (*)(int)>(0))::value };
};
// trait-only facts: type forms that cannot be registered for a wire test (tuples of references as produced by std::tie / std::forward_as_tuple,
// cv-qualified spellings) but must still be admitted where the documentation uses them
struct FungFact { const char* a; const char* b; const char* rule; bool expected; bool ab, ba; bool proto_write; };
template <typename P, typename T> struct ProtocolWriteAdmits {
  using Ser = nop::Serializer<nop::StreamWriter<std::stringstream>>;
  template <typename U> static auto w(int) -> decltype(nop::Protocol<P>::Write(static_cast<Ser*>(nullptr), std::declval<const U&>()), std::true_type{});
  template <typename U> static std::false_type w(...);
  enum : bool { value = decltype(w<T>(0))::value };
};
std::vector<FungFact> fung_facts();
std::vector<FungPair> fung_pairs();
}  // namespace vf
