// Pair table emitted by gen/funggen.py: compile-time facts observed at run time.
#pragma once
#include <string>
#include <vector>
#include <sstream>
#include <nop/protocol.h>
#include <nop/serializer.h>
#include <nop/utility/stream_reader.h>
#include <nop/utility/stream_writer.h>
namespace vf {
struct FungPair {
  const char* a; const char* b; const char* rule; bool documented;
  bool ab, ba, aa, bb;            // IsFungible<A,B>, <B,A>, <A,A>, <B,B>
  bool sig_arg, sig_ret;          // IsFungible<void(A),void(B)>, IsFungible<A(int),B(int)>
  bool proto_write, proto_read;   // does Protocol<A>::Write / Read admit a B
};
// SFINAE probe: is Protocol<P>::Write(serializer, const T&) / Read(deserializer, T*) well-formed?
template <typename P, typename T> struct ProtocolAdmits {
  using Ser = nop::Serializer<nop::StreamWriter<std::stringstream>>; using Des = nop::Deserializer<nop::StreamReader<std::stringstream>>;
  template <typename U> static auto w(int) -> decltype(nop::Protocol<P>::Write(static_cast<Ser*>(nullptr), std::declval<const U&>()), std::true_type{});
  template <typename U> static std::false_type w(...);
  template <typename U> static auto r(int) -> decltype(nop::Protocol<P>::Read(static_cast<Des*>(nullptr), static_cast<U*>(nullptr)), std::true_type{});
  template <typename U> static std::false_type r(...);
  enum : bool { write = decltype(w<T>(0))::value, read = decltype(r<T>(0))::value };
};
std::vector<FungPair> fung_pairs();
}  // namespace vf
