// Deterministic "special scenario" stages of the life engine (included by main.cpp after the registry / Tr / V / VO / O / R definitions).
//  C12: every way of constructing a Variant - default, EmptyVariant, copy / move from an empty and a non-empty source, converting
//       copy / move from an empty and a non-empty Variant<Other...>, single-alternative Variants (copy, move, swap, vector growth) -
//       placement-constructed into storage pre-filled with byte patterns (0x00 0x01 0x7f 0xaa 0xff), so that a member the constructor
//       forgets to initialise shows as a wrong index()/empty()/Visit instead of depending on what the stack happened to hold.
//  C13: the same for Optional / Entry / Result / Status; plus a throwing element constructor at the 1st..3rd construction inside every
//       assigning operation, on an empty and on an engaged destination: afterwards the object must be empty or hold one alive value
//       (the flag never names a value that was not constructed), and births and deaths balance when everything is destroyed.
#pragma once

struct Slab { alignas(16) unsigned char b[512]; explicit Slab(uint8_t p) { memset(b, p, sizeof b); } };

struct Special {
  const char* prop; std::string err; std::string scen;
  void expect(bool ok, const std::string& key, const std::string& what) { if (!ok && err.empty()) err = key + "|" + what; }
  void begin(const std::string& s) { scen = s; err.clear(); g_live.clear(); g_fault.clear(); g_throw_in = -1; set_current("%s", case_desc("special", 0, s).c_str()); }
  void end(size_t expect_live = 0) {
    g_throw_in = -1;
    if (err.empty() && g_live.size() != expect_live) err = fmt("registry:special.live-count|%zu tracked elements alive at the end of the scenario, expected %zu", g_live.size(), expect_live);
    if (err.empty() && !g_fault.empty()) err = std::string("registry:special:") + g_fault + "|" + g_fault;
    rep().count(fmt("%s_special_scenarios", prop)); rep().note(hash_combine(hash_str(prop), hash_str(scen)), true);
    if (!err.empty()) { size_t bar = err.find('|'); rep().violation(fmt("%s:%s:special:%s", prop, err.substr(0, bar).c_str(), scen.substr(0, scen.find('/')).c_str()), fmt("%s (scenario %s)", err.substr(bar + 1).c_str(), scen.c_str()), case_desc("special", 0, scen)); }
    clear_current();
  }
};

// ------------------------------------------------------------------------------------------------ C12
template <typename VT> static void vchk(Special& s, const VT& x, int idx, const char* who) {
  s.expect(x.index() == idx, "model:Variant.index", fmt("%s: index() = %d, expected %d", who, x.index(), idx));
  s.expect(x.empty() == (idx == -1), "model:Variant.empty", fmt("%s: empty() disagrees with the expected state", who));
  int calls = 0, vidx = -2; x.Visit([&](const auto& e) { calls++; vidx = elem_idx(e); });
  s.expect(calls == 1, "model:Variant.Visit-count", fmt("%s: Visit invoked the visitor %d times", who, calls));
  if (idx == -1) s.expect(vidx == -1, "model:Variant.Visit-alternative", fmt("%s: Visit of an empty Variant passed alternative %d instead of EmptyVariant", who, vidx));
  s.expect((x.template get<TA>() != nullptr) == (x.template is<TA>()), "model:Variant.get", fmt("%s: get<T>() and is<T>() disagree", who));
  if (idx == -1) s.expect(x.template get<TA>() == nullptr, "model:Variant.get", fmt("%s: get<T>() non-null on an empty Variant", who));
}

// a Variant with 130 alternatives: indices beyond 127 (a narrow or signed index member goes wrong there)
template <int I> struct BA : Tr<100 + I> { using Tr<100 + I>::Tr; BA() = default; };
template <int I> static int elem_idx(const BA<I>&) { return I; }
template <typename Seq> struct MkBig; template <size_t... I> struct MkBig<std::index_sequence<I...>> { using type = nop::Variant<BA<(int)I>...>; };
using BigV = MkBig<std::make_index_sequence<130>>::type;
template <int I> static void bchk(Special& s, const BigV& x, const char* who) {
  s.expect(x.index() == I, "model:Variant.index", fmt("%s: index() = %d, expected %d (Variant with 130 alternatives)", who, x.index(), I));
  int calls = 0, vidx = -2; x.Visit([&](const auto& e) { calls++; vidx = elem_idx(e); });
  s.expect(calls == 1 && vidx == I, "model:Variant.Visit-alternative", fmt("%s: Visit passed alternative %d (%d calls), expected %d", who, vidx, calls, I));
  s.expect(x.template get<BA<I>>() != nullptr && x.template is<BA<I>>() && !x.empty(), "model:Variant.get", fmt("%s: get<T>()/is<T>()/empty() disagree with the active alternative %d", who, I));
  s.expect(x.template get<BA<(I + 1) % 130>>() == nullptr, "model:Variant.get", fmt("%s: get<T>() non-null for an inactive alternative", who));
}
template <int I> static void big_case(Special& s) {
  s.begin(fmt("wide-variant-alternative-%d", I));
  { BigV v; v.Become(I); bchk<I>(s, v, "after Become"); s.expect(g_live.size() == 1, "registry:Variant.live-count", fmt("%zu elements alive after Become(%d)", g_live.size(), I));
    BigV c(v); bchk<I>(s, c, "copy"); BigV m(std::move(c)); bchk<I>(s, m, "move-constructed");
    BigV a; a = v; bchk<I>(s, a, "copy-assigned"); a = BA<I>(9); bchk<I>(s, a, "value-assigned"); if (auto* e = a.template get<BA<I>>()) s.expect(e->v == 9, "model:Variant.value", "wrong element value");
    a = nop::EmptyVariant{}; s.expect(a.index() == -1 && a.empty(), "model:Variant.index", "not empty after = EmptyVariant");
    BigV k(BA<I>(3)); bchk<I>(s, k, "value-constructed"); k.Become(129 - I); s.expect(k.index() == 129 - I, "model:Variant.index", fmt("index() = %d after Become(%d)", k.index(), 129 - I)); k.Become(130); s.expect(k.empty(), "model:Variant.index", "Become(out of range) did not empty the Variant"); }
  s.end();
}
// an alternative that is a union type with a user-provided destructor (std::is_class is false for unions)
static long g_ucell_ctor = 0, g_ucell_dtor = 0;
union UCell { int i; float f; UCell() : i(0) { g_ucell_ctor++; } UCell(const UCell& o) : i(o.i) { g_ucell_ctor++; } UCell& operator=(const UCell& o) { i = o.i; return *this; } ~UCell() { g_ucell_dtor++; } };
static int elem_idx(const UCell&) { return 1; }

// an alternative constructible from a C string (and from an int): next to a bool alternative, libnop's IsConstructible deliberately says "bool is not
// constructible from a pointer", which is where "construct whatever accepts the arguments" and "construct the alternative that was named" part ways
struct PN : Tr<8> { PN() = default; PN(int x) : Tr<8>(x) {} PN(const char* t) : Tr<8>((int)strlen(t)) {} };
struct BecomeSeen { int calls = 0, as_bool = 0, as_pn = 0, as_int = 0, as_a = 0, as_b = 0, as_empty = 0; bool bval = false; int ival = 0;
  void operator()(const bool& b) { calls++; as_bool++; bval = b; } void operator()(const PN& p) { calls++; as_pn++; ival = p.v; } void operator()(const int& i) { calls++; as_int++; ival = i; }
  void operator()(const TA& a) { calls++; as_a++; ival = a.v; } void operator()(const TB& b) { calls++; as_b++; ival = b.v; } void operator()(nop::EmptyVariant) { calls++; as_empty++; } };
static void variant_become_special() {
  Special s{"c12"};
  // Become(i, args...): afterwards index() == i, the alternative alive is the i-th one, built from args; every other index empties the Variant
  { s.begin("Become/bool-next-to-pointer-constructible");
    { nop::Variant<bool, PN> v; const char* src = "yes"; v.Become(0, src);
      s.expect(v.index() == 0, "model:Variant.index", fmt("Variant<bool,PN>::Become(0, const char*): index() = %d", v.index()));
      s.expect(g_live.empty(), "registry:Variant.live-count", fmt("Become(0, const char*) targets the bool alternative but %zu PN elements are alive", g_live.size()));
      s.expect(v.get<bool>() && *v.get<bool>() == true, "model:Variant.get", "get<bool>() after Become(0, non-null pointer) is not a true bool"); s.expect(v.get<PN>() == nullptr, "model:Variant.get", "get<PN>() non-null while index() names bool");
      BecomeSeen q; v.Visit(q); s.expect(q.calls == 1 && q.as_bool == 1 && q.bval, "model:Variant.Visit-alternative", "Visit after Become(0, ptr) did not present a true bool exactly once");
      v.Become(1, "abcd"); s.expect(v.index() == 1 && v.get<PN>() && v.get<PN>()->v == 4 && g_live.size() == 1, "model:Variant.index", "Become(1, \"abcd\") does not hold PN(4) alone");
      const char* none = nullptr; v.Become(0, none); s.expect(v.index() == 0 && v.get<bool>() && *v.get<bool>() == false && g_live.empty(), "model:Variant.index", "Become(0, nullptr pointer) over a PN: not a false bool, or the PN is still alive");
      v.Become(1, 9); s.expect(v.index() == 1 && v.get<PN>() && v.get<PN>()->v == 9, "model:Variant.value", "Become(1, 9) does not hold PN(9)"); v.Become(1, 5); s.expect(v.get<PN>() && v.get<PN>()->v == 9, "model:Variant.value", "Become(same index, args) replaced the active element");
      v.Become(2, src); s.expect(v.empty() && g_live.empty(), "model:Variant.empty", "Become(out-of-range index) did not leave the Variant empty"); v.Become(-1, src); s.expect(v.empty(), "model:Variant.empty", "Become(-1) did not leave the Variant empty");
      v.Become(1, src); }
    s.end(); }
  { s.begin("Become/pointer-constructible-before-bool");
    { nop::Variant<PN, bool> v; const char* src = "xy"; v.Become(1, src); s.expect(v.index() == 1 && g_live.empty() && v.get<bool>() && *v.get<bool>(), "model:Variant.index", "Variant<PN,bool>::Become(1, const char*): not a true bool, or a PN was constructed");
      v.Become(0, src); s.expect(v.index() == 0 && v.get<PN>() && v.get<PN>()->v == 2 && g_live.size() == 1, "model:Variant.index", "Become(0, const char*) does not hold PN(2) alone");
      BecomeSeen q; v.Visit(q); s.expect(q.calls == 1 && q.as_pn == 1 && q.ival == 2, "model:Variant.Visit-alternative", "Visit did not present the PN"); }
    s.end(); }
  { s.begin("Become/every-alternative-accepts-the-argument");
    for (int target = -2; target <= 4; target++) for (int from = -1; from <= 3; from++) {
      nop::Variant<int, TA, TB, PN> v; if (from >= 0) v.Become(from, 100 + from);
      v.Become(target, 7);
      const bool valid = target >= 0 && target <= 3; const int want_val = target == from ? 100 + from : 7;
      s.expect(v.index() == (valid ? target : -1), "model:Variant.index", fmt("Variant<int,A,B,PN> holding alternative %d, Become(%d, 7): index() = %d", from, target, v.index()));
      s.expect(g_live.size() == (size_t)(valid && target != 0), "registry:Variant.live-count", fmt("holding alternative %d, Become(%d, 7): %zu tracked elements alive", from, target, g_live.size()));
      BecomeSeen q; v.Visit(q); const int seen = q.as_empty ? -1 : q.as_int ? 0 : q.as_a ? 1 : q.as_b ? 2 : q.as_pn ? 3 : -9;
      s.expect(q.calls == 1 && seen == (valid ? target : -1), "model:Variant.Visit-alternative", fmt("holding alternative %d, Become(%d, 7): Visit presented alternative %d", from, target, seen));
      if (valid) s.expect(q.ival == want_val, "model:Variant.value", fmt("holding alternative %d, Become(%d, 7): the element's value is %d, expected %d", from, target, q.ival, want_val));
      s.expect((v.get<TB>() != nullptr) == (valid && target == 2) && (v.get<int>() != nullptr) == (valid && target == 0), "model:Variant.get", fmt("holding alternative %d, Become(%d, 7): get<T>() disagrees with index()", from, target));
    }
    s.end(); }
  { s.begin("assign-from-own-element");
    { V v(TA(42)); v = *v.get<TA>(); vchk(s, v, 0, "Variant after v = *v.get<A>()"); s.expect(v.get<TA>() && v.get<TA>()->v == 42 && g_live.size() == 1, "model:Variant.value", "after v = *v.get<A>() the Variant does not hold A(42) alone");
      v = std::move(*v.get<TA>()); vchk(s, v, 0, "Variant after v = std::move(*v.get<A>())"); s.expect(v.get<TA>() && v.get<TA>()->v == 42 && g_live.size() == 1, "model:Variant.value", "after v = std::move(*v.get<A>()) the value changed"); }
    { V v(std::string(100, 'q')); v = *v.get<std::string>(); s.expect(v.index() == 3 && *v.get<std::string>() == std::string(100, 'q'), "model:Variant.value", "after v = *v.get<string>() the string changed"); }
    s.end(); }
  // copies of Variants that have a bool alternative, from const and non-const lvalues and rvalues (a Variant must not be mistaken for a value of an alternative)
  { s.begin("copies-with-a-bool-alternative");
    { using VB = nop::Variant<int, bool, std::string, TA>;
      VB src(std::string("verbose")); const VB& csrc = src;
      VB a(src); VB b(csrc); VB c(VB(std::string("verbose"))); VB d; d = csrc; VB e; e = VB(std::string("verbose"));
      for (const VB* x : {&a, &b, &c, &d, &e}) s.expect(x->index() == 2 && x->get<std::string>() && *x->get<std::string>() == "verbose", "model:Variant.copy", fmt("a copy of Variant<int,bool,string,A> holding a string has index() %d", x->index()));
      VB t(TA(9)); VB t2(t); s.expect(t2.index() == 3 && t2.get<TA>() && t2.get<TA>()->v == 9 && g_live.size() == 2, "model:Variant.copy", fmt("copy (from a non-const lvalue) of a Variant<int,bool,string,A> holding A has index() %d", t2.index()));
      VB em; VB em2(em); s.expect(em2.empty(), "model:Variant.copy", fmt("copy (from a non-const lvalue) of an empty Variant<int,bool,string,A> has index() %d", em2.index()));
      VB bt(true); VB bt2(bt); s.expect(bt2.index() == 1 && *bt2.get<bool>() == true, "model:Variant.copy", "copy of a Variant holding bool true"); VB bf(false); VB bf2(bf); s.expect(bf2.index() == 1 && *bf2.get<bool>() == false, "model:Variant.copy", "copy of a Variant holding bool false is not bool false"); }
    s.end(); }
  // get<T>() / is<T>() with T spelled with another cv-qualification than the declaration: "a read-only pointer to the string, if that is what it holds"
  { s.begin("get-with-cv-spelling");
    { nop::Variant<int, std::string, TA> v(std::string("text")); const auto& cv = v;
      s.expect(v.is<const std::string>() && v.get<const std::string>() && *v.get<const std::string>() == "text", "model:Variant.get", "Variant<int,string,A> holding a string: get<const string>() is null or is<const string>() false");
      s.expect(cv.is<const std::string>() && cv.get<const std::string>() != nullptr, "model:Variant.get", "const Variant holding a string: get<const string>() is null");
      s.expect(!v.is<const int>() && v.get<const int>() == nullptr && v.get<const TA>() == nullptr, "model:Variant.get", "get<const T>() non-null for an inactive alternative");
      s.expect(v.get<volatile int>() == nullptr && !v.is<const volatile TA>(), "model:Variant.get", "get<volatile T>() non-null for an inactive alternative");
      v = TA(4); s.expect(v.is<const TA>() && v.get<const TA>() && v.get<const TA>()->v == 4 && cv.get<const TA>() == v.get<TA>(), "model:Variant.get", "Variant holding A: get<const A>() is null or is another object than get<A>()");
      s.expect(v.get<const std::string>() == nullptr, "model:Variant.get", "get<const string>() non-null after the Variant became A");
      v = 5; s.expect(v.is<const int>() && v.get<const int>() && *v.get<const int>() == 5, "model:Variant.get", "Variant holding int: get<const int>() is null");
      v = nop::EmptyVariant{}; s.expect(!v.is<const int>() && !v.get<const std::string>() && !v.get<const TA>(), "model:Variant.get", "get<const T>() non-null on an empty Variant"); }
    { nop::Variant<const std::string, int> v(std::string("k")); s.expect(v.index() == 0 && v.is<std::string>(), "model:Variant.get", "Variant<const string,int> holding the string: is<string>() is false");
      s.expect(v.is<const std::string>() && v.get<const std::string>() && *v.get<const std::string>() == "k", "model:Variant.get", "Variant<const string,int> holding the string: get<const string>() is null");
      s.expect(!v.is<int>() && !v.get<int>() && !v.get<const int>(), "model:Variant.get", "get<int>() non-null while the const string is active");
      v = 3; s.expect(v.is<int>() && v.get<int>() && !v.is<const std::string>() && !v.get<const std::string>(), "model:Variant.get", "Variant<const string,int> holding int: accessors disagree with index()"); }
    s.end(); }
}
static void variant_special() {
  variant_become_special();
  { Special s{"c12"};
    big_case<0>(s); big_case<1>(s); big_case<63>(s); big_case<64>(s); big_case<126>(s); big_case<127>(s); big_case<128>(s); big_case<129>(s);
    // an alternative with a constructor taking std::initializer_list of itself (a JSON-like recursive value): a copy must be a copy, not a one-element list
    { struct JV { std::vector<JV> items; int leaf = 0; JV() = default; JV(int l) : leaf(l) {} JV(std::initializer_list<JV> il) : items(il) {} bool operator==(const JV& o) const { return leaf == o.leaf && items == o.items; } };
      using VJ = nop::Variant<int, JV>;
      s.begin("initializer-list-alternative");
      { VJ v(JV{JV(1), JV(2)}); VJ c(v); VJ m(VJ(JV{JV(1), JV(2)})); VJ a; a = v;
        auto same = [](const VJ& x, const VJ& y) { const JV* p = x.get<JV>(); const JV* q = y.get<JV>(); return p && q && *p == *q; };
        s.expect(same(c, v), "model:Variant.copy", "a copy-constructed Variant does not compare equal to its source (alternative with an initializer_list constructor)");
        s.expect(same(m, v), "model:Variant.copy", "a move-constructed Variant does not hold the source's element (alternative with an initializer_list constructor)");
        s.expect(same(a, v), "model:Variant.copy", "a copy-assigned Variant does not compare equal to its source"); }
      s.end(); }
    // a named, stateful visitor passed as an lvalue is the object that gets called (exactly once)
    { struct Recorder { int calls = 0, last = -5; void operator()(nop::EmptyVariant) { calls++; last = -1; } void operator()(const TA&) { calls++; last = 0; } void operator()(const TB&) { calls++; last = 1; } void operator()(int) { calls++; last = 2; } void operator()(const std::string&) { calls++; last = 3; } };
      s.begin("lvalue-visitor");
      { V v; Recorder r0; v.Visit(r0); s.expect(r0.calls == 1 && r0.last == -1, "model:Variant.Visit-count", fmt("Visit(lvalue visitor) on an empty Variant: the visitor object was called %d times", r0.calls));
        v = 7; Recorder r1; v.Visit(r1); s.expect(r1.calls == 1 && r1.last == 2, "model:Variant.Visit-count", fmt("Visit(lvalue visitor) on Variant holding int: the visitor object was called %d times (last alternative %d)", r1.calls, r1.last));
        v = TA(3); Recorder r2; const V& cv = v; cv.Visit(r2); s.expect(r2.calls == 1 && r2.last == 0, "model:Variant.Visit-count", fmt("const Visit(lvalue visitor): the visitor object was called %d times", r2.calls));
        v = std::string("x"); Recorder r3; v.Visit(r3); v.Visit(r3); s.expect(r3.calls == 2 && r3.last == 3, "model:Variant.Visit-count", fmt("two Visit calls with one lvalue visitor: it was called %d times", r3.calls)); }
      s.end(); }
    using UV = nop::Variant<int, UCell>;
    s.begin("union-alternative");
    g_ucell_ctor = g_ucell_dtor = 0;
    { UV v; v.Become(1); s.expect(v.index() == 1, "model:Variant.index", "Become(1)"); v = nop::EmptyVariant{}; s.expect(g_ucell_ctor == g_ucell_dtor, "registry:Variant.union-alternative", fmt("after = EmptyVariant: %ld union elements constructed, %ld destroyed", g_ucell_ctor, g_ucell_dtor));
      v.Become(1); v = 5; s.expect(g_ucell_ctor == g_ucell_dtor, "registry:Variant.union-alternative", fmt("after assigning another alternative: %ld constructed, %ld destroyed", g_ucell_ctor, g_ucell_dtor));
      v.Become(1); v.Become(0); s.expect(g_ucell_ctor == g_ucell_dtor, "registry:Variant.union-alternative", fmt("after Become(other): %ld constructed, %ld destroyed", g_ucell_ctor, g_ucell_dtor));
      v.Become(1); UV c(v); UV m(std::move(c)); }
    s.expect(g_ucell_ctor == g_ucell_dtor, "registry:Variant.union-alternative", fmt("after destroying the Variants: %ld union elements constructed, %ld destroyed", g_ucell_ctor, g_ucell_dtor));
    s.end();
  }
  using S1 = nop::Variant<TA>; using VI = nop::Variant<int, TA>; using VW = nop::Variant<std::string, TA, int, TB>;   // VW: a wider list containing V's types in another order
  static const uint8_t pats[] = {0x00, 0x01, 0x7f, 0xaa, 0xff};
  Special s{"c12"};
  for (uint8_t pat : pats) {
    auto nm = [&](const char* n) { return fmt("%s/pattern-%02x", n, pat); };
    { s.begin(nm("default-construct")); Slab m(pat); V* p = new (m.b) V(); vchk(s, *p, -1, "Variant()"); p->~V(); s.end(); }
    { s.begin(nm("construct-EmptyVariant")); Slab m(pat); V* p = new (m.b) V(nop::EmptyVariant{}); vchk(s, *p, -1, "Variant(EmptyVariant)"); p->~V(); s.end(); }
    { s.begin(nm("copy-construct-from-empty")); Slab m(pat); V src; V* p = new (m.b) V(src); vchk(s, *p, -1, "copy of an empty Variant"); vchk(s, src, -1, "source"); p->~V(); s.end(); }
    { s.begin(nm("move-construct-from-empty")); Slab m(pat); V src; V* p = new (m.b) V(std::move(src)); vchk(s, *p, -1, "Variant moved from an empty Variant"); p->~V(); s.end(); }
    { s.begin(nm("copy-construct-from-A")); Slab m(pat); { V src(TA(5)); V* p = new (m.b) V(src); vchk(s, *p, 0, "copy"); s.expect(g_live.size() == 2, "registry:Variant.live-count", "copy of a Variant holding A: two elements must be alive"); if (auto* e = p->get<TA>()) s.expect(e->v == 5, "model:Variant.value", "copy differs from its source"); p->~V(); } s.end(); }
    { s.begin(nm("converting-copy-from-empty-Variant<int,A>")); Slab m(pat); VI src; V* p = new (m.b) V(src); vchk(s, *p, -1, "Variant<A,B,int,string>(const Variant<int,A>& empty)"); p->~V(); s.end(); }
    { s.begin(nm("converting-move-from-empty-Variant<int,A>")); Slab m(pat); VI src; V* p = new (m.b) V(std::move(src)); vchk(s, *p, -1, "Variant<A,B,int,string>(Variant<int,A>&& empty)"); p->~V(); s.end(); }
    { s.begin(nm("converting-copy-from-empty-wider-Variant")); Slab m(pat); V src; VW* p = new (m.b) VW(src); vchk(s, *p, -1, "Variant<string,A,int,B>(const Variant<A,B,int,string>& empty)"); p->~VW(); s.end(); }
    { s.begin(nm("converting-copy-from-A")); Slab m(pat); { VI src(TA(6)); V* p = new (m.b) V(src); vchk(s, *p, 0, "Variant<A,B,int,string>(Variant<int,A> holding A)"); s.expect(g_live.size() == 2, "registry:Variant.live-count", "two elements must be alive"); p->~V(); } s.end(); }
    { s.begin(nm("converting-move-from-A")); Slab m(pat); { VI src(TA(6)); V* p = new (m.b) V(std::move(src)); vchk(s, *p, 0, "Variant<A,B,int,string>(Variant<int,A>&& holding A)"); p->~V(); } s.end(); }
    { s.begin(nm("converting-assign-empty-over-A")); Slab m(pat); { V* p = new (m.b) V(TA(1)); VI src; *p = src; vchk(s, *p, -1, "Variant holding A after = empty Variant<int,A>"); s.expect(g_live.empty(), "registry:Variant.live-count", "the element must be destroyed"); p->~V(); } s.end(); }
    // single-alternative Variants: the terminal Union is the top level
    { s.begin(nm("single-alternative-copy-from-empty")); Slab m(pat); S1 src; S1* p = new (m.b) S1(src); vchk(s, *p, -1, "copy of an empty Variant<A>"); s.expect(g_live.empty(), "registry:Variant.live-count", "copying an empty Variant<A> constructed an element"); p->~S1(); s.end(); }
    { s.begin(nm("single-alternative-move-from-empty")); Slab m(pat); S1 src; S1* p = new (m.b) S1(std::move(src)); vchk(s, *p, -1, "Variant<A> moved from an empty one"); s.expect(g_live.empty(), "registry:Variant.live-count", "moving an empty Variant<A> constructed an element"); p->~S1(); s.end(); }
    { s.begin(nm("single-alternative-copy-from-A")); Slab m(pat); { S1 src(TA(3)); S1* p = new (m.b) S1(src); vchk(s, *p, 0, "copy of Variant<A> holding A"); s.expect(g_live.size() == 2, "registry:Variant.live-count", "two elements must be alive"); p->~S1(); } s.end(); }
    { s.begin(nm("single-alternative-swap")); { S1 x, y(TA(4)); std::swap(x, y); vchk(s, x, 0, "x after swap"); vchk(s, y, -1, "y after swap"); s.expect(g_live.size() == 1, "registry:Variant.live-count", fmt("%zu elements alive after swapping an empty and a non-empty Variant<A>", g_live.size())); } s.end(); }
    { s.begin(nm("single-alternative-vector-growth")); { std::vector<S1> vec; vec.emplace_back(); vec.emplace_back(TA(1)); for (int i = 0; i < 40; i++) vec.emplace_back(); size_t ne = 0; for (auto& e : vec) ne += !e.empty();
        s.expect(ne == 1 && vec[1].index() == 0, "model:Variant.index", "elements changed state while a vector of Variant<A> grew"); s.expect(g_live.size() == 1, "registry:Variant.live-count", fmt("%zu elements alive in a vector holding one non-empty Variant<A>", g_live.size())); } s.end(); }
    { s.begin(nm("single-alternative-int")); Slab m(pat); nop::Variant<int> src; auto* p = new (m.b) nop::Variant<int>(src); s.expect(p->index() == -1 && p->empty() && p->get<int>() == nullptr, "model:Variant.index", "copy of an empty Variant<int> is not empty"); p->~Variant(); s.end(); }
    { s.begin(nm("by-value-pass-and-return")); { auto f = [](S1 a, V b) { return std::make_pair(std::move(a), std::move(b)); }; auto pr = f(S1(), V()); vchk(s, pr.first, -1, "empty Variant<A> passed and returned by value"); vchk(s, pr.second, -1, "empty Variant passed and returned by value"); } s.end(); }
  }
}

// ------------------------------------------------------------------------------------------------ C13
template <typename OT> static void ochk(Special& s, const OT& x, bool has, const char* who) {
  s.expect(x.empty() == !has, "model:Optional.empty", fmt("%s: empty() = %d, expected %d", who, (int)x.empty(), (int)!has));
  s.expect((bool)x == has, "model:Optional.bool", fmt("%s: operator bool disagrees with the expected state", who));
}
template <typename RT> static void rchk(Special& s, const RT& x, int st, const char* who) {
  s.expect(x.has_value() == (st == 2) && x.has_error() == (st == 1) && (bool)x == (st == 2), "model:Result.state", fmt("%s: has_value/has_error/bool = %d/%d/%d, expected state %d", who, (int)x.has_value(), (int)x.has_error(), (int)(bool)x, st));
  if (st != 1) s.expect((int)x.error() == 0, "model:Result.error", fmt("%s: error() is not None although no error is held", who));
}
// invariant after an operation that threw: empty or exactly one alive value; the object is then destroyed by the caller
template <typename OT> static size_t oinv(Special& s, const OT& x, const char* who) {
  if (x.empty()) return 0;
  s.expect(x.get().alive(), "model:Optional.flag-without-value", fmt("%s reports a value after a throwing constructor, but no value was constructed", who)); return 1;
}
template <typename RT> static size_t rinv(Special& s, const RT& x, const char* who) {
  s.expect(!(x.has_value() && x.has_error()), "model:Result.state", fmt("%s reports both a value and an error", who));
  if (!x.has_value()) return 0;
  s.expect(x.get().alive(), "model:Result.flag-without-value", fmt("%s reports a value after a throwing constructor, but no value was constructed", who)); return 1;
}

// decoding into Optional / Entry / Result objects whose elements are tracked: the decoders construct, move and destroy elements themselves
template <typename T> static Bytes enc_of(const T& v) { Bytes b(256); nop::Serializer<nop::BufferWriter> ser{b.data(), b.size()}; auto st = ser.Write(v); if (!st) return {}; b.resize(ser.writer().size()); return b; }
template <typename T> static nop::Status<void> dec_into(const Bytes& b, T* dst) { ExactBuf eb(b.data(), b.size()); nop::Deserializer<nop::PedanticBufferReader> d{eb.p, b.size()}; return d.Read(dst); }
struct DecTab { nop::Entry<TA, 1> a; nop::Entry<O, 2> b; NOP_TABLE_HASH(77, DecTab, a, b); };
static void optional_decode_special(Special& s) {
  using OO = nop::Optional<O>;
  // bytes: engaged(engaged(5)), NIL, Result value / error / empty, a table with both entries
  Bytes oo5, o7, nil = {0xbe}, r3, rerr, tab;
  { OO x{nop::InPlace{}, O(TA(5))}; oo5 = enc_of(x); } { O x(TA(7)); o7 = enc_of(x); } { R x(TA(3)); r3 = enc_of(x); } { R x(E::Y); rerr = enc_of(x); }
  { DecTab t; t.a = TA(11); t.b = O(TA(12)); tab = enc_of(t); }
  g_live.clear(); g_fault.clear();
  for (int prior = 0; prior < 4; prior++) {
    static const char* const pn[] = {"fresh", "cleared-after-holding-a-value", "holding-another-value", "outer-engaged-inner-empty"};
    { s.begin(fmt("decode:Optional<Optional<T>>/%s", pn[prior])); { OO d; if (prior == 1) { d = OO{nop::InPlace{}, O(TA(1))}; d.clear(); } else if (prior == 2) d = OO{nop::InPlace{}, O(TA(2))}; else if (prior == 3) d = OO{nop::InPlace{}, O()};
        auto st = dec_into(oo5, &d); s.expect((bool)st, "model:Optional.decode", "reading a valid encoding failed");
        s.expect(!d.empty() && !d.get().empty() && d.get().get().alive() && d.get().get().v == 5, "model:Optional.decode-state", fmt("after decoding engaged(engaged(5)): outer %s, %s", d.empty() ? "empty" : "engaged", (!d.empty() && !d.get().empty()) ? "inner engaged" : "inner empty"));
        s.expect(g_live.size() == 1, "registry:Optional/Result.live-count", fmt("%zu tracked values alive after the decode, expected 1", g_live.size()));
        st = dec_into(nil, &d); s.expect((bool)st && d.empty() && g_live.empty(), "model:Optional.decode-state", "NIL decoded over a value must leave an empty Optional and no value alive");
        Bytes cut(oo5.begin(), oo5.end() - 1); if (prior == 2) d = OO{nop::InPlace{}, O(TA(2))}; st = dec_into(cut, &d); s.expect(!st, "model:Optional.decode", "truncated encoding accepted");
        size_t live = (!d.empty() && !d.get().empty()) ? 1 : 0; if (live) s.expect(d.get().get().alive(), "model:Optional.flag-without-value", "after a failed decode the Optional reports a value that is not alive");
        s.expect(g_live.size() == live, "registry:Optional/Result.live-count", fmt("%zu tracked values alive after a failed decode, the object holds %zu", g_live.size(), live)); }
      s.end(); }
    { s.begin(fmt("decode:Optional<T>/%s", pn[prior])); { O d; if (prior == 1) { d = TA(1); d.clear(); } else if (prior >= 2) d = TA(2);
        auto st = dec_into(o7, &d); s.expect((bool)st && !d.empty() && d.get().alive() && d.get().v == 7 && g_live.size() == 1, "model:Optional.decode-state", fmt("after decoding engaged(7): %s, %zu values alive", d.empty() ? "empty" : "engaged", g_live.size()));
        st = dec_into(nil, &d); s.expect((bool)st && d.empty() && g_live.empty(), "model:Optional.decode-state", "NIL decoded over a value must leave an empty Optional and no value alive"); }
      s.end(); }
    { s.begin(fmt("decode:Result<E,T>/%s", pn[prior])); { R d; if (prior == 1) { d = TA(1); d.clear(); } else if (prior == 2) d = TA(2); else if (prior == 3) d = E::X;
        auto st = dec_into(r3, &d); s.expect((bool)st && d.has_value() && d.get().alive() && d.get().v == 3 && g_live.size() == 1, "model:Result.decode-state", fmt("after decoding a value: has_value %d, %zu values alive", (int)d.has_value(), g_live.size()));
        st = dec_into(rerr, &d); s.expect((bool)st && d.has_error() && d.error() == E::Y && g_live.empty(), "model:Result.decode-state", fmt("an error decoded over a value: has_error %d, %zu values alive", (int)d.has_error(), g_live.size()));
        st = dec_into(r3, &d); s.expect((bool)st && d.has_value() && g_live.size() == 1, "model:Result.decode-state", "a value decoded over an error"); }
      s.end(); }
    { s.begin(fmt("decode:table-entries/%s", pn[prior])); { DecTab d; if (prior == 1) { d.a = TA(1); d.b = O(TA(2)); d.a.clear(); d.b.clear(); } else if (prior == 2) { d.a = TA(1); d.b = O(TA(2)); } else if (prior == 3) d.b = O();
        auto st = dec_into(tab, &d); s.expect((bool)st && !d.a.empty() && d.a.get().v == 11 && !d.b.empty() && !d.b.get().empty() && d.b.get().get().v == 12, "model:Entry.decode-state", "table entries did not decode to their values");
        s.expect(g_live.size() == 2, "registry:Optional/Result.live-count", fmt("%zu tracked values alive after decoding a table with two tracked entries", g_live.size())); }
      s.end(); }
  }
}

struct Greedy { int tag = 0; Greedy() = default; Greedy(const Greedy&) = default; Greedy(Greedy&&) = default; Greedy& operator=(const Greedy&) = default; Greedy& operator=(Greedy&&) = default; template <typename U, typename = std::enable_if_t<!std::is_same<std::decay_t<U>, Greedy>::value>> Greedy(U&&) : tag(99) {} };
// Result<E, void> / Status<void>: the value-less specialisation is its own class; every operation over every pair of states (no error, error X, error Y)
template <typename RV, typename Err> static void void_result_pairs(Special& s, const char* tn, Err none, Err x, Err y) {
  const Err states[3] = {none, x, y};
  auto state_ok = [&](const RV& r, Err want) { return r.error() == want && r.has_error() == (want != none) && (bool)r == (want == none); };
  s.begin(fmt("%s/all-state-pairs", tn));
  for (Err d0 : states) for (Err s0 : states) {
    const std::string w = fmt("%s: destination state %d, source state %d", tn, (int)d0, (int)s0);
    { RV src(s0); RV dst(d0); dst = std::move(src); s.expect(state_ok(dst, s0), "model:Result.move-assign", w + ": after dst = std::move(src) the destination does not report the source's state");
      s.expect(state_ok(src, none), "model:Result.moved-from", w + fmt(": after dst = std::move(src) the source reports error %d instead of none", (int)src.error())); }
    { RV src(s0); RV dst(d0); dst = src; s.expect(state_ok(dst, s0) && state_ok(src, s0), "model:Result.copy-assign", w + ": after dst = src the two do not both report the source's state"); }
    { RV src(s0); RV dst(std::move(src)); s.expect(state_ok(dst, s0), "model:Result.move-construct", w + ": move-constructed object does not report the source's state"); s.expect(state_ok(src, none), "model:Result.moved-from", w + ": the source of a move construction still reports an error"); }
    { RV src(s0); RV dst(src); s.expect(state_ok(dst, s0) && state_ok(src, s0), "model:Result.copy-construct", w + ": copy differs from the source"); }
    { RV dst(d0); dst = s0; s.expect(state_ok(dst, s0), "model:Result.assign-error", w + ": after dst = error the destination reports something else"); dst.clear(); s.expect(state_ok(dst, none), "model:Result.clear", w + ": clear() left an error"); }
    { RV a(d0); RV& alias = a; a = std::move(alias); s.expect(state_ok(a, d0), "model:Result.self-move", w + ": self move-assignment changed the state"); a = alias; s.expect(state_ok(a, d0), "model:Result.self-copy", w + ": self copy-assignment changed the state"); }
    { RV a(d0), b(s0); std::swap(a, b); s.expect(state_ok(a, s0) && state_ok(b, d0), "model:Result.swap", w + ": std::swap did not exchange the states"); }
    { std::vector<RV> vec; vec.emplace_back(d0); vec.emplace_back(s0); for (int i = 0; i < 20; i++) vec.emplace_back(); s.expect(state_ok(vec[0], d0) && state_ok(vec[1], s0) && state_ok(vec[21], none), "model:Result.vector-growth", w + ": states changed while a vector grew"); }
  }
  s.end();
}
static void optional_special() {
  Special s{"c13"};
  optional_decode_special(s);
  void_result_pairs<nop::Result<E, void>, E>(s, "Result<E,void>", E::None, E::X, E::Y);
  void_result_pairs<nop::Status<void>, nop::ErrorStatus>(s, "Status<void>", nop::ErrorStatus::None, nop::ErrorStatus::IOError, nop::ErrorStatus::ReadLimitReached);
  // assignment from a reference to the object's own element (r = r.get(), a helper Store(&r, r.get()), o = std::move(o.get())): the element the
  // argument refers to must not be destroyed before it is read
  { s.begin("assign-from-own-element");
    { R r(TA(42)); r = r.get(); rchk(s, r, 2, "Result after r = r.get()"); s.expect(r.get().v == 42 && g_live.size() == 1, "model:Result.value", fmt("after r = r.get() the Result holds %d (%zu elements alive), expected 42", r.has_value() ? r.get().v : -1, g_live.size()));
      r = std::move(r.get()); rchk(s, r, 2, "Result after r = std::move(r.get())"); s.expect(r.get().v == 42 && g_live.size() == 1, "model:Result.value", fmt("after r = std::move(r.get()) the Result holds %d, expected 42", r.has_value() ? r.get().v : -1));
      const TA& alias = r.get(); r = alias; s.expect(r.has_value() && r.get().v == 42, "model:Result.value", "after r = (const T& alias of its own value) the value changed"); }
    { ST st(TA(41)); st = st.get(); rchk(s, st, 2, "Status after st = st.get()"); s.expect(st.get().v == 41 && g_live.size() == 1, "model:Result.value", "after st = st.get() the Status<T> does not hold its value"); }
    { O o(TA(43)); o = o.get(); ochk(s, o, true, "Optional after o = o.get()"); s.expect(o.get().v == 43 && g_live.size() == 1, "model:Optional.value", fmt("after o = o.get() the Optional holds %d, expected 43", o.get().v));
      o = std::move(o.get()); ochk(s, o, true, "Optional after o = std::move(o.get())"); s.expect(o.get().v == 43 && g_live.size() == 1, "model:Optional.value", "after o = std::move(o.get()) the value changed"); }
    { En e(TA(44)); e = e.get(); ochk(s, e, true, "Entry after e = e.get()"); s.expect(e.get().v == 44 && g_live.size() == 1, "model:Optional.value", "after e = e.get() the Entry does not hold its value"); }
    { nop::Result<E, std::string> r(std::string(100, 'r')); r = r.get(); s.expect(r.has_value() && r.get() == std::string(100, 'r'), "model:Result.value", "Result<E,string>: r = r.get() changed the string"); }   // (no r = std::move(r.get()) for std::string: a self-move-assigned string is valid but unspecified)
    s.end(); }
  static const uint8_t pats[] = {0x00, 0x01, 0x7f, 0xaa, 0xff};
  for (uint8_t pat : pats) {
    auto nm = [&](const char* n) { return fmt("%s/pattern-%02x", n, pat); };
    { s.begin(nm("Optional-default")); Slab m(pat); O* p = new (m.b) O(); ochk(s, *p, false, "Optional()"); p->~O(); s.end(); }
    { s.begin(nm("Optional-copy-from-empty")); Slab m(pat); O src; O* p = new (m.b) O(src); ochk(s, *p, false, "copy of an empty Optional"); p->~O(); s.end(); }
    { s.begin(nm("Optional-move-from-empty")); Slab m(pat); O src; O* p = new (m.b) O(std::move(src)); ochk(s, *p, false, "Optional moved from an empty one"); p->~O(); s.end(); }
    { s.begin(nm("Optional-converting-from-empty")); Slab m(pat); OI src; O* p = new (m.b) O(); *p = src; ochk(s, *p, false, "Optional<A> = empty Optional<int>"); *p = OI(3); ochk(s, *p, true, "Optional<A> = Optional<int>(3)"); *p = OI(); ochk(s, *p, false, "Optional<A> = empty Optional<int> over a value"); p->~O(); s.end(); }
    { s.begin(nm("Optional-int-copy-from-empty")); Slab m(pat); OI src; OI* p = new (m.b) OI(src); ochk(s, *p, false, "copy of an empty Optional<int>"); OI* q = new (m.b + 256) OI(std::move(*p)); ochk(s, *q, false, "Optional<int> moved from an empty one"); s.end(); }
    { s.begin(nm("Optional-value")); Slab m(pat); { O* p = new (m.b) O(TA(9)); ochk(s, *p, true, "Optional(A)"); s.expect(p->get().v == 9, "model:Optional.value", "wrong value"); O* q = new (m.b + 256) O(*p); ochk(s, *q, true, "copy"); s.expect(g_live.size() == 2, "registry:Optional/Result.live-count", "two values must be alive"); q->~O(); p->~O(); } s.end(); }
    { s.begin(nm("Entry-default-and-copies")); Slab m(pat); En* p = new (m.b) En(); ochk(s, *p, false, "Entry()"); En* q = new (m.b + 256) En(*p); ochk(s, *q, false, "copy of an empty Entry"); q->~En(); p->~En(); s.end(); }
    { s.begin(nm("DeletedEntry")); Slab m(pat); using DE = nop::Entry<TA, 7, nop::DeletedEntry>; DE* p = new (m.b) DE(); s.expect(p->empty() && !(bool)*p, "model:Entry.deleted-not-empty", "a deleted entry is not empty"); p->~DE(); s.end(); }
    { s.begin(nm("Result-default")); Slab m(pat); R* p = new (m.b) R(); rchk(s, *p, 0, "Result()"); p->~R(); s.end(); }
    { s.begin(nm("Result-None")); Slab m(pat); R* p = new (m.b) R(E::None); rchk(s, *p, 0, "Result(None)"); p->~R(); s.end(); }
    { s.begin(nm("Result-error")); Slab m(pat); R* p = new (m.b) R(E::Y); rchk(s, *p, 1, "Result(error)"); s.expect(p->error() == E::Y, "model:Result.error", "wrong error"); R* q = new (m.b + 256) R(*p); rchk(s, *q, 1, "copy of an error Result"); s.expect(q->error() == E::Y, "model:Result.error", "copy holds another error"); q->~R(); p->~R(); s.end(); }
    { s.begin(nm("Result-copy-move-from-empty")); Slab m(pat); R src; R* p = new (m.b) R(src); rchk(s, *p, 0, "copy of an empty Result"); R* q = new (m.b + 256) R(std::move(src)); rchk(s, *q, 0, "Result moved from an empty one"); q->~R(); p->~R(); s.end(); }
    { s.begin(nm("Result-move-from-value")); Slab m(pat); { R src(TA(2)); R* p = new (m.b) R(std::move(src)); rchk(s, *p, 2, "Result moved from a value"); rchk(s, src, 0, "moved-from Result"); p->~R(); } s.end(); }
    { s.begin(nm("Result-int")); Slab m(pat); RI* p = new (m.b) RI(); rchk(s, *p, 0, "Result<E,int>()"); RI* q = new (m.b + 256) RI(*p); rchk(s, *q, 0, "copy of an empty Result<E,int>"); s.end(); }
    { s.begin(nm("Status")); Slab m(pat); ST* p = new (m.b) ST(); s.expect(!p->has_value() && !p->has_error(), "model:Status.state", "default Status<T> is not empty"); ST* q = new (m.b + 256) ST(nop::ErrorStatus::IOError); s.expect(q->has_error() && q->error() == nop::ErrorStatus::IOError, "model:Status.state", "Status(error) does not hold that error"); q->~ST(); p->~ST(); s.end(); }
    { s.begin(nm("Status-void")); Slab m(pat); using SV = nop::Status<void>; SV* p = new (m.b) SV(); s.expect((bool)*p && !p->has_error() && p->error() == nop::ErrorStatus::None, "model:Status.state", "default Status<void> is not success"); SV* q = new (m.b + 256) SV(std::move(*p)); s.expect((bool)*q, "model:Status.state", "moved Status<void>"); s.end(); }
  }
  // copies from a non-const lvalue (a constructor template taking U&& is a better match than the copy constructor there) for element types that are
  // constructible from the Result / Optional itself: bool (explicit operator bool) and a type with an unconstrained converting constructor
  {
    s.begin("copy-from-non-const-lvalue");
    { using RB = nop::Result<E, bool>; RB err(E::X), empty, vf(false), vt(true);
      RB c1(err); s.expect(c1.has_error() && c1.error() == E::X && !c1.has_value(), "model:Result.copy", "copy of a non-const Result<E,bool> holding an error does not hold that error");
      RB c2(empty); s.expect(!c2.has_error() && !c2.has_value(), "model:Result.copy", "copy of an empty non-const Result<E,bool> is not empty");
      RB c3(vf); s.expect(c3.has_value() && c3.get() == false, "model:Result.copy", "copy of a non-const Result<E,bool> holding false does not hold false");
      RB c4(vt); s.expect(c4.has_value() && c4.get() == true, "model:Result.copy", "copy of a non-const Result<E,bool> holding true does not hold true");
      RB a1; a1 = err; s.expect(a1.has_error() && a1.error() == E::X, "model:Result.copy", "copy assignment from a non-const Result<E,bool> holding an error");
      RB m1(std::move(err)); s.expect(m1.has_error() && m1.error() == E::X, "model:Result.copy", "move construction from a Result<E,bool> holding an error"); }
    { using RG = nop::Result<E, Greedy>; RG err(E::Y), empty; Greedy g; g.tag = 5; RG val(g);
      RG c1(err); s.expect(c1.has_error() && c1.error() == E::Y, "model:Result.copy", "copy of a non-const Result<E,T> (T constructible from anything) holding an error");
      RG c2(empty); s.expect(!c2.has_error() && !c2.has_value(), "model:Result.copy", "copy of an empty non-const Result<E,T> (T constructible from anything)");
      RG c3(val); s.expect(c3.has_value() && c3.get().tag == 5, "model:Result.copy", "copy of a non-const Result<E,T> (T constructible from anything) holding a value"); }
    { using OB = nop::Optional<bool>; OB e, f(false), t(true); OB c1(e), c2(f), c3(t); s.expect(c1.empty() && !c2.empty() && c2.get() == false && !c3.empty() && c3.get() == true, "model:Optional.copy", fmt("copy of a non-const Optional<bool> differs from its source: copy of empty is %s, copy of false is %s, copy of true is %s", c1.empty() ? "empty" : (c1.get() ? "true" : "false"), c2.empty() ? "empty" : (c2.get() ? "true" : "false"), c3.empty() ? "empty" : (c3.get() ? "true" : "false")));
      OB a1(true), a2, a3; a1 = e; a2 = f; a3 = t; s.expect(a1.empty() && !a2.empty() && a2.get() == false && !a3.empty() && a3.get() == true, "model:Optional.copy", "copy assignment from a non-const Optional<bool> differs from its source");
      OB m1(std::move(e)), m2(std::move(f)); s.expect(m1.empty() && !m2.empty() && m2.get() == false, "model:Optional.copy", "move construction from an Optional<bool> differs from its source");
      nop::Entry<bool, 3> en, ent(true); OB fe(en), ft(ent); s.expect(fe.empty() && !ft.empty() && ft.get() == true, "model:Optional.copy", "Optional<bool> copied from a non-const Entry<bool> differs from it");
      nop::Entry<bool, 3> ec(en), ec2(ent); s.expect(ec.empty() && !ec2.empty() && ec2.get() == true, "model:Entry.copy", "copy of a non-const Entry<bool> differs from its source");
      nop::Optional<Greedy> ge; Greedy g5; g5.tag = 5; nop::Optional<Greedy> gv(g5); nop::Optional<Greedy> gc1(ge), gc2(gv); s.expect(gc1.empty() && !gc2.empty() && gc2.get().tag == 5, "model:Optional.copy", "copy of a non-const Optional<T> (T constructible from anything) differs from its source");
      using SB = nop::Status<bool>; SB se(nop::ErrorStatus::IOError), sv(false); SB d1(se), d2(sv); s.expect(d1.has_error() && d1.error() == nop::ErrorStatus::IOError && d2.has_value() && d2.get() == false, "model:Status.copy", "copy of a non-const Status<bool> differs from its source"); }
    s.end(); }
  // throwing element constructors inside assigning operations
  for (int prior = 0; prior < 2; prior++) for (int inj = 0; inj < 3; inj++) for (int op = 0; op < 14; op++) {
    static const char* const names[] = {"opt = T&&", "opt = const T&", "opt = Optional(copy)", "opt = Optional&&", "opt = Optional<int>", "entry = T&&", "entry = const T&", "entry = Entry(copy)", "opt = entry", "res = T&&", "res = const T&", "res = Result(copy)", "res = Result&&", "status = T&&"};
    s.begin(fmt("throwing-constructor:%s/%s/throw@%d", names[op], prior ? "engaged" : "empty", inj));
    size_t live_expected = 0;
    {
      O o; En en; R r; ST st; O osrc(TA(40)); En esrc; esrc = TA(41); R rsrc(TA(42)); OI oisrc(43); TA lv(44);
      if (prior) { o = TA(1); en = TA(2); r = TA(3); st = TA(4); }
      bool threw = false;
      g_throw_in = inj;
      try {
        switch (op) {
          case 0: o = TA(50); break; case 1: o = lv; break; case 2: o = osrc; break; case 3: o = std::move(osrc); break; case 4: o = oisrc; break;
          case 5: en = TA(51); break; case 6: en = lv; break; case 7: en = esrc; break; case 8: o = esrc; break;
          case 9: r = TA(52); break; case 10: r = lv; break; case 11: r = rsrc; break; case 12: r = std::move(rsrc); break; case 13: st = TA(53); break;
        }
      } catch (const CtorThrow&) { threw = true; }
      g_throw_in = -1;
      if (threw) rep().count("c13_injected_constructor_exceptions");
      live_expected = oinv(s, o, "the Optional") + oinv(s, en, "the Entry") + rinv(s, r, "the Result") + oinv(s, osrc, "the source Optional") + oinv(s, esrc, "the source Entry") + rinv(s, rsrc, "the source Result") + (st.has_value() ? 1 : 0) + 1 /* lv */;
      if (st.has_value()) s.expect(st.get().alive(), "model:Status.flag-without-value", "the Status reports a value that was never constructed");
      s.expect(g_live.size() == live_expected, "registry:Optional/Result.live-count", fmt("%zu tracked values alive, the objects report %zu%s", g_live.size(), live_expected, threw ? " (after a throwing constructor)" : ""));
    }
    s.end(0);
  }
}
