// Engine `life`: shadow-model interpreters over operation histories.
//   C12  Variant: exactly one live alternative or none
//   C13  Optional / Entry / Result / Status state + lifetime consistency, comparison total order, error messages
//   C15  UniqueHandle closes exactly once (ownership histories) + out-of-band handle transfer over handle-bearing types
// Histories: every sequence up to a bounded length over a concrete operation alphabet (exhaustive), random beyond.
#define VF_RT_MAIN
#include <memory>
#include <set>
#include <stdexcept>
#include <unordered_map>
#include "vlib/ops.h"
#include "ref/mutate.h"
#include <nop/types/file_handle.h>
#include <sys/stat.h>
#include <sys/wait.h>

using namespace vf;
namespace vf { std::vector<TypeOps>& registry() { static std::vector<TypeOps> r; return r; } }

// ---------------------------------------------------------------- interposed close(2)
// Counts the close() calls made on one watched descriptor and can answer one of them with EINTR *after* really closing the descriptor - which
// is what Linux does: the descriptor is released even when close() is interrupted, so closing "again" closes whatever reuses the number.
#include <sys/syscall.h>
static int g_close_watch_fd = -1, g_close_calls = 0; static bool g_close_inject_eintr = false;
extern "C" int close(int fd) {
  long r = syscall(SYS_close, fd);
  if (fd >= 0 && fd == g_close_watch_fd) { g_close_calls++; if (g_close_inject_eintr) { g_close_inject_eintr = false; errno = EINTR; return -1; } }
  return (int)r;
}

// ---------------------------------------------------------------- lifetime registry
static std::set<const void*> g_live;
static long g_births = 0, g_deaths = 0;
static int g_throw_in = -1;                 // countdown: the n-th tracked construction from now throws
static std::string g_fault;                 // first registry fault observed (reported by the interpreter)
static void fault(const char* m) { if (g_fault.empty()) g_fault = m; }
struct CtorThrow : std::runtime_error { CtorThrow() : std::runtime_error("ctor") {} };

template <int Tag> struct Tr {
  int v; unsigned magic;
  void born() { if (!g_live.insert(this).second) fault("object constructed over a live object"); magic = 0xA11CE000u + Tag; g_births++; }
  static void maybe_throw() { if (g_throw_in == 0) { g_throw_in = -1; throw CtorThrow(); } if (g_throw_in > 0) g_throw_in--; }
  Tr() : v(0) { maybe_throw(); born(); }
  Tr(int x) : v(x) { maybe_throw(); born(); }
  Tr(const Tr& o) : v(o.v) { o.chk(); maybe_throw(); born(); }
  Tr(Tr&& o) : v(o.v) { o.chk(); maybe_throw(); o.v = -777; born(); }
  Tr& operator=(const Tr& o) { chk(); o.chk(); v = o.v; return *this; }
  Tr& operator=(Tr&& o) { chk(); o.chk(); v = o.v; if (&o != this) o.v = -777; return *this; }
  ~Tr() { if (magic != 0xA11CE000u + Tag || g_live.erase(this) != 1) fault("destruction of an object that is not alive (double destruction)"); magic = 0xDEAD; g_deaths++; }
  bool alive() const { return magic == 0xA11CE000u + Tag && g_live.count(this); }
  void chk() const { if (!alive()) fault("use of a dead object"); }
  bool operator==(const Tr& o) const { chk(); o.chk(); return v == o.v; }
  bool operator!=(const Tr& o) const { return !(*this == o); }
  bool operator<(const Tr& o) const { chk(); o.chk(); return v < o.v; }
  bool operator>(const Tr& o) const { return o < *this; }
  bool operator<=(const Tr& o) const { return !(o < *this); }
  bool operator>=(const Tr& o) const { return !(*this < o); }
  NOP_STRUCTURE(Tr, v);      // serializable (the value only), so that the decoders' construct / move / destroy traffic is visible to the registry
};
using TA = Tr<0>;
struct CSrc { int v; };                      // converts to TB only
struct TB : Tr<1> { using Tr<1>::Tr; TB() = default; TB(const CSrc& c) : Tr<1>(c.v) {} };

struct OpRec { int op, a, b, x, inj; };
static std::string seq_json(const std::vector<OpRec>& s, const char* const* names) {
  std::string o = "["; for (size_t i = 0; i < s.size(); i++) { if (i) o += ","; o += fmt("\"%s(a=%d,b=%d,x=%d%s)\"", names[s[i].op], s[i].a, s[i].b, s[i].x, s[i].inj >= 0 ? fmt(",throw@%d", s[i].inj).c_str() : ""); } return o + "]";
}

// =================================================================== Variant (C12)
using V = nop::Variant<TA, TB, int, std::string>;
using VO = nop::Variant<int, TA>;            // a different Variant type for cross-type construction/assignment
struct VM { int idx = -1; int val = 0; bool known = true; };
enum VOp { V_ASSIGN_A, V_ASSIGN_B, V_ASSIGN_INT, V_ASSIGN_STR, V_ASSIGN_EMPTY, V_COPY_ASSIGN, V_MOVE_ASSIGN, V_BECOME, V_COPY_CTOR, V_MOVE_CTOR, V_RECREATE, V_CONV_CSTR, V_CONV_CSRC,
           V_CROSS_ASSIGN, V_CROSS_CTOR, V_MUTATE, V_ANYOF_GET, V_ANYOF_TAKE, V_ANYOF_SWAP, V_LVALUE_ASSIGN_A, V_EMPTY_CTOR, V_NOPS };
static const char* const kVNames[] = {"assign A", "assign B", "assign int", "assign string", "assign EmptyVariant", "copy-assign", "move-assign", "Become", "copy-construct", "move-construct", "destroy+construct(A)",
                                      "assign const char*", "assign CSrc(->B)", "assign Variant<int,A>", "construct from Variant<int,A>", "mutate via get<A>", "IfAnyOf::Get", "IfAnyOf::Take", "IfAnyOf::Swap", "assign lvalue A", "construct(EmptyVariant)"};

static int elem_val(const TA& a) { a.chk(); return a.v; } static int elem_val(const TB& b) { b.chk(); return b.v; } static int elem_val(int i) { return i; }
static int elem_val(const std::string& s) { return (int)s.size(); } static int elem_val(nop::EmptyVariant) { return -999; }
static int elem_idx(const TA&) { return 0; } static int elem_idx(const TB&) { return 1; } static int elem_idx(int) { return 2; } static int elem_idx(const std::string&) { return 3; } static int elem_idx(nop::EmptyVariant) { return -1; }

struct VariantRun {
  static const int N = 2;
  V* v[N]; VM m[N];
  std::string err;
  void fail(const std::string& key, const std::string& what) { if (err.empty()) err = key + "|" + what; }
  VariantRun() { for (int i = 0; i < N; i++) v[i] = new V(); }
  ~VariantRun() { for (int i = 0; i < N; i++) delete v[i]; }
  void check(const V& x, const VM& mm, const char* who) {
    if (x.index() != mm.idx) { fail("model:Variant.index", fmt("%s: index() = %d, model says %d", who, x.index(), mm.idx)); return; }
    if (x.empty() != (mm.idx == -1)) fail("model:Variant.empty", "empty() disagrees with index()");
    int calls = 0, vidx = -2, vval = 0; x.Visit([&](const auto& e) { calls++; vidx = elem_idx(e); vval = elem_val(e); });
    if (calls != 1) fail("model:Variant.Visit-count", fmt("Visit invoked the visitor %d times", calls));
    if (vidx != mm.idx) fail("model:Variant.Visit-alternative", fmt("Visit passed alternative %d, index() is %d", vidx, mm.idx));
    if ((x.get<TA>() != nullptr) != (mm.idx == 0) || (x.get<TB>() != nullptr) != (mm.idx == 1) || (x.get<int>() != nullptr) != (mm.idx == 2) || (x.get<std::string>() != nullptr) != (mm.idx == 3))
      fail("model:Variant.get", "get<T>() non-null for an inactive alternative or null for the active one");
    if ((x.get<0>() != nullptr) != (mm.idx == 0) || (x.get<3>() != nullptr) != (mm.idx == 3)) fail("model:Variant.get-by-index", "get<I>() disagrees with index()");
    if (x.is<TA>() != (mm.idx == 0) || x.is<std::string>() != (mm.idx == 3)) fail("model:Variant.is", "is<T>() disagrees with index()");
    if (mm.idx >= 0 && mm.known && vval != mm.val) fail("model:Variant.value", fmt("%s: element value %d, model says %d (alternative %d)", who, vval, mm.val, mm.idx));
  }
  void audit() {
    size_t expect = 0; for (int i = 0; i < N; i++) if (m[i].idx == 0 || m[i].idx == 1) expect++;
    if (g_live.size() != expect) fail("registry:Variant.live-count", fmt("%zu tracked elements alive, the variants hold %zu", g_live.size(), expect));
    if (!g_fault.empty()) { fail(std::string("registry:Variant:") + g_fault, g_fault); g_fault.clear(); }
  }
  static void moved_from(VM& s) { if (s.idx == 0 || s.idx == 1) { s.val = -777; } else if (s.idx == 3) s.known = false; }
  void step(const OpRec& o) {
    int a = o.a, b = o.b, x = o.x; g_throw_in = o.inj;
    VM before_b = m[b];
    bool threw = false;
    try {
      switch (o.op) {
        case V_ASSIGN_A: *v[a] = TA(x); m[a] = {0, x, true}; break;
        case V_ASSIGN_B: *v[a] = TB(x); m[a] = {1, x, true}; break;
        case V_ASSIGN_INT: *v[a] = x; m[a] = {2, x, true}; break;
        case V_ASSIGN_STR: *v[a] = std::string((size_t)(x % 7), 's'); m[a] = {3, x % 7, true}; break;
        case V_ASSIGN_EMPTY: *v[a] = nop::EmptyVariant{}; m[a] = {-1, 0, true}; break;
        case V_COPY_ASSIGN: *v[a] = *v[b]; m[a] = m[b]; break;
        case V_MOVE_ASSIGN: { *v[a] = std::move(*v[b]); VM src = m[b]; if (a != b) { m[a] = src; moved_from(m[b]); } else if (src.idx == 3) m[a].known = false; } break;
        case V_BECOME: { int t = x; v[a]->Become(t); if (t != m[a].idx) { if (t >= 0 && t < 4) m[a] = {t, 0, true}; else m[a] = {-1, 0, true}; } } break;
        case V_COPY_CTOR: { V tmp(*v[b]); check(tmp, m[b], "copy"); bool eq = tmp.index() == v[b]->index(); if (!eq) fail("model:Variant.copy", "a copy differs from its source"); } break;
        case V_MOVE_CTOR: { V tmp(std::move(*v[b])); VM tm = m[b]; check(tmp, tm, "move-constructed"); moved_from(m[b]); } break;
        case V_RECREATE: { delete v[a]; v[a] = nullptr; m[a] = {-1, 0, true}; v[a] = new V(TA(x)); m[a] = {0, x, true}; } break;
        case V_CONV_CSTR: { const char* s = "abc"; *v[a] = s; m[a] = {3, 3, true}; } break;
        case V_CONV_CSRC: { CSrc c{x}; *v[a] = c; m[a] = {1, x, true}; } break;
        case V_CROSS_ASSIGN: { VO ov; if (x & 1) ov = TA(x); else if (x & 2) ov = x; *v[a] = ov; m[a] = (x & 1) ? VM{0, x, true} : (x & 2) ? VM{2, x, true} : VM{-1, 0, true}; } break;
        case V_CROSS_CTOR: { VO ov; if (x & 1) ov = TA(x); else ov = x; V tmp(ov);
          // which alternative a cross-type construction from an int selects when several are constructible from int is not
          // part of the property: only the invariant is checked for that case
          VM tm = (x & 1) ? VM{0, x, true} : VM{tmp.index(), 0, false}; if (tmp.empty()) fail("model:Variant.cross-construct", "construction from a non-empty Variant<int,A> gave an empty Variant"); check(tmp, tm, "cross-constructed"); } break;
        case V_MUTATE: if (auto* p = v[a]->get<TA>()) { p->v = x; m[a].val = x; m[a].known = true; } break;
        case V_ANYOF_GET: { int out = -5; bool r = nop::IfAnyOf<int>::Get(v[a], &out); if (r != (m[a].idx == 2) || (r && m[a].known && out != m[a].val)) fail("model:Variant.IfAnyOf::Get", "IfAnyOf<int>::Get disagrees with the active alternative"); } break;
        case V_ANYOF_TAKE: { std::string out; bool r = nop::IfAnyOf<std::string>::Take(v[a], &out); if (r != (m[a].idx == 3)) fail("model:Variant.IfAnyOf::Take", "IfAnyOf<string>::Take disagrees with the active alternative"); if (r) m[a].known = false; } break;
        case V_ANYOF_SWAP: { int out = x; bool r = nop::IfAnyOf<int, std::string>::Call(v[a], [](const auto&) {}); if (r != (m[a].idx == 2 || m[a].idx == 3)) fail("model:Variant.IfAnyOf::Call", "IfAnyOf<int,string>::Call disagrees with the active alternative"); bool r2 = nop::IfAnyOf<int>::Swap(v[a], &out); if (r2) { if (m[a].idx != 2) fail("model:Variant.IfAnyOf::Swap", "Swap hit an inactive alternative"); m[a].val = x; m[a].known = true; } } break;
        case V_LVALUE_ASSIGN_A: { TA t(x); *v[a] = t; m[a] = {0, x, true}; } break;
        case V_EMPTY_CTOR: { V tmp{nop::EmptyVariant{}}; check(tmp, VM{-1, 0, true}, "EmptyVariant-constructed"); } break;
      }
    } catch (const CtorThrow&) {
      threw = true;
      // property-level expectation after a throwing element constructor: the variant is empty or holds exactly one
      // live element of the type index() names; nothing leaked. Values are no longer predicted.
      if (v[a] == nullptr) { v[a] = new V(); m[a] = {-1, 0, true}; }
      m[a].idx = v[a]->index(); m[a].known = false;
      if (o.op == V_MOVE_ASSIGN || o.op == V_MOVE_CTOR) { m[b].idx = v[b]->index(); m[b].known = false; }
      (void)before_b;
    }
    g_throw_in = -1;
    if (threw) rep().count("c12_injected_constructor_exceptions");
    for (int i = 0; i < N; i++) check(*v[i], m[i], "after op");
    audit();
  }
};

static std::vector<OpRec> variant_alphabet() {
  std::vector<OpRec> al;
  for (int a = 0; a < VariantRun::N; a++) {
    int b = 1 - a;
    for (int op : {V_ASSIGN_A, V_ASSIGN_B, V_ASSIGN_INT, V_ASSIGN_STR, V_CONV_CSRC, V_LVALUE_ASSIGN_A}) { al.push_back({op, a, a, 5, -1}); }
    for (int op : {V_ASSIGN_A, V_ASSIGN_B, V_CONV_CSRC, V_LVALUE_ASSIGN_A}) for (int inj : {0, 1}) al.push_back({op, a, a, 6, inj});
    al.push_back({V_ASSIGN_EMPTY, a, a, 0, -1});
    al.push_back({V_COPY_ASSIGN, a, b, 0, -1}); al.push_back({V_COPY_ASSIGN, a, a, 0, -1}); al.push_back({V_COPY_ASSIGN, a, b, 0, 0});
    al.push_back({V_MOVE_ASSIGN, a, b, 0, -1}); al.push_back({V_MOVE_ASSIGN, a, a, 0, -1}); al.push_back({V_MOVE_ASSIGN, a, b, 0, 0});
    for (int t = -2; t <= 5; t++) al.push_back({V_BECOME, a, a, t, -1});
    al.push_back({V_BECOME, a, a, 0, 0}); al.push_back({V_BECOME, a, a, 1, 0});
    al.push_back({V_COPY_CTOR, a, a, 0, -1}); al.push_back({V_COPY_CTOR, a, a, 0, 0}); al.push_back({V_MOVE_CTOR, a, a, 0, -1}); al.push_back({V_MOVE_CTOR, a, a, 0, 0});
    al.push_back({V_RECREATE, a, a, 9, -1}); al.push_back({V_RECREATE, a, a, 9, 1});
    al.push_back({V_CONV_CSTR, a, a, 0, -1});
    for (int x : {1, 2, 4}) al.push_back({V_CROSS_ASSIGN, a, a, x, -1}); al.push_back({V_CROSS_ASSIGN, a, a, 1, 2});
    al.push_back({V_CROSS_CTOR, a, a, 1, -1}); al.push_back({V_CROSS_CTOR, a, a, 2, -1});
    al.push_back({V_MUTATE, a, a, 42, -1}); al.push_back({V_ANYOF_GET, a, a, 0, -1}); al.push_back({V_ANYOF_TAKE, a, a, 0, -1}); al.push_back({V_ANYOF_SWAP, a, a, 77, -1});
    al.push_back({V_EMPTY_CTOR, a, a, 0, -1});
  }
  return al;
}

// =================================================================== Optional / Entry / Result (C13)
enum class E : int { None, X, Y };
using O = nop::Optional<TA>; using OI = nop::Optional<int>; using En = nop::Entry<TA, 5>; using R = nop::Result<E, TA>; using RI = nop::Result<E, int>; using ST = nop::Status<TA>;
struct OM { bool has = false; int v = 0; bool known = true; };
struct RM { int st = 0; E e = E::None; int v = 0; bool known = true; };  // st: 0 empty, 1 error, 2 value
enum OOp { O_ASSIGN_RV, O_ASSIGN_LV, O_CLEAR, O_COPY_ASSIGN, O_MOVE_ASSIGN, O_COPY_CTOR, O_MOVE_CTOR, O_RECREATE_VALUE, O_RECREATE_INPLACE, O_TO_ENTRY, O_FROM_ENTRY, O_FROM_OPT_INT, O_MOVE_FROM_OPT_INT, O_TAKE, O_ENTRY_MOVE_TO,
           O_ENTRY_MOVE_ENTRY, O_ENTRY_COPY_ENTRY, O_TABLE_MOVE,
           R_ASSIGN_RV, R_ASSIGN_LV, R_ASSIGN_ERR, R_CLEAR, R_COPY_ASSIGN, R_MOVE_ASSIGN, R_COPY_CTOR, R_MOVE_CTOR, R_RECREATE_VALUE, R_RECREATE_ERR, R_TAKE, S_ASSIGN_ERR, S_ASSIGN_VALUE, S_MOVE_TO_R, O_NOPS };
static const char* const kONames[] = {"opt = T&&", "opt = const T&", "opt.clear()", "opt copy-assign", "opt move-assign", "opt copy-construct", "opt move-construct", "opt destroy+construct(value)", "opt destroy+construct(InPlace)",
                                      "entry = opt", "opt = entry", "opt = Optional<int>", "opt = move(Optional<int>)", "opt.take()", "opt = move(entry)",
                                      "entry2 = move(entry)", "entry2 = entry", "table-of-entries move-assign",
                                      "res = T&&", "res = const T&", "res = error", "res.clear()", "res copy-assign", "res move-assign", "res copy-construct", "res move-construct", "res destroy+construct(value)", "res destroy+construct(error)", "res.take()",
                                      "status = error", "status = value", "res = move(status-as-result)"};
struct OptRun {
  static const int N = 2;
  O* o[N]; OM om[N]; En ent; OM em; En ent2; OM em2; R* r[N]; RM rm[N]; ST st; RM sm; OI oi; bool oi_has = false; int oi_v = 0;
  struct Tab { nop::Entry<TA, 1> a; nop::Entry<TA, 2> b; };   // a struct of entries, as a table is
  std::string err;
  void fail(const std::string& key, const std::string& what) { if (err.empty()) err = key + "|" + what; }
  OptRun() { for (int i = 0; i < N; i++) { o[i] = new O(); r[i] = new R(); } }
  ~OptRun() { for (int i = 0; i < N; i++) { delete o[i]; delete r[i]; } }
  template <typename X> void chkO(const X& x, const OM& m, const char* who) {
    if (x.empty() == m.has) fail("model:Optional.empty", fmt("%s: empty() = %d, model says has=%d", who, (int)x.empty(), (int)m.has));
    if ((bool)x != m.has) fail("model:Optional.bool", fmt("%s: operator bool disagrees", who));
    if (m.has) { x.get().chk(); if (m.known && x.get().v != m.v) fail("model:Optional.value", fmt("%s: value %d, model %d", who, x.get().v, m.v)); }
  }
  template <typename X> void chkR(const X& x, const RM& m, const char* who) {
    if (x.has_value() != (m.st == 2)) fail("model:Result.has_value", fmt("%s: has_value() = %d, model state %d", who, (int)x.has_value(), m.st));
    if (x.has_error() != (m.st == 1)) fail("model:Result.has_error", fmt("%s: has_error() = %d, model state %d", who, (int)x.has_error(), m.st));
    if ((bool)x != (m.st == 2)) fail("model:Result.bool", fmt("%s: operator bool disagrees", who));
    if ((int)x.error() != (int)(m.st == 1 ? m.e : E::None)) fail("model:Result.error", fmt("%s: error() = %d, model %d", who, (int)x.error(), (int)(m.st == 1 ? m.e : E::None)));
    if (m.st == 2) { x.get().chk(); if (m.known && x.get().v != m.v) fail("model:Result.value", fmt("%s: value %d, model %d", who, x.get().v, m.v)); }
  }
  void audit() {
    size_t exp = 0; for (int i = 0; i < N; i++) { exp += om[i].has; exp += (rm[i].st == 2); } exp += em.has; exp += em2.has; exp += (sm.st == 2);
    if (g_live.size() != exp) fail("registry:Optional/Result.live-count", fmt("%zu tracked values alive, the objects hold %zu", g_live.size(), exp));
    if (!g_fault.empty()) { fail(std::string("registry:Optional/Result:") + g_fault, g_fault); g_fault.clear(); }
  }
  void step(const OpRec& q) {
    int a = q.a, b = q.b, x = q.x; E e = (E)(x % 3);
    switch (q.op) {
      case O_ASSIGN_RV: *o[a] = TA(x); om[a] = {true, x, true}; break;
      case O_ASSIGN_LV: { TA t(x); *o[a] = t; om[a] = {true, x, true}; } break;
      case O_CLEAR: o[a]->clear(); om[a] = {false, 0, true}; break;
      case O_COPY_ASSIGN: *o[a] = *o[b]; om[a] = om[b]; break;
      case O_MOVE_ASSIGN: *o[a] = std::move(*o[b]); if (a != b) { om[a] = om[b]; om[b] = {false, 0, true}; } break;   // moving from an object by assignment leaves it empty
      case O_COPY_CTOR: { O t(*o[b]); chkO(t, om[b], "copy"); } break;
      case O_MOVE_CTOR: { O t(std::move(*o[b])); chkO(t, om[b], "move-constructed"); if (om[b].has) { om[b].has = !o[b]->empty(); om[b].known = false; } } break;   // source state after move construction is not asserted (only balance)
      case O_RECREATE_VALUE: delete o[a]; o[a] = new O(TA(x)); om[a] = {true, x, true}; break;
      case O_RECREATE_INPLACE: delete o[a]; o[a] = new O(nop::InPlace{}, x); om[a] = {true, x, true}; break;
      case O_TO_ENTRY: ent = *o[b]; em = om[b]; break;
      case O_FROM_ENTRY: *o[a] = ent; om[a] = em; break;
      case O_ENTRY_MOVE_TO: *o[a] = std::move(ent); om[a] = em; em = {false, 0, true}; break;
      case O_ENTRY_MOVE_ENTRY: ent2 = std::move(ent); em2 = em; em = {false, 0, true}; break;          // moving from an Entry by assignment leaves it empty
      case O_ENTRY_COPY_ENTRY: ent2 = ent; em2 = em; break;
      case O_TABLE_MOVE: { Tab t1, t2; t1.a = TA(x); t2.b = TA(x + 1); t2.a = TA(x + 2); t2 = std::move(t1);
        if (t2.a.empty() || t2.a.get().v != x || !t2.b.empty()) fail("model:Entry.table-move-assign", "move-assigning a struct of entries did not transfer the entries");
        if (!t1.a.empty()) fail("model:Entry.moved-from-by-assignment", "an Entry moved from by assignment (as part of its table) is not empty"); } break;
      case O_FROM_OPT_INT: { OI s; if (x & 1) s = x; *o[a] = s; om[a] = (x & 1) ? OM{true, x, true} : OM{false, 0, true}; } break;
      case O_MOVE_FROM_OPT_INT: { OI s; if (x & 1) s = x; *o[a] = std::move(s); om[a] = (x & 1) ? OM{true, x, true} : OM{false, 0, true}; if (!s.empty()) fail("model:Optional.moved-from-by-assignment", "an Optional<int> moved from by (converting) assignment is not empty"); } break;
      case O_TAKE: if (om[a].has) { TA t = o[a]->take(); (void)t; om[a].known = false; } break;
      case R_ASSIGN_RV: *r[a] = TA(x); rm[a] = {2, E::None, x, true}; break;
      case R_ASSIGN_LV: { TA t(x); *r[a] = t; rm[a] = {2, E::None, x, true}; } break;
      case R_ASSIGN_ERR: *r[a] = e; rm[a] = e == E::None ? RM{0, E::None, 0, true} : RM{1, e, 0, true}; break;
      case R_CLEAR: r[a]->clear(); rm[a] = {0, E::None, 0, true}; break;
      case R_COPY_ASSIGN: *r[a] = *r[b]; rm[a] = rm[b]; break;
      case R_MOVE_ASSIGN: *r[a] = std::move(*r[b]); if (a != b) { rm[a] = rm[b]; rm[b] = {0, E::None, 0, true}; } break;
      case R_COPY_CTOR: { R t(*r[b]); chkR(t, rm[b], "copy"); } break;
      case R_MOVE_CTOR: { R t(std::move(*r[b])); chkR(t, rm[b], "move-constructed"); rm[b] = {r[b]->has_value() ? 2 : r[b]->has_error() ? 1 : 0, r[b]->error(), 0, false}; } break;
      case R_RECREATE_VALUE: delete r[a]; r[a] = new R(TA(x)); rm[a] = {2, E::None, x, true}; break;
      case R_RECREATE_ERR: delete r[a]; r[a] = new R(e); rm[a] = e == E::None ? RM{0, E::None, 0, true} : RM{1, e, 0, true}; break;
      case R_TAKE: if (rm[a].st == 2) { TA t = r[a]->take(); (void)t; rm[a].known = false; } break;
      case S_ASSIGN_ERR: { nop::ErrorStatus es = (x % 3 == 0) ? nop::ErrorStatus::None : (x % 3 == 1) ? nop::ErrorStatus::IOError : nop::ErrorStatus::ReadLimitReached; st = es; sm = es == nop::ErrorStatus::None ? RM{0, E::None, 0, true} : RM{1, (E)(x % 3), 0, true}; } break;
      case S_ASSIGN_VALUE: st = TA(x); sm = {2, E::None, x, true}; break;
      case S_MOVE_TO_R: { ST t2(std::move(st)); if (sm.st == 2) { t2.get().chk(); } sm = {0, E::None, 0, true}; if (st.has_value() || st.has_error()) fail("model:Status.moved-from", "a Status moved from is not empty"); } break;
    }
    for (int i = 0; i < N; i++) { chkO(*o[i], om[i], "optional"); chkR(*r[i], rm[i], "result"); }
    chkO(ent, em, "entry"); chkO(ent2, em2, "entry2");
    { // Status: same state model; error identity checked through has_error/has_value only
      if (st.has_value() != (sm.st == 2) || st.has_error() != (sm.st == 1) || (bool)st != (sm.st == 2)) fail("model:Status.state", "Status<T> has_value/has_error/bool disagree with the model");
      if (sm.st == 2) st.get().chk();
    }
    audit();
  }
};
static std::vector<OpRec> opt_alphabet() {
  std::vector<OpRec> al;
  for (int a = 0; a < OptRun::N; a++) {
    int b = 1 - a;
    for (int op : {O_ASSIGN_RV, O_ASSIGN_LV, O_RECREATE_VALUE, O_RECREATE_INPLACE, R_ASSIGN_RV, R_ASSIGN_LV, R_RECREATE_VALUE}) al.push_back({op, a, a, 7, -1});
    for (int op : {O_CLEAR, O_TAKE, R_CLEAR, R_TAKE}) al.push_back({op, a, a, 0, -1});
    for (int op : {O_COPY_ASSIGN, O_MOVE_ASSIGN, R_COPY_ASSIGN, R_MOVE_ASSIGN}) { al.push_back({op, a, b, 0, -1}); al.push_back({op, a, a, 0, -1}); }
    for (int op : {O_COPY_CTOR, O_MOVE_CTOR, R_COPY_CTOR, R_MOVE_CTOR, O_TO_ENTRY}) al.push_back({op, a, a, 0, -1});
    al.push_back({O_FROM_ENTRY, a, a, 0, -1}); al.push_back({O_ENTRY_MOVE_TO, a, a, 0, -1});
    for (int x : {1, 2}) { al.push_back({O_FROM_OPT_INT, a, a, x, -1}); al.push_back({O_MOVE_FROM_OPT_INT, a, a, x, -1}); }
    for (int x : {0, 1, 2}) { al.push_back({R_ASSIGN_ERR, a, a, x, -1}); al.push_back({R_RECREATE_ERR, a, a, x, -1}); }
  }
  al.push_back({O_ENTRY_MOVE_ENTRY, 0, 0, 0, -1}); al.push_back({O_ENTRY_COPY_ENTRY, 0, 0, 0, -1}); al.push_back({O_TABLE_MOVE, 0, 0, 9, -1});
  for (int x : {0, 1, 2}) al.push_back({S_ASSIGN_ERR, 0, 0, x, -1});
  al.push_back({S_ASSIGN_VALUE, 0, 0, 3, -1}); al.push_back({S_MOVE_TO_R, 0, 0, 0, -1});
  return al;
}

// =================================================================== UniqueHandle ownership (C15)
struct CountPolicy {
  using Type = int;
  static std::unordered_map<int, int>& closed() { static std::unordered_map<int, int> c; return c; }
  static std::unordered_map<int, int>& released() { static std::unordered_map<int, int> c; return c; }
  static constexpr int Default() { return 0; }
  static bool IsValid(const int& v) { return v != 0; }
  static void Close(int* v) { if (*v != 0) closed()[*v]++; *v = 0; }          // closing the empty value is permitted and not counted
  static int Release(int* v) { int t = 0; std::swap(*v, t); if (t) released()[t]++; return t; }
  static constexpr std::uint64_t HandleType() { return 9; }
};
// a second policy: derived from the library's DefaultHandlePolicy<int, -1> (empty value -1, so 0 is a real resource - as for file descriptors), inheriting
// Default / IsValid / Release and adding only the Close that counts
struct DerivedPolicy : nop::DefaultHandlePolicy<int, -1> {
  static std::unordered_map<int, int>& closed() { static std::unordered_map<int, int> c; return c; }
  static std::unordered_map<int, int>& released() { static std::unordered_map<int, int> c; return c; }
  static void Close(int* v) { if (*v != -1) closed()[*v]++; *v = -1; }
  static constexpr std::uint64_t HandleType() { return 9; }
};
template <typename Pol> struct HUH : nop::UniqueHandle<Pol> { using nop::UniqueHandle<Pol>::UniqueHandle; };          // a class derived from UniqueHandle<Policy>, the shape of UniqueFileHandle: moving it into a UniqueHandle<Policy> transfers ownership
enum HOp { H_NEW, H_MOVE_ASSIGN, H_MOVE_CTOR, H_RELEASE, H_CLOSE, H_DESTROY, H_ASSIGN_TEMP, H_ASSIGN_EMPTY, H_CTOR_FROM_DERIVED, H_ASSIGN_FROM_DERIVED, H_NOPS };
static const char* const kHNames[] = {"destroy+construct(id)", "move-assign", "move-construct(temp)", "release()", "close()", "destroy+construct()", "= UniqueHandle{id}", "= UniqueHandle{}", "destroy+move-construct(from derived handle owning id)", "= std::move(derived handle owning id)"};
template <typename Pol, int kEmpty> struct HandleRunT {
  using UH = nop::UniqueHandle<Pol>; using DUH = HUH<Pol>;
  static const int N = 3;
  UH* h[N]; int own[N] = {kEmpty, kEmpty, kEmpty}; int next_id = kEmpty + 1; std::set<int> issued, rel, must_closed;
  std::string err;
  void fail(const std::string& key, const std::string& what) { if (err.empty()) err = key + "|" + what; }
  HandleRunT() { Pol::closed().clear(); Pol::released().clear(); for (int i = 0; i < N; i++) h[i] = new UH(); }
  ~HandleRunT() { for (int i = 0; i < N; i++) delete h[i]; }
  void drop(int id) { if (id != kEmpty) must_closed.insert(id); }
  void step(const OpRec& q) {
    int a = q.a, b = q.b;
    switch (q.op) {
      case H_NEW: { int id = next_id++; issued.insert(id); delete h[a]; drop(own[a]); h[a] = new UH(id); own[a] = id; } break;
      case H_MOVE_ASSIGN: *h[a] = std::move(*h[b]); if (a != b) { drop(own[a]); own[a] = own[b]; own[b] = kEmpty; } break;
      case H_MOVE_CTOR: { UH t(std::move(*h[b])); drop(own[b]); own[b] = kEmpty; } break;               // the temporary closes what it took when it dies
      case H_RELEASE: { int got = h[a]->release(); if (got != own[a]) fail("model:UniqueHandle.release", fmt("release() returned %d, the handle owned %d", got, own[a])); if (own[a] != kEmpty) rel.insert(own[a]); own[a] = kEmpty; } break;
      case H_CLOSE: h[a]->close(); drop(own[a]); own[a] = kEmpty; break;
      case H_DESTROY: delete h[a]; drop(own[a]); h[a] = new UH(); own[a] = kEmpty; break;
      case H_ASSIGN_TEMP: { int id = next_id++; issued.insert(id); *h[a] = UH(id); drop(own[a]); own[a] = id; } break;
      case H_ASSIGN_EMPTY: *h[a] = UH(); drop(own[a]); own[a] = kEmpty; break;
      case H_CTOR_FROM_DERIVED: { int id = next_id++; issued.insert(id); delete h[a]; drop(own[a]); { DUH d(id); h[a] = new UH(std::move(d)); if (d.get() != kEmpty) fail("model:UniqueHandle.moved-from", fmt("a derived handle moved into a UniqueHandle still holds %d", d.get())); } own[a] = id; } break;
      case H_ASSIGN_FROM_DERIVED: { int id = next_id++; issued.insert(id); { DUH d(id); *h[a] = std::move(d); if (d.get() != kEmpty) fail("model:UniqueHandle.moved-from", fmt("a derived handle move-assigned into a UniqueHandle still holds %d", d.get())); } drop(own[a]); own[a] = id; } break;
    }
    check(false);
  }
  void check(bool final) {
    for (int i = 0; i < N; i++) {
      if (h[i]->get() != own[i]) fail("model:UniqueHandle.value", fmt("handle %d holds %d, model says %d", i, h[i]->get(), own[i]));
      if ((bool)*h[i] != (own[i] != kEmpty)) fail("model:UniqueHandle.bool", "operator bool disagrees with ownership");
    }
    for (int id : issued) {
      int c = Pol::closed().count(id) ? Pol::closed()[id] : 0;
      bool owned = false; for (int i = 0; i < N; i++) if (own[i] == id) owned = true;
      if (c > 1) fail("policy:UniqueHandle.closed-twice", fmt("resource %d closed %d times", id, c));
      if (rel.count(id) && c > 0) fail("policy:UniqueHandle.closed-after-release", fmt("resource %d was released and later closed", id));
      if (owned && c > 0) fail("policy:UniqueHandle.closed-while-owned", fmt("resource %d closed while a live handle still owns it", id));
      if (must_closed.count(id) && c != 1) fail("policy:UniqueHandle.not-closed", fmt("resource %d was dropped by its owner (destroyed / overwritten / close()) but closed %d times", id, c));
      if (final && !rel.count(id) && !owned && c != 1) fail("policy:UniqueHandle.leaked", fmt("resource %d closed %d times over its life", id, c));
    }
  }
  void finish() { for (int i = 0; i < N; i++) { delete h[i]; drop(own[i]); own[i] = kEmpty; h[i] = new UH(); } check(true); }
};
using HandleRun = HandleRunT<CountPolicy, 0>; using HandleRunDerived = HandleRunT<DerivedPolicy, -1>;
static std::vector<OpRec> handle_alphabet() {
  std::vector<OpRec> al;
  for (int a = 0; a < HandleRun::N; a++) {
    for (int op : {H_NEW, H_RELEASE, H_CLOSE, H_DESTROY, H_ASSIGN_TEMP, H_ASSIGN_EMPTY, H_CTOR_FROM_DERIVED, H_ASSIGN_FROM_DERIVED}) al.push_back({op, a, a, 0, -1});
    al.push_back({H_MOVE_CTOR, a, a, 0, -1});
    for (int b = 0; b < HandleRun::N; b++) al.push_back({H_MOVE_ASSIGN, a, b, 0, -1});
  }
  return al;
}

#include "special.h"

// =================================================================== generic history driver
template <typename Run> static void finish_run(Run&, bool) {}
template <> void finish_run<HandleRun>(HandleRun& r, bool f);
template <> void finish_run<HandleRunDerived>(HandleRunDerived& r, bool f);
template <typename Run>
static void run_histories(const char* type, const char* prop, const std::vector<OpRec>& al, const char* const* names, int exh_len, uint64_t nrandom, int rnd_maxlen, bool with_finish) {
  const Args& ar = args();
  auto execute = [&](const std::vector<OpRec>& seq, const std::string& stage, int64_t case_idx) {
    g_live.clear(); g_fault.clear(); g_throw_in = -1;
    std::string err; size_t executed = 0;
    set_current("%s", case_desc(type, case_idx, stage, J().raw("ops", seq_json(seq, names)).str()).c_str());
    {
      Run run;
      for (auto& o : seq) { run.step(o); executed++; if (!run.err.empty()) break; }
      if (run.err.empty()) finish_run(run, with_finish);
      err = run.err;
    }
    if (err.empty() && !g_live.empty()) err = fmt("registry:%s.leak-at-end|%zu tracked objects still alive after every object of the history was destroyed", type, g_live.size());
    if (err.empty() && !g_fault.empty()) err = std::string("registry:") + type + ":" + g_fault + "|" + g_fault;
    rep().count(fmt("%s_operations_executed", prop), executed);
    if (!err.empty()) {
      size_t bar = err.find('|'); std::string key = err.substr(0, bar), what = err.substr(bar + 1);
      std::vector<OpRec> upto(seq.begin(), seq.begin() + std::min(seq.size(), executed + 1));
      rep().violation(fmt("%s:%s:after-%s", prop, key.c_str(), names[upto.back().op]), fmt("%s after history %s", what.c_str(), seq_json(upto, names).c_str()), case_desc(type, case_idx, stage, J().raw("ops", seq_json(upto, names)).str()));
    }
    clear_current();
  };
  // exhaustive: every sequence of length 1..exh_len
  size_t A = al.size();
  for (int L = 1; L <= exh_len; L++) {
    uint64_t total = 1; for (int i = 0; i < L; i++) total *= A;
    std::string stage = fmt("exh%d", L);
    if (!ar.only_stage.empty() && ar.only_stage != stage) continue;
    for (uint64_t n = 0; n < total; n++) {
      if (ar.only_case >= 0) { if ((uint64_t)ar.only_case != n) continue; } else if (!mine(n)) continue;
      std::vector<OpRec> seq; uint64_t k = n; for (int i = 0; i < L; i++) { seq.push_back(al[k % A]); k /= A; }
      execute(seq, stage, (int64_t)n);
      rep().note_enumerated(L >= 2);
    }
    rep().count(fmt("%s_exhaustive_len%d_histories_total", prop, L), ar.worker == 0 ? total : 0);
  }
  // random longer histories
  if (ar.only_stage.empty() || ar.only_stage == "rnd") for (uint64_t n = 0; n < nrandom; n++) {
    if (ar.only_case >= 0) { if ((uint64_t)ar.only_case != n) continue; } else if (!mine(n)) continue;
    Rng r = case_rng(type, n, 31);
    int len = exh_len + 1 + (int)r.below((uint64_t)(rnd_maxlen - exh_len));
    std::vector<OpRec> seq; uint64_t h = 0;
    for (int i = 0; i < len; i++) { OpRec o = al[r.below(A)]; if (o.x && r.chance(1, 2)) o.x = 1 + (int)r.below(50); seq.push_back(o); h = hash_combine(h, (uint64_t)o.op * 1000003u + (uint64_t)o.a * 101 + (uint64_t)o.b * 17 + (uint64_t)o.x * 7 + (uint64_t)(o.inj + 1)); }
    execute(seq, "rnd", (int64_t)n);
    rep().note(hash_combine(hash_str(type), h), true);
    rep().count(fmt("%s_random_histories", prop));
  }
  rep().infos[std::string(type) + "_alphabet"] = std::to_string(A);
  if (rep().want_sample(type, 1)) { std::vector<OpRec> s; for (size_t i = 0; i < 4 && i < A; i++) s.push_back(al[(i * 7) % A]); rep().sample(type, J().s("object", type).raw("history", seq_json(s, names)).u("alphabet", A).str(), 1); }
}
template <> void finish_run<HandleRun>(HandleRun& r, bool f) { if (f) r.finish(); }
template <> void finish_run<HandleRunDerived>(HandleRunDerived& r, bool f) { if (f) r.finish(); }

// =================================================================== C13: comparisons and messages
template <typename A, typename B> static void cmp_pair(const char* what, const nop::Optional<A>& a, const nop::Optional<B>& b, int ka, int kb) {
  // total order: empty (-1) < every value, else the values decide
  bool lt = ka < kb, eq = ka == kb;
  struct { const char* op; bool got, want; } t[] = {{"==", a == b, eq}, {"!=", a != b, !eq}, {"<", a < b, lt}, {">", a > b, kb < ka}, {"<=", a <= b, lt || eq}, {">=", a >= b, !lt}};
  for (auto& x : t) { rep().note_enumerated(true); rep().count("c13_comparisons"); if (x.got != x.want) rep().violation(fmt("C13:order:Optional-Optional:%s:%s", what, x.op), fmt("Optional(%d) %s Optional(%d) = %d (states: -1 = empty)", ka, x.op, kb, (int)x.got), case_desc("Optional-compare", -1, what)); }
}
template <typename A, typename B> static void cmp_value(const char* what, const nop::Optional<A>& a, const B& v, int ka, int kv) {
  bool lt = ka < kv, eq = ka == kv;
  struct { const char* op; bool got, want; } t[] = {{"o==v", a == v, eq}, {"o!=v", a != v, !eq}, {"o<v", a < v, lt}, {"o>v", a > v, kv < ka}, {"o<=v", a <= v, lt || eq}, {"o>=v", a >= v, !lt},
                                                    {"v==o", v == a, eq}, {"v!=o", v != a, !eq}, {"v<o", v < a, kv < ka}, {"v>o", v > a, lt}, {"v<=o", v <= a, kv <= ka}, {"v>=o", v >= a, kv >= ka}};
  for (auto& x : t) { rep().note_enumerated(true); rep().count("c13_comparisons"); if (x.got != x.want) rep().violation(fmt("C13:order:Optional-value:%s:%s", what, x.op), fmt("Optional(%d) vs value %d: %s = %d (state -1 = empty)", ka, kv, x.op, (int)x.got), case_desc("Optional-compare", -1, what)); }
}
static void c13_comparisons() {
  if (!mine(3)) return;
  set_current("%s", case_desc("Optional-compare", -1, "all").c_str());
  for (int sa = -1; sa < 5; sa++) for (int sb = -1; sb < 5; sb++) {
    { nop::Optional<int> a, b; if (sa >= 0) a = sa; if (sb >= 0) b = sb; cmp_pair("int-int", a, b, sa, sb); if (sb >= 0) cmp_value("int-int", a, sb, sa, sb); }
    { nop::Optional<int> a; nop::Optional<long> b; if (sa >= 0) a = sa; if (sb >= 0) b = (long)sb; cmp_pair("int-long", a, b, sa, sb); if (sb >= 0) cmp_value("int-long", a, (long)sb, sa, sb); }
    { nop::Optional<std::string> a, b; if (sa >= 0) a = std::string((size_t)sa, 'a'); if (sb >= 0) b = std::string((size_t)sb, 'a'); cmp_pair("string-string", a, b, sa, sb); if (sb >= 0) cmp_value("string-string", a, std::string((size_t)sb, 'a'), sa, sb); }
    { g_live.clear(); { nop::Optional<TA> a, b; if (sa >= 0) a = TA(sa); if (sb >= 0) b = TA(sb); cmp_pair("tracked-tracked", a, b, sa, sb); if (sb >= 0) { TA v(sb); cmp_value("tracked-tracked", a, v, sa, sb); } } if (!g_live.empty() || !g_fault.empty()) rep().violation("C13:registry:compare", "comparison leaked or used a dead object", ""); g_fault.clear(); }
    { nop::Entry<int, 1> a; nop::Entry<int, 2> b; if (sa >= 0) a = sa; if (sb >= 0) b = sb; cmp_pair("entry-entry", static_cast<const nop::Optional<int>&>(a), static_cast<const nop::Optional<int>&>(b), sa, sb); }
  }
  // other value kinds: bool, mixed arithmetic, raw and shared pointers against pointers and the nullptr literal (== and != only: the order of unrelated pointers is not a value order)
  for (int sa = -1; sa < 2; sa++) for (int sb = 0; sb < 2; sb++) {
    { nop::Optional<bool> a; if (sa >= 0) a = (bool)sa; cmp_value("bool-bool", a, (bool)sb, sa, sb); }
    { nop::Optional<double> a; if (sa >= 0) a = (double)sa; cmp_value("double-int", a, sb, sa, sb); }
    { nop::Optional<char> a; if (sa >= 0) a = (char)('a' + sa); cmp_value("char-char", a, (char)('a' + sb), sa, sb); }
  }
  { static int cell[2] = {0, 0};
    struct { const char* name; bool engaged; int* p; } st[] = {{"empty", false, nullptr}, {"engaged(nullptr)", true, nullptr}, {"engaged(&x)", true, &cell[0]}, {"engaged(&y)", true, &cell[1]}};
    for (auto& q : st) {
      nop::Optional<int*> o; if (q.engaged) o = q.p; nop::Optional<std::shared_ptr<int>> so; if (q.engaged) so = q.p ? std::shared_ptr<int>(std::shared_ptr<int>(), q.p) : std::shared_ptr<int>();
      auto chk = [&](const char* what, bool got, bool want) { rep().note_enumerated(true); rep().count("c13_comparisons"); rep().count("c13_pointer_comparisons"); if (got != want) rep().violation(fmt("C13:order:Optional-value:pointer:%s", what), fmt("Optional<pointer> %s: %s = %d, expected %d (an empty Optional equals no value, an engaged one compares its value)", q.name, what, (int)got, (int)want), case_desc("Optional-compare", -1, "pointer")); };
      const bool isnull = q.engaged && q.p == nullptr;
      chk("o == nullptr", o == nullptr, isnull); chk("nullptr == o", nullptr == o, isnull); chk("o != nullptr", o != nullptr, !isnull); chk("nullptr != o", nullptr != o, !isnull);
      chk("o == &x", o == &cell[0], q.engaged && q.p == &cell[0]); chk("&x == o", &cell[0] == o, q.engaged && q.p == &cell[0]); chk("o != &x", o != &cell[0], !(q.engaged && q.p == &cell[0]));
      int* np = nullptr; chk("o == (int*)nullptr", o == np, isnull); chk("o != (int*)nullptr", o != np, !isnull);
      chk("shared_ptr: o == nullptr", so == nullptr, isnull); chk("shared_ptr: nullptr == o", nullptr == so, isnull); chk("shared_ptr: o != nullptr", so != nullptr, !isnull);
      nop::Optional<int*> e2; chk("o == Optional{}", o == e2, !q.engaged); nop::Optional<int*> n2(np); chk("o == Optional{nullptr}", o == n2, isnull);
    } }
  // nested optionals: rank -2 = empty, -1 = engaged holding an empty inner optional, k >= 0 = engaged holding engaged(k); the same total order applies one level down
  for (int sa = -2; sa < 4; sa++) for (int sb = -2; sb < 4; sb++) {
    using OO = nop::Optional<nop::Optional<int>>;
    auto mk = [](int k) { OO o; if (k == -1) o = OO{nop::InPlace{}, nop::Optional<int>{}}; else if (k >= 0) o = OO{nop::InPlace{}, nop::Optional<int>{k}}; return o; };
    OO a = mk(sa), b = mk(sb); cmp_pair("nested-nested", a, b, sa, sb);
  }
  // every ErrorStatus has a defined message
  for (int i = 0; i <= 18; i++) {
    nop::Status<void> s{(nop::ErrorStatus)i}; const char* msg = s.GetErrorMessage(); rep().note_enumerated(true); rep().count("c13_error_messages");
    nop::Status<int> s2{(nop::ErrorStatus)i}; const char* msg2 = s2.GetErrorMessage();
    if (!msg || !*msg || std::string(msg) == "Unknown Error" || !msg2 || std::string(msg) != msg2) rep().violation("C13:status-message", fmt("ErrorStatus %d has no defined message", i), case_desc("Status", i, "message"));
  }
  if (rep().want_sample("compare", 1)) rep().sample("compare", J().s("operands", "Optional<int>{} vs Optional<int>{0}").b("lt", nop::Optional<int>{} < nop::Optional<int>{0}).str(), 1);
  clear_current();
}

// =================================================================== C15: out-of-band transfer
static void c15_transfer() {
  auto& reg = registry();
  std::sort(reg.begin(), reg.end(), [](const TypeOps& x, const TypeOps& y) { return strcmp(x.name, y.name) < 0; });
  static const int64_t kRefs[] = {-1, 0, 1, 63, 64, 127, 128, 255, 256, 32767, 65536, 2147483647LL, 2147483648LL, 4294967296LL, 9223372036854775807LL, -2, -64, -65, -129};
  int ncases = args().thorough() ? 2000 : 150;
  for (size_t ti = 0; ti < reg.size(); ti++) {
    const TypeOps& t = reg[ti]; if (!(t.flags & F_HANDLE)) continue;
    if (!args().only_type.empty() && args().only_type != t.name) continue;
    Sch sch = t.schema();
    for (int ci = 0; ci < ncases; ci++) {
      if (args().only_case >= 0 ? args().only_case != ci : !mine(ti * 13 + (uint64_t)ci)) continue;
      Rng r = case_rng(t.name, (uint64_t)ci, 15); Gen g(r);
      Val v = g.gen(sch);
      void* obj = t.create(); t.from_val(v, obj); Val v0 = t.to_val(obj);
      std::string cd = case_desc(t.name, ci, "transfer", J().s("value", str(v0).substr(0, 200)).str());
      set_current("%s", cd.c_str());
      // expected handle values in encounter order = HND leaves of the value tree in schema order (only those actually written)
      std::vector<int64_t> expect; std::function<void(const Sch&, const Val&)> walk = [&](const Sch& s, const Val& x) {
        switch (s.k) {
          case K::HND: expect.push_back((int64_t)x.u); break;
          case K::ARY: for (auto& k : x.kids) walk(s.kids[0], k); break;
          case K::TUPLE: case K::STU: for (size_t i = 0; i < s.kids.size(); i++) walk(s.kids[i], x.kids[i]); break;
          case K::MAP: for (size_t i = 0; i < x.kids.size(); i++) walk(s.kids[i & 1], x.kids[i]); break;
          case K::OPT: if (x.u) walk(s.kids[0], x.kids[0]); break;
          case K::RES: if (x.u == 2) walk(s.kids[1], x.kids[0]); break;
          case K::VAR: if (x.u) walk(s.kids[x.u - 1], x.kids[0]); break;
          case K::TAB: for (size_t i = 0; i < s.kids.size(); i++) if (s.active[i] && x.kids[i].u) walk(s.kids[i], x.kids[i].kids[0]); break;
          default: break;
        }
      };
      walk(sch, v0);
      for (int bounded = 0; bounded < 2; bounded++) {
        Sink s; s.init(bounded ? W_B_LOG : W_LOG, SIZE_MAX, SIZE_MAX);
        for (size_t i = 0; i < expect.size(); i++) s.log.refs_to_return.push_back(kRefs[r.below(sizeof(kRefs) / sizeof(kRefs[0]))]);
        auto st = t.write(s, obj);
        rep().note(hash_combine(hash_str(t.name), hash_combine(hash_bytes(s.log.data.data(), s.log.data.size()), (uint64_t)bounded)), !expect.empty());
        rep().count("c15_values_written"); rep().count("c15_handles_pushed", s.log.pushed.size());
        if (!st) { rep().violation(fmt("C15:write-failed:%s", t.name), fmt("write of a value with %zu handles failed: %s", expect.size(), errname(st.error())), cd); continue; }
        if (s.log.pushed != expect) { rep().violation(fmt("C15:push-order-or-multiplicity:%s", bounded ? "bounded" : "direct"), fmt("%s: PushHandle log has %zu entries, the value contains %zu handles in encounter order (first difference matters: each exactly once, in order)", t.name, s.log.pushed.size(), expect.size()), cd); continue; }
        // the reference encoder places exactly the returned references after each tag
        Enc e; e.refs = &s.log.refs_to_return; RefEncode(sch, v0, e);
        if (e.out != s.log.data) { rep().violation(fmt("C15:reference-not-encoded:%s", bounded ? "bounded" : "direct"), fmt("%s: bytes differ from the reference encoding with the references the writer returned", t.name), cd); continue; }
        // read back: GetHandle must be called with the decoded references, values must come back
        struct Ctx { std::vector<int64_t> refs, vals; size_t next = 0; bool mismatch = false; } ctx; ctx.refs = s.log.refs_to_return; ctx.vals = s.log.pushed;
        Source src; src.init(bounded ? R_B_LOG : R_LOG, s.log.data.data(), s.log.data.size(), s.log.data.size());
        src.log.resolver_ctx = &ctx; src.log.resolver = [](void* c, int64_t ref, int64_t* val) { Ctx* x = static_cast<Ctx*>(c); if (x->next >= x->refs.size() || x->refs[x->next] != ref) { x->mismatch = true; return nop::ErrorStatus::InvalidHandleReference; } *val = x->vals[x->next++]; return nop::ErrorStatus::None; };
        void* o2 = t.create(); auto rs = t.read(src, o2);
        rep().count("c15_values_read_back");
        if (!rs || ctx.mismatch || ctx.next != expect.size()) rep().violation(fmt("C15:gethandle-sequence:%s", bounded ? "bounded" : "direct"), fmt("%s: read %s; GetHandle saw %zu of %zu references in order", t.name, rs ? "ok" : errname(rs.error()), ctx.next, expect.size()), cd);
        else if (canoned(sch, t.to_val(o2)) != canoned(sch, v0)) rep().violation(fmt("C15:roundtrip-value:%s", bounded ? "bounded" : "direct"), fmt("%s: handles do not denote the same resources after a round trip", t.name), cd);
        // corrupted type tag -> UnexpectedHandleType ; resolver error -> returned unchanged
        if (!expect.empty()) {
          for (auto& f : e.fields) if (f.role == Role::TAG) {
            Enc t2; t2.put_uint(e.out[f.off] == 1 ? 2 : 1, Role::TAG, 64); Bytes mb = vf::splice(e.out, f.off, f.len, t2.out);
            Source s2; s2.init(R_LOG, mb.data(), mb.size()); void* o3 = t.create(); auto r3 = t.read(s2, o3); t.destroy(o3);
            rep().count("c15_corrupted_tags");
            if (r3 || r3.error() != nop::ErrorStatus::UnexpectedHandleType) rep().violation("C15:tag-not-validated", fmt("%s: a corrupted handle type tag gave '%s', not UnexpectedHandleType", t.name, r3 ? "success" : errname(r3.error())), cd);
            // tags that differ from the policy's only in one bit, incl. bits above the width of a narrow tag type: a foreign handle must be
            // rejected (UnexpectedHandleType, or UnexpectedEncodingType when the tag no longer fits the tag type) and never resolved
            uint64_t tag = e.out[f.off]; if (tag >= 0x80) { size_t w = (size_t)1 << (tag - 0x80); tag = 0; for (size_t i = 0; i < w && i < 8; i++) tag |= (uint64_t)e.out[f.off + 1 + i] << (8 * i); }
            for (int bit : {0, 1, 7, 8, 9, 15, 16, 24, 31, 32, 40, 63}) {
              Enc t3; t3.put_uint(tag ^ (1ull << bit), Role::TAG, 64); Bytes mb3 = vf::splice(e.out, f.off, f.len, t3.out);
              Source s3; s3.init(R_LOG, mb3.data(), mb3.size()); void* o4 = t.create(); auto r4 = t.read(s3, o4); t.destroy(o4);
              rep().count("c15_corrupted_tags");
              if (r4 || (r4.error() != nop::ErrorStatus::UnexpectedHandleType && r4.error() != nop::ErrorStatus::UnexpectedEncodingType) || !s3.log.got.empty())
                rep().violation("C15:foreign-tag-accepted", fmt("%s: handle type tag %" PRIu64 " changed to %" PRIu64 ": read gave '%s', GetHandle was called %zu time(s)", t.name, tag, tag ^ (1ull << bit), r4 ? "success" : errname(r4.error()), s3.log.got.size()), cd);
            }
            // the tags other policies use (0 = DefaultHandlePolicy, 1 = file handles) and the ends of the range: none is a wildcard
            for (uint64_t other : {0ull, 1ull, 2ull, 0x7full, 0xffull, 0xffffffffull, ~0ull}) { if (other == tag) continue;
              Enc t3; t3.put_uint(other, Role::TAG, 64); Bytes mb3 = vf::splice(e.out, f.off, f.len, t3.out);
              Source s3; s3.init(R_LOG, mb3.data(), mb3.size()); void* o4 = t.create(); auto r4 = t.read(s3, o4); t.destroy(o4);
              rep().count("c15_corrupted_tags"); rep().count("c15_tags_of_other_policies");
              if (r4 || (r4.error() != nop::ErrorStatus::UnexpectedHandleType && r4.error() != nop::ErrorStatus::UnexpectedEncodingType) || !s3.log.got.empty())
                rep().violation("C15:foreign-tag-accepted", fmt("%s: handle type tag %" PRIu64 " changed to %" PRIu64 " (another policy's tag): read gave '%s', GetHandle was called %zu time(s)", t.name, tag, other, r4 ? "success" : errname(r4.error()), s3.log.got.size()), cd);
            }
            break;
          }
          for (nop::ErrorStatus E : {nop::ErrorStatus::InvalidHandleReference, nop::ErrorStatus::InvalidHandleValue, nop::ErrorStatus::IOError, nop::ErrorStatus::ProtocolError}) {
            struct C2 { nop::ErrorStatus e; size_t at, n = 0; } c2{E, (size_t)r.below(expect.size())};
            Source s2; s2.init(R_LOG, s.log.data.data(), s.log.data.size()); s2.log.resolver_ctx = &c2; s2.log.resolver = [](void* c, int64_t ref, int64_t* val) { C2* x = static_cast<C2*>(c); *val = ref; return x->n++ == x->at ? x->e : nop::ErrorStatus::None; };
            void* o3 = t.create(); auto r3 = t.read(s2, o3); t.destroy(o3);
            rep().count("c15_resolver_errors_injected");
            if (r3 || r3.error() != E) rep().violation("C15:resolver-error-changed", fmt("%s: the reader's GetHandle failed with '%s', Read returned '%s'", t.name, errname(E), r3 ? "success" : errname(r3.error())), cd);
          }
        }
        t.destroy(o2);
      }
      if (rep().want_sample(t.name, 1) && !expect.empty()) rep().sample(t.name, J().s("type", t.name).u("handles", expect.size()).s("value", str(v0).substr(0, 100)).str(), 1);
      t.destroy(obj);
      clear_current();
    }
  }
  // real file descriptors through UniqueFileHandle
  if (mine(5) && !args().replay()) {
    set_current("%s", case_desc("UniqueFileHandle", 0, "fd").c_str());
    int raw;
    { auto h = nop::UniqueFileHandle::Open("/dev/null", O_RDONLY); raw = h.get(); if (!h || fcntl(raw, F_GETFD) < 0) rep().violation("C15:filehandle-open", "UniqueFileHandle::Open did not yield a valid descriptor", "");
      auto d = nop::UniqueFileHandle::AsDuplicate(nop::FileHandle{raw}); int rawd = d.get(); nop::UniqueFileHandle m(std::move(d)); if (d || m.get() != rawd) rep().violation("C15:filehandle-move", "move construction did not transfer the descriptor", "");
      int rel = m.release(); if (fcntl(rel, F_GETFD) < 0) rep().violation("C15:filehandle-release-closed", "a released descriptor was closed", ""); ::close(rel); }
    if (fcntl(raw, F_GETFD) >= 0) rep().violation("C15:filehandle-not-closed", "descriptor still open after its UniqueFileHandle was destroyed", "");
    rep().count("c15_real_fd_cases"); rep().note(hash_str("real-fd"), true);
    // a UniqueFileHandle moved into the UniqueHandle<FileHandlePolicy> it derives from (how a generic owner stores one): one owner, one close(2)
    for (int how = 0; how < 3; how++) {
      int fd = ::open("/dev/null", O_RDONLY); g_close_watch_fd = fd; g_close_calls = 0; bool open_while_owned = true, released_ok = true;
      { nop::UniqueFileHandle u{fd};
        if (how == 0) { nop::UniqueHandle<nop::FileHandlePolicy> base{std::move(u)}; open_while_owned = fcntl(fd, F_GETFD) >= 0 && base.get() == fd && !u; }
        else if (how == 1) { nop::UniqueHandle<nop::FileHandlePolicy> base; base = std::move(u); open_while_owned = fcntl(fd, F_GETFD) >= 0 && base.get() == fd && !u; }
        else { nop::UniqueHandle<nop::FileHandlePolicy> base{std::move(u)}; int got = base.release(); released_ok = got == fd && !base; } }
      int calls = g_close_calls; g_close_watch_fd = -1;
      rep().count("c15_file_handles_moved_into_their_base_class"); rep().note(hash_combine(hash_str("ufh-into-base"), (uint64_t)how), true);
      if (!open_while_owned) rep().violation("C15:filehandle-derived-move", "a UniqueFileHandle moved into a UniqueHandle<FileHandlePolicy>: the source still holds the descriptor, or the new owner does not", "");
      if (how < 2 && calls != 1) rep().violation("C15:filehandle-derived-move-close-count", fmt("a UniqueFileHandle moved into a UniqueHandle<FileHandlePolicy> (%s): close() was called %d times on the descriptor, expected once", how ? "move-assignment" : "move-construction", calls), "");
      if (how == 2) { if (!released_ok || calls != 0 || fcntl(fd, F_GETFD) < 0) rep().violation("C15:filehandle-derived-move-release", fmt("a descriptor released by the UniqueHandle that took it over from a UniqueFileHandle was closed (%d close calls)", calls), ""); ::close(fd); }
    }
    // an interrupted close(): the kernel has released the descriptor although close() reports EINTR; the owner must not close that number again
    for (int how = 0; how < 3; how++) {
      int fd = ::open("/dev/null", O_RDONLY); if (fd < 0) break;
      g_close_watch_fd = fd; g_close_calls = 0; g_close_inject_eintr = true;
      { nop::UniqueFileHandle h{fd}; if (how == 1) h.close(); else if (how == 2) { nop::UniqueFileHandle other = nop::UniqueFileHandle::Open("/dev/null", O_RDONLY); h = std::move(other); } }
      int calls = g_close_calls; g_close_watch_fd = -1; g_close_inject_eintr = false;
      rep().count("c15_interrupted_close_cases");
      if (calls != 1) rep().violation("C15:filehandle-closed-twice-after-EINTR", fmt("close() on the owned descriptor was interrupted (EINTR, descriptor already released): the UniqueFileHandle called close() %d times on that descriptor number (%s)", calls, how == 0 ? "destruction" : how == 1 ? "close()" : "move-assignment over it"), "");
    }
    // descriptor 0 is a valid descriptor (a process started with stdin closed gets it from open/accept/dup): in a forked child with fd 0 closed,
    // a UniqueFileHandle owning descriptor 0 must close it on destruction, close() and move-assignment over it
    { pid_t pid = fork();
      if (pid == 0) {
        ::close(0);
        { auto h = nop::UniqueFileHandle::Open("/dev/null", O_RDONLY); if (h.get() != 0) _exit(3); }
        if (fcntl(0, F_GETFD) >= 0) _exit(10);
        { auto h = nop::UniqueFileHandle::Open("/dev/null", O_RDONLY); if (h.get() != 0) _exit(3); h.close(); if (fcntl(0, F_GETFD) >= 0) _exit(11); if (h) _exit(13); }
        { auto h = nop::UniqueFileHandle::Open("/dev/null", O_RDONLY); auto h2 = nop::UniqueFileHandle::Open("/dev/null", O_RDONLY); if (h.get() != 0 || h2.get() <= 0) _exit(3); int other = h2.get(); h = std::move(h2);
          if (fcntl(0, F_GETFD) >= 0) _exit(12); if (h.get() != other || fcntl(other, F_GETFD) < 0) _exit(14); }
        { auto h = nop::UniqueFileHandle::Open("/dev/null", O_RDONLY); if (h.get() != 0) _exit(3); int rel = h.release(); if (rel != 0 || fcntl(0, F_GETFD) < 0) _exit(15); ::close(0); }
        _exit(0);
      }
      int status = 0; if (pid > 0 && waitpid(pid, &status, 0) == pid) {
        int rc = WIFEXITED(status) ? WEXITSTATUS(status) : -1;
        rep().count("c15_fd0_child_cases");
        const char* what = rc == 10 ? "destruction" : rc == 11 ? "close()" : rc == 12 ? "move-assignment over it" : rc == 13 ? "close() left the handle valid" : rc == 14 ? "move-assignment lost the new descriptor" : rc == 15 ? "release() closed the descriptor" : nullptr;
        if (what) rep().violation("C15:filehandle-fd0", fmt("a UniqueFileHandle owning descriptor 0: %s did not behave as for any other descriptor (descriptor 0 %s)", what, rc == 15 ? "was closed" : "stayed open"), "");
        else if (rc != 0) rep().counters["c15_fd0_child_inconclusive"]++;
      }
    }
    clear_current();
  }
}

int vf::engine_main() {
  const Args& a = args(); bool th = a.thorough();
  if (a.prop == "C12") {
    auto al = variant_alphabet();
    if (a.only_type.empty() || a.only_type == "Variant") run_histories<VariantRun>("Variant", "c12", al, kVNames, th ? 4 : 3, th ? 2000000 : 60000, 40, false);
    if ((a.only_type.empty() && a.worker == 0) || a.only_type == "special") variant_special();
    return 0;
  }
  if (a.prop == "C13") {
    auto al = opt_alphabet();
    if (a.only_type.empty() || a.only_type == "Optional/Result") run_histories<OptRun>("Optional/Result", "c13", al, kONames, th ? 4 : 3, th ? 2000000 : 60000, 40, false);
    if (!a.replay() || a.only_type == "Optional-compare" || a.only_type == "Status") c13_comparisons();
    if ((a.only_type.empty() && a.worker == 0) || a.only_type == "special") optional_special();
    return 0;
  }
  if (a.prop == "C15") {
    auto al = handle_alphabet();
    if (a.only_type.empty() || a.only_type == "UniqueHandle") run_histories<HandleRun>("UniqueHandle", "c15", al, kHNames, th ? 5 : 4, th ? 1000000 : 40000, 40, true);
    // the same histories with a policy derived from the library's DefaultHandlePolicy<int, -1> (shorter exhaustive part: the alphabet is the same)
    if (a.only_type.empty() || a.only_type == "UniqueHandle<derived policy>") run_histories<HandleRunDerived>("UniqueHandle<derived policy>", "c15", al, kHNames, th ? 4 : 3, th ? 400000 : 20000, 40, true);
    if (a.only_type.empty() || a.only_type != "UniqueHandle") c15_transfer();
    return 0;
  }
  fprintf(stderr, "life engine: unknown property %s\n", a.prop.c_str());
  return 2;
}
