// API-form stage of the codec engine (C01, C05, C06, C10): the property loops in main.cpp drive the library through
// Serializer<W*> / Deserializer<R*>; users equally use the other documented forms. This translation unit runs hand-written
// representative types through *every* form the headers offer:
//   Serializer<W> (internal writer instance, incl. take() and move construction), Serializer<W*>, Serializer<std::unique_ptr<W>>,
//   Deserializer<R>, Deserializer<R*>, Deserializer<std::unique_ptr<R>>, Protocol<T>::Write / Protocol<T>::Read on top of each,
// over LogWriter/LogReader (call log, fault injection), Buffer, PedanticBuffer, Stream<stringstream>, Fd(memfd) media.
// Oracles: all forms emit the bytes RefEncode prescribes; all forms read the sequence back to equal value trees and end exactly after
// the bytes; GetSize agrees across forms and equals the bytes written; every strict prefix is rejected by every reader form; a fault at
// the k-th primitive call is returned unchanged with no further call, and a failed Prepare writes nothing.
#include <memory>
#include <sstream>
#include "vlib/ops.h"
#include "ref/genval.h"
#include <nop/protocol.h>

using namespace vf;

namespace formtypes {
struct Inner { std::uint16_t a{}; std::string s; NOP_STRUCTURE(Inner, a, s); };
struct Rec {
  std::int64_t id{}; std::vector<std::uint32_t> v; std::map<std::string, std::int32_t> m; nop::Optional<Inner> o;
  std::uint16_t lb[6]{}; std::uint8_t nlb{0};
  NOP_STRUCTURE(Rec, id, v, m, o, (lb, nlb));
};
struct Tab { nop::Entry<std::string, 1> name; nop::Entry<std::vector<Inner>, 2> items; nop::Entry<int, 3, nop::DeletedEntry> gone; nop::Entry<std::uint64_t, 300> big; NOP_TABLE_NS("verif.forms.Tab", Tab, name, items, gone, big); };
}  // namespace formtypes
namespace vf {
template <> struct Reflect<formtypes::Inner> {
  using T = formtypes::Inner;
  static Sch schema() { Sch s{K::STU}; s.kids = {SchemaOf<std::uint16_t>(), SchemaOf<std::string>()}; s.name = "Inner"; return s; }
  static Val to(const T& x) { Val v; v.kids = {ToVal(x.a), ToVal(x.s)}; return v; }
  static void from(const Val& v, T* x) { FromVal(v.kids[0], &x->a); FromVal(v.kids[1], &x->s); }
};
template <> struct Reflect<formtypes::Rec> {
  using T = formtypes::Rec;
  static Sch schema() { Sch s{K::STU}; s.kids = {SchemaOf<std::int64_t>(), SchemaOf<std::vector<std::uint32_t>>(), SchemaOf<std::map<std::string, std::int32_t>>(), SchemaOf<nop::Optional<formtypes::Inner>>(), lb_schema<decltype(T::lb), decltype(T::nlb)>()}; s.name = "Rec"; return s; }
  static Val to(const T& x) { Val v; v.kids = {ToVal(x.id), ToVal(x.v), ToVal(x.m), ToVal(x.o), lb_to(x.lb, x.nlb)}; return v; }
  static void from(const Val& v, T* x) { FromVal(v.kids[0], &x->id); FromVal(v.kids[1], &x->v); FromVal(v.kids[2], &x->m); FromVal(v.kids[3], &x->o); lb_from(v.kids[4], &x->lb, &x->nlb); }
};
template <> struct Reflect<formtypes::Tab> {
  using T = formtypes::Tab;
  static Sch schema() { Sch s{K::TAB}; s.hash = 0; s.kids = {SchemaOf<std::string>(), SchemaOf<std::vector<formtypes::Inner>>(), SchemaOf<int>(), SchemaOf<std::uint64_t>()}; s.ids = {1, 2, 3, 300}; s.active = {1, 1, 0, 1}; s.name = "Tab"; return s; }
  static Val to(const T& x) { Val v; v.kids = {ToVal(x.name), ToVal(x.items), Val(), ToVal(x.big)}; return v; }
  static void from(const Val& v, T* x) { FromVal(v.kids[0], &x->name); FromVal(v.kids[1], &x->items); FromVal(v.kids[3], &x->big); }
};
}  // namespace vf


// ---- legal shapes of the Writer/Reader concept: the documented interface is "writer->Prepare(size)" / "reader->Ensure(size)" as expressions, so a
// class may declare those members overloaded, as templates, with defaulted extra parameters, static, or inherit them. Everything is forwarded to a
// LogWriter/LogReader, which records the calls; the library must treat all shapes alike (Prepare first, with the encoded size; errors verbatim).
namespace shapes {
struct WBase {
  vf::LogWriter log;
  nop::Status<void> Write(std::uint8_t b) { return log.Write(b); }
  template <typename T, typename Enable = nop::EnableIfArithmetic<T>> nop::Status<void> Write(const T* b, const T* e) { return log.Write(b, e); }
  nop::Status<void> Skip(std::size_t n, std::uint8_t v = 0x00) { return log.Skip(n, v); }
  template <typename H> nop::Status<nop::HandleReference> PushHandle(const H& h) { return log.PushHandle(h); }
};
struct WOverloaded : WBase { nop::Status<void> Prepare(std::size_t n) { return Prepare(n, 1); } nop::Status<void> Prepare(std::size_t n, std::size_t /*alignment*/) { return log.Prepare(n); } static const char* name() { return "writer with overloaded Prepare(size)/Prepare(size, alignment)"; } };
struct WTemplate : WBase { template <typename S> nop::Status<void> Prepare(S n) { return log.Prepare((std::size_t)n); } static const char* name() { return "writer with a template Prepare"; } };
struct WDefaulted : WBase { nop::Status<void> Prepare(std::size_t n, int /*hint*/ = 0) { return log.Prepare(n); } static const char* name() { return "writer whose Prepare has a defaulted second parameter"; } };
struct WPrepBase : WBase { nop::Status<void> Prepare(std::size_t n) { return log.Prepare(n); } };
struct WInherited : WPrepBase { static const char* name() { return "writer inheriting Prepare from a base class"; } };
struct WConstRef : WBase { nop::Status<void> Prepare(const std::size_t& n) const { return const_cast<vf::LogWriter&>(log).Prepare(n); } static const char* name() { return "writer with Prepare(const size_t&) const"; } };
struct WPrivateBase : private WPrepBase { using WPrepBase::Prepare; using WBase::Write; using WBase::Skip; using WBase::PushHandle; using WBase::log; static const char* name() { return "writer exposing Prepare through a using-declaration"; } };
struct RBase {
  vf::LogReader log;
  nop::Status<void> Read(std::uint8_t* b) { return log.Read(b); }
  template <typename T, typename Enable = nop::EnableIfArithmetic<T>> nop::Status<void> Read(T* b, T* e) { return log.Read(b, e); }
  nop::Status<void> Skip(std::size_t n) { return log.Skip(n); }
  template <typename H> nop::Status<H> GetHandle(nop::HandleReference r) { return log.template GetHandle<H>(r); }
};
struct ROverloaded : RBase { nop::Status<void> Ensure(std::size_t n) { return Ensure(n, 1); } nop::Status<void> Ensure(std::size_t n, std::size_t) { return log.Ensure(n); } static const char* name() { return "reader with overloaded Ensure"; } };
struct RTemplate : RBase { template <typename S> nop::Status<void> Ensure(S n) { return log.Ensure((std::size_t)n); } static const char* name() { return "reader with a template Ensure"; } };
struct RDefaulted : RBase { nop::Status<void> Ensure(std::size_t n, int = 0) { return log.Ensure(n); } static const char* name() { return "reader whose Ensure has a defaulted second parameter"; } };
struct REnsBase : RBase { nop::Status<void> Ensure(std::size_t n) { return log.Ensure(n); } };
struct RInherited : REnsBase { static const char* name() { return "reader inheriting Ensure from a base class"; } };
}  // namespace shapes
namespace {
using SW = nop::StreamWriter<std::stringstream>;
using SR = nop::StreamReader<std::stringstream>;

// independent SipHash-2-4 of the table name (the table hash on the wire is part of the documented bytes)
uint64_t rotl(uint64_t x, int b) { return (x << b) | (x >> (64 - b)); }
uint64_t siphash24(const uint8_t* in, size_t n, uint64_t k0, uint64_t k1) {
  uint64_t v0 = k0 ^ 0x736f6d6570736575ull, v1 = k1 ^ 0x646f72616e646f6dull, v2 = k0 ^ 0x6c7967656e657261ull, v3 = k1 ^ 0x7465646279746573ull;
  auto rnd = [&]() { v0 += v1; v2 += v3; v1 = rotl(v1, 13); v3 = rotl(v3, 16); v1 ^= v0; v3 ^= v2; v0 = rotl(v0, 32); v2 += v1; v0 += v3; v1 = rotl(v1, 17); v3 = rotl(v3, 21); v1 ^= v2; v3 ^= v0; v2 = rotl(v2, 32); };
  size_t i = 0; for (; i + 8 <= n; i += 8) { uint64_t m = 0; for (int j = 0; j < 8; j++) m |= (uint64_t)in[i + j] << (8 * j); v3 ^= m; rnd(); rnd(); v0 ^= m; }
  uint64_t last = (uint64_t)(n & 0xff) << 56; for (size_t j = 0; i + j < n; j++) last |= (uint64_t)in[i + j] << (8 * j);
  v3 ^= last; rnd(); rnd(); v0 ^= last; v2 ^= 0xff; rnd(); rnd(); rnd(); rnd(); return v0 ^ v1 ^ v2 ^ v3;
}

struct FormCtx { std::string prop; std::string tname; uint64_t ci; };
void viol(const FormCtx& c, const std::string& key, const std::string& what) {
  rep().violation(key, c.tname + ": " + what, case_desc(("forms:" + c.tname).c_str(), (int64_t)c.ci, "forms", "{}"));
}

template <typename T> struct Vals { std::vector<std::unique_ptr<Holder<T>>> objs; std::vector<Val> v0; Bytes ref; std::vector<size_t> ends; };

// ---- writer media with uniform access to the produced bytes
struct MLog { LogWriter w; Bytes bytes() { return w.data; } };
struct MBuf { ExactBuf b; size_t cap; explicit MBuf(size_t n) : cap(n) { b.alloc(n); } };

template <typename T, typename Ser> bool write_all(Ser& s, const Vals<T>& vs, const FormCtx& c, const char* form, bool protocol) {
  for (size_t i = 0; i < vs.objs.size(); i++) {
    auto st = protocol ? nop::Protocol<T>::Write(&s, vs.objs[i]->get()) : s.Write(vs.objs[i]->get());
    if (!st) { viol(c, fmt("%s:forms:write-failed:%s", c.prop.c_str(), form), fmt("%s: Write failed with '%s' on value %zu", form, errname(st.error()), i)); return false; }
    size_t gs = s.GetSize(vs.objs[i]->get()); size_t expect = vs.ends[i] - (i ? vs.ends[i - 1] : 0);
    if (gs != expect) viol(c, fmt("%s:forms:getsize:%s", c.prop.c_str(), form), fmt("%s: GetSize %zu, the value encodes to %zu bytes", form, gs, expect));
  }
  return true;
}
void cmp_bytes(const Bytes& got, const Bytes& ref, const FormCtx& c, const char* form) {
  rep().count("forms_writer_form_runs"); rep().count(std::string("forms_writer_") + form);
  if (got != ref) viol(c, fmt("%s:forms:bytes-differ:%s", c.prop.c_str(), form), fmt("%s produced %s, expected %s", form, hex(got, 48).c_str(), hex(ref, 48).c_str()));
}
template <typename T, typename De> void read_all(De& d, const Vals<T>& vs, const FormCtx& c, const char* form, bool protocol) {
  rep().count("forms_reader_form_runs"); rep().count(std::string("forms_reader_") + form);
  for (size_t i = 0; i < vs.objs.size(); i++) {
    Holder<T> h; auto st = protocol ? nop::Protocol<T>::Read(&d, &h.get()) : d.Read(&h.get());
    if (!st) { viol(c, fmt("%s:forms:read-failed:%s", c.prop.c_str(), form), fmt("%s: Read failed with '%s' on value %zu of bytes the library wrote", form, errname(st.error()), i)); return; }
    if (canoned(SchemaOf<T>(), ToVal<T>(h.get())) != vs.v0[i]) { viol(c, fmt("%s:forms:value-differs:%s", c.prop.c_str(), form), fmt("%s: value %zu read back differently", form, i)); return; }
  }
  std::uint32_t sentinel = 0; auto st = d.Read(&sentinel);
  if (!st || sentinel != 0xdeadbeefu) viol(c, fmt("%s:forms:sentinel:%s", c.prop.c_str(), form), fmt("%s: the value following the sequence did not read back (consumed length wrong)", form));
}

// Fd readers/writers have no Skip: tables are not instantiated on them (as C01 states: "that offers the operations the type needs")
template <typename T, typename W> void writer_shape_case(const T& v, const Bytes& expect, uint64_t ncalls_ref, const FormCtx& c) {
  static const nop::ErrorStatus errs[] = {nop::ErrorStatus::WriteLimitReached, nop::ErrorStatus::StreamError, nop::ErrorStatus::IOError, nop::ErrorStatus::ProtocolError, nop::ErrorStatus::DebugError};
  const char* fn = W::name();
  { W w; nop::Serializer<W*> s{&w}; const size_t gs = s.GetSize(v); auto st = s.Write(v); rep().count("forms_writer_shapes_written"); rep().note_enumerated(true);
    if (!st) viol(c, fmt("C10:forms:shape:write-failed:%s", fn), fmt("%s: Write failed with '%s' without any injected fault", fn, errname(st.error())));
    else {
      if (w.log.data != expect) viol(c, fmt("C10:forms:shape:bytes:%s", fn), fmt("%s: bytes differ from the reference encoding", fn));
      if (w.log.calls.empty() || w.log.calls[0].op != Op::Prepare) viol(c, fmt("C10:forms:shape:prepare-not-first:%s", fn), fmt("%s: the first writer call of Serializer::Write is %s, not Prepare", fn, w.log.calls.empty() ? "(none)" : opname(w.log.calls[0].op)));
      else if (w.log.calls[0].size != gs) viol(c, fmt("C10:forms:shape:prepare-size:%s", fn), fmt("%s: Prepare(%" PRIu64 ") but GetSize is %zu", fn, w.log.calls[0].size, gs));
      if (w.log.ncalls != ncalls_ref) viol(c, fmt("C10:forms:shape:call-count:%s", fn), fmt("%s: %" PRIu64 " writer calls, a plain LogWriter sees %" PRIu64, fn, w.log.ncalls, ncalls_ref));
    } }
  for (uint64_t k = 0; k < ncalls_ref && k < 60; k++) { const int ei = (int)((k + c.ci) % 5);
    W w; w.log.fault.fail_at = (int64_t)k; w.log.fault.error = errs[ei]; nop::Serializer<W*> s{&w}; auto st = s.Write(v); rep().count("forms_writer_shape_faults"); rep().note_enumerated(true);
    if (st) viol(c, fmt("C10:forms:shape:success-after-fault:%s", fn), fmt("%s: fault at writer call %" PRIu64 " but Write reported success", fn, k));
    else if (st.error() != errs[ei]) viol(c, fmt("C10:forms:shape:error-changed:%s", fn), fmt("%s: injected '%s', returned '%s'", fn, errname(errs[ei]), errname(st.error())));
    if (w.log.calls_after_failure) viol(c, fmt("C10:forms:shape:calls-after-fault:%s", fn), fmt("%s: %" PRIu64 " further writer calls after the failed call %" PRIu64, fn, w.log.calls_after_failure, k));
    if (k == 0 && !w.log.data.empty()) viol(c, fmt("C10:forms:shape:written-after-failed-prepare:%s", fn), fmt("%s: %zu bytes were written although Prepare failed", fn, w.log.data.size()));
  }
  // a writer with room for everything but the last byte: Prepare refuses, nothing may be written, WriteLimitReached comes back verbatim
  if (!expect.empty()) { W w; w.log.capacity = expect.size() - 1; nop::Serializer<W*> s{&w}; auto st = s.Write(v); rep().count("forms_writer_shape_refusals");
    if (st) viol(c, fmt("C10:forms:shape:success-after-refusal:%s", fn), fmt("%s: capacity one byte short but Write reported success", fn));
    else if (st.error() != nop::ErrorStatus::WriteLimitReached) viol(c, fmt("C10:forms:shape:error-changed:%s", fn), fmt("%s: writer refused with 'Write Limit Reached', returned '%s'", fn, errname(st.error())));
    if (!w.log.data.empty()) viol(c, fmt("C10:forms:shape:written-after-failed-prepare:%s", fn), fmt("%s: %zu bytes were written although Prepare refused", fn, w.log.data.size())); }
}
template <typename T, typename R> void reader_shape_case(const Bytes& enc, const Val& v0, const Sch& sch, uint64_t rcalls_ref, const std::vector<Call>& ref_calls, const FormCtx& c) {
  static const nop::ErrorStatus rerrs[] = {nop::ErrorStatus::ReadLimitReached, nop::ErrorStatus::StreamError, nop::ErrorStatus::IOError, nop::ErrorStatus::ProtocolError, nop::ErrorStatus::DebugError};
  const char* fn = R::name(); ExactBuf b(enc.data(), enc.size());
  { R r; r.log = LogReader(b.p, enc.size()); nop::Deserializer<R*> d{&r}; Holder<T> h; auto st = d.Read(&h.get()); rep().count("forms_reader_shapes_read"); rep().note_enumerated(true);
    if (!st) viol(c, fmt("C10:forms:shape:read-failed:%s", fn), fmt("%s: Read failed with '%s' without any injected fault", fn, errname(st.error())));
    else {
      if (!(canoned(sch, ToVal<T>(h.get())) == v0)) viol(c, fmt("C10:forms:shape:value:%s", fn), fmt("%s: value read differs from the value written", fn));
      if (r.log.ncalls != rcalls_ref) viol(c, fmt("C10:forms:shape:call-count:%s", fn), fmt("%s: %" PRIu64 " reader calls, a plain LogReader sees %" PRIu64, fn, r.log.ncalls, rcalls_ref));
      else for (size_t i = 0; i < ref_calls.size(); i++) if (r.log.calls[i].op != ref_calls[i].op || r.log.calls[i].size != ref_calls[i].size) { viol(c, fmt("C10:forms:shape:call-sequence:%s", fn), fmt("%s: reader call %zu is %s(%" PRIu64 "), a plain LogReader sees %s(%" PRIu64 ")", fn, i, opname(r.log.calls[i].op), r.log.calls[i].size, opname(ref_calls[i].op), ref_calls[i].size)); break; }
    } }
  for (uint64_t k = 0; k < rcalls_ref && k < 60; k++) { const int ei = (int)((k + c.ci) % 5);
    R r; r.log = LogReader(b.p, enc.size()); r.log.fault.fail_at = (int64_t)k; r.log.fault.error = rerrs[ei]; nop::Deserializer<R*> d{&r}; Holder<T> h; auto st = d.Read(&h.get()); rep().count("forms_reader_shape_faults"); rep().note_enumerated(true);
    if (st) viol(c, fmt("C10:forms:shape:success-after-fault:%s", fn), fmt("%s: fault at reader call %" PRIu64 " but Read reported success", fn, k));
    else if (st.error() != rerrs[ei]) viol(c, fmt("C10:forms:shape:error-changed:%s", fn), fmt("%s: injected '%s', returned '%s'", fn, errname(rerrs[ei]), errname(st.error())));
    if (r.log.calls_after_failure) viol(c, fmt("C10:forms:shape:calls-after-fault:%s", fn), fmt("%s: %" PRIu64 " further reader calls after the failed call %" PRIu64, fn, r.log.calls_after_failure, k));
  }
}
template <typename T> struct HasFd : std::integral_constant<bool, !std::is_same<T, formtypes::Tab>::value> {};
template <typename T> void fd_write_form(const Vals<T>&, const FormCtx&, bool, std::false_type) {}
template <typename T> void fd_write_form(const Vals<T>& vs, const FormCtx& c, bool protocol, std::true_type) {
  int fd = memfd_create("vforms", 0);
  { nop::Serializer<nop::FdWriter> s{::dup(fd)}; if (write_all<T>(s, vs, c, "Serializer<FdWriter>", protocol)) { Bytes got((size_t)::lseek(fd, 0, SEEK_CUR)); if (!got.empty()) { ssize_t rr = ::pread(fd, got.data(), got.size(), 0); (void)rr; } cmp_bytes(got, vs.ref, c, "Serializer<FdWriter>"); } }
  ::close(fd);
}
template <typename T> void fd_read_form(const Bytes&, const Vals<T>&, const FormCtx&, bool, std::false_type) {}
template <typename T> void fd_read_form(const Bytes& stream, const Vals<T>& vs, const FormCtx& c, bool protocol, std::true_type) {
  int fd = make_memfd(stream.data(), stream.size()); { nop::Deserializer<nop::FdReader> d{::dup(fd)}; read_all<T>(d, vs, c, "Deserializer<FdReader>", protocol); } ::close(fd);
}
template <typename T> int fd_cut_form(const Bytes&, size_t, std::false_type) { return -1; }
template <typename T> int fd_cut_form(const Bytes& ref, size_t k, std::true_type) {
  int fd = make_memfd(ref.data(), k); int ok; { nop::Deserializer<nop::FdReader> d{::dup(fd)}; Holder<T> h; ok = (bool)d.Read(&h.get()) ? 1 : 0; } ::close(fd); return ok;
}

template <typename T> void one_case(const char* tname, uint64_t ci, const std::string& prop, const Sch& enc_schema) {
  FormCtx c{prop, tname, ci};
  set_current("%s", case_desc((std::string("forms:") + tname).c_str(), (int64_t)ci, "forms", "{}").c_str());
  Rng r = case_rng(tname, ci, 4711); GenOpts go; go.max_seq = 40; Gen g(r, go);
  const Sch sch = SchemaOf<T>();
  Vals<T> vs; int n = 1 + (int)(ci % 3);
  for (int i = 0; i < n; i++) {
    vs.objs.emplace_back(new Holder<T>()); FromVal<T>(g.gen(sch), &vs.objs.back()->get());
    Val v = ToVal<T>(vs.objs.back()->get()); Enc e; RefEncode(enc_schema, v, e); vs.ref.insert(vs.ref.end(), e.out.begin(), e.out.end()); vs.ends.push_back(vs.ref.size()); vs.v0.push_back(canoned(sch, v));
  }
  rep().note(hash_combine(hash_str(tname), hash_bytes(vs.ref.data(), vs.ref.size())), vs.ref.size() >= 2);
  const size_t N = vs.ref.size();
  Bytes stream = vs.ref; const uint8_t sent[5] = {0x82, 0xef, 0xbe, 0xad, 0xde}; stream.insert(stream.end(), sent, sent + 5);

  if (prop == "C01" || prop == "C06") {
    for (int protocol = 0; protocol < 2; protocol++) {
      // ---- internal instance
      { nop::Serializer<LogWriter> s; if (write_all<T>(s, vs, c, "Serializer<LogWriter>", protocol)) cmp_bytes(s.writer().data, vs.ref, c, "Serializer<LogWriter>"); }
      { ExactBuf b; b.alloc(N); nop::Serializer<nop::BufferWriter> s{b.p, N}; if (write_all<T>(s, vs, c, "Serializer<BufferWriter>", protocol)) { if (s.writer().size() != N) viol(c, prop + ":forms:size:Serializer<BufferWriter>", "writer().size() differs from the bytes written"); cmp_bytes(b.vec(N), vs.ref, c, "Serializer<BufferWriter>"); } }
      { ExactBuf b; b.alloc(N); nop::Serializer<nop::PedanticBufferWriter> s{b.p, N}; if (write_all<T>(s, vs, c, "Serializer<PedanticBufferWriter>", protocol)) cmp_bytes(b.vec(N), vs.ref, c, "Serializer<PedanticBufferWriter>"); }
      { nop::Serializer<SW> s; if (write_all<T>(s, vs, c, "Serializer<StreamWriter>", protocol)) { std::string o = s.writer().stream().str(); cmp_bytes(Bytes(o.begin(), o.end()), vs.ref, c, "Serializer<StreamWriter>"); } }
      { // take(): the writer moved out of the serializer carries everything written so far and keeps working in a new serializer
        // (stream readers/writers are neither movable nor copyable - their copy members are defaulted over a stream - so take() is exercised on the buffer kinds)
        ExactBuf b; b.alloc(N); nop::Serializer<nop::BufferWriter> s{b.p, N};
        auto st = s.Write(vs.objs[0]->get()); bool ok = (bool)st;
        nop::Serializer<nop::BufferWriter> s2{s.take()};
        for (size_t i = 1; ok && i < vs.objs.size(); i++) { st = s2.Write(vs.objs[i]->get()); ok = (bool)st; }
        if (!ok) viol(c, prop + ":forms:write-failed:Serializer<BufferWriter>::take", "Write failed around take()"); else cmp_bytes(b.vec(N), vs.ref, c, "Serializer<BufferWriter>::take");
      }
      { // move construction of a serializer with an internal buffer writer keeps position and capacity
        ExactBuf b; b.alloc(N); nop::Serializer<nop::PedanticBufferWriter> s{b.p, N}; bool ok = (bool)s.Write(vs.objs[0]->get());
        nop::Serializer<nop::PedanticBufferWriter> s2{std::move(s)};
        for (size_t i = 1; ok && i < vs.objs.size(); i++) ok = (bool)s2.Write(vs.objs[i]->get());
        if (!ok) viol(c, prop + ":forms:write-failed:Serializer<PedanticBufferWriter>::move", "Write failed around move construction"); else cmp_bytes(b.vec(N), vs.ref, c, "Serializer<PedanticBufferWriter>::move");
      }
      fd_write_form<T>(vs, c, protocol, HasFd<T>{});
      // ---- pointer
      { LogWriter w; nop::Serializer<LogWriter*> s{&w}; if (write_all<T>(s, vs, c, "Serializer<LogWriter*>", protocol)) cmp_bytes(w.data, vs.ref, c, "Serializer<LogWriter*>"); }
      { SW w; nop::Serializer<SW*> s{&w}; nop::Serializer<SW*> s_copy = s; if (write_all<T>(s_copy, vs, c, "Serializer<StreamWriter*>", protocol)) { std::string o = w.stream().str(); cmp_bytes(Bytes(o.begin(), o.end()), vs.ref, c, "Serializer<StreamWriter*>"); } }
      // ---- unique_ptr
      { nop::Serializer<std::unique_ptr<LogWriter>> s{std::unique_ptr<LogWriter>(new LogWriter())}; if (write_all<T>(s, vs, c, "Serializer<unique_ptr<LogWriter>>", protocol)) cmp_bytes(s.writer().data, vs.ref, c, "Serializer<unique_ptr<LogWriter>>"); }
      { ExactBuf b; b.alloc(N); nop::Serializer<std::unique_ptr<nop::PedanticBufferWriter>> s{std::unique_ptr<nop::PedanticBufferWriter>(new nop::PedanticBufferWriter(b.p, N))}; nop::Serializer<std::unique_ptr<nop::PedanticBufferWriter>> s2{std::move(s)};
        if (write_all<T>(s2, vs, c, "Serializer<unique_ptr<PedanticBufferWriter>>", protocol)) cmp_bytes(b.vec(N), vs.ref, c, "Serializer<unique_ptr<PedanticBufferWriter>>"); }
      // ---- readers: internal instance / pointer / unique_ptr
      { ExactBuf b(stream.data(), stream.size()); nop::Deserializer<LogReader> d{b.p, stream.size()}; read_all<T>(d, vs, c, "Deserializer<LogReader>", protocol); }
      { ExactBuf b(stream.data(), stream.size()); nop::Deserializer<nop::BufferReader> d{b.p, stream.size()}; read_all<T>(d, vs, c, "Deserializer<BufferReader>", protocol); if (d.reader().remaining() != 0) viol(c, prop + ":forms:consumed:Deserializer<BufferReader>", "bytes left over after the sequence and the sentinel"); }
      { ExactBuf b(stream.data(), stream.size()); nop::Deserializer<nop::PedanticBufferReader> d{b.p, stream.size()}; read_all<T>(d, vs, c, "Deserializer<PedanticBufferReader>", protocol); if (d.reader().remaining() != 0) viol(c, prop + ":forms:consumed:Deserializer<PedanticBufferReader>", "bytes left over after the sequence and the sentinel"); }
      { nop::Deserializer<SR> d{std::string((const char*)stream.data(), stream.size())}; read_all<T>(d, vs, c, "Deserializer<StreamReader>", protocol); }
      { // a stream whose first bytes the application consumed itself, handed to the reader as an rvalue: reading continues where the stream stands
        std::string all = std::string("\x2a\x2b") + std::string((const char*)stream.data(), stream.size()); std::stringstream ss(all); char h0, h1; ss.get(h0); ss.get(h1);
        nop::Deserializer<SR> d{std::move(ss)}; read_all<T>(d, vs, c, "Deserializer<StreamReader>(stream&& after a header)", protocol); }
      { // and the writer side: a stream that already holds application data, handed over as an rvalue: the encoding is appended
        std::stringstream ss; ss << "hd"; nop::Serializer<SW> s{std::move(ss)}; if (write_all<T>(s, vs, c, "Serializer<StreamWriter>(stream&& holding a header)", protocol)) { std::string o = s.writer().stream().str(); Bytes want = {'h', 'd'}; want.insert(want.end(), vs.ref.begin(), vs.ref.end()); cmp_bytes(Bytes(o.begin(), o.end()), want, c, "Serializer<StreamWriter>(stream&& holding a header)"); } }
      { ExactBuf b(stream.data(), stream.size()); nop::Deserializer<nop::PedanticBufferReader> d0{b.p, stream.size()}; nop::Deserializer<nop::PedanticBufferReader> d{d0.take()}; read_all<T>(d, vs, c, "Deserializer<PedanticBufferReader>::take", protocol); }
      fd_read_form<T>(stream, vs, c, protocol, HasFd<T>{});
      { ExactBuf b(stream.data(), stream.size()); nop::PedanticBufferReader rd{b.p, stream.size()}; nop::Deserializer<nop::PedanticBufferReader*> d{&rd}; nop::Deserializer<nop::PedanticBufferReader*> dc = d; read_all<T>(dc, vs, c, "Deserializer<PedanticBufferReader*>", protocol); }
      { ExactBuf b(stream.data(), stream.size()); nop::Deserializer<std::unique_ptr<nop::BufferReader>> d{std::unique_ptr<nop::BufferReader>(new nop::BufferReader(b.p, stream.size()))}; nop::Deserializer<std::unique_ptr<nop::BufferReader>> d2{std::move(d)}; read_all<T>(d2, vs, c, "Deserializer<unique_ptr<BufferReader>>", protocol); }
      { nop::Deserializer<std::unique_ptr<SR>> d{std::unique_ptr<SR>(new SR(std::string((const char*)stream.data(), stream.size())))}; read_all<T>(d, vs, c, "Deserializer<unique_ptr<StreamReader>>", protocol); }
      { ExactBuf b(stream.data(), stream.size()); nop::PedanticBufferReader inner{b.p, stream.size()}; nop::Deserializer<nop::BoundedReader<nop::PedanticBufferReader>> d{&inner, stream.size()}; read_all<T>(d, vs, c, "Deserializer<BoundedReader<PedanticBufferReader>>", protocol); }
    }
    // ---- smaller capacity through the internal-instance forms: WriteLimitReached, nothing beyond the room (exact-size buffer under ASan)
    if (N > 0) for (size_t room : {N - 1, N / 2, (size_t)0}) {
      ExactBuf b; b.alloc(room); nop::Serializer<nop::PedanticBufferWriter> s{b.p, room}; nop::Status<void> st; size_t i = 0; for (; i < vs.objs.size(); i++) { st = s.Write(vs.objs[i]->get()); if (!st) break; }
      rep().count("forms_short_capacity_writes");
      if (i == vs.objs.size()) viol(c, prop + ":forms:short-capacity-accepted:Serializer<PedanticBufferWriter>", fmt("%zu bytes written into %zu bytes of room", N, room));
      else if (st.error() != nop::ErrorStatus::WriteLimitReached) viol(c, prop + ":forms:short-capacity-status:Serializer<PedanticBufferWriter>", fmt("status '%s' instead of WriteLimitReached", errname(st.error())));
      ExactBuf b2; b2.alloc(room); nop::Serializer<std::unique_ptr<nop::BufferWriter>> s2{std::unique_ptr<nop::BufferWriter>(new nop::BufferWriter(b2.p, room))}; i = 0; for (; i < vs.objs.size(); i++) { st = s2.Write(vs.objs[i]->get()); if (!st) break; }
      if (i == vs.objs.size()) viol(c, prop + ":forms:short-capacity-accepted:Serializer<unique_ptr<BufferWriter>>", fmt("%zu bytes written into %zu bytes of room", N, room));
      else if (st.error() != nop::ErrorStatus::WriteLimitReached) viol(c, prop + ":forms:short-capacity-status:Serializer<unique_ptr<BufferWriter>>", fmt("status '%s' instead of WriteLimitReached", errname(st.error())));
    }
  }

  if (prop == "C05") {
    // every strict prefix of a single value through every reader form
    const size_t L = vs.ends[0];
    for (size_t k = 0; k < L; k++) {
      auto chk = [&](bool ok, const char* form) { rep().count("forms_cut_reads"); rep().note_enumerated(k > 0); if (ok) viol(c, fmt("C05:forms:truncated-accepted:%s", form), fmt("%s accepted the first %zu of %zu bytes", form, k, L)); };
      { ExactBuf b(vs.ref.data(), k); nop::Deserializer<LogReader> d{b.p, k}; Holder<T> h; chk((bool)d.Read(&h.get()), "Deserializer<LogReader>"); }
      { ExactBuf b(vs.ref.data(), k); nop::Deserializer<nop::BufferReader> d{b.p, k}; Holder<T> h; chk((bool)d.Read(&h.get()), "Deserializer<BufferReader>"); }
      { ExactBuf b(vs.ref.data(), k); nop::Deserializer<nop::PedanticBufferReader> d{b.p, k}; Holder<T> h; chk((bool)nop::Protocol<T>::Read(&d, &h.get()), "Protocol::Read(Deserializer<PedanticBufferReader>)"); }
      { nop::Deserializer<SR> d{std::string((const char*)vs.ref.data(), k)}; Holder<T> h; chk((bool)d.Read(&h.get()), "Deserializer<StreamReader>"); }
      { nop::Deserializer<std::unique_ptr<SR>> d{std::unique_ptr<SR>(new SR(std::string((const char*)vs.ref.data(), k)))}; Holder<T> h; chk((bool)d.Read(&h.get()), "Deserializer<unique_ptr<StreamReader>>"); }
      { ExactBuf b(vs.ref.data(), k); nop::Deserializer<std::unique_ptr<nop::BufferReader>> d{std::unique_ptr<nop::BufferReader>(new nop::BufferReader(b.p, k))}; Holder<T> h; chk((bool)d.Read(&h.get()), "Deserializer<unique_ptr<BufferReader>>"); }
      { ExactBuf b(vs.ref.data(), L); nop::PedanticBufferReader inner{b.p, L}; nop::Deserializer<nop::BoundedReader<nop::PedanticBufferReader>> d{&inner, k}; Holder<T> h; chk((bool)d.Read(&h.get()), "Deserializer<BoundedReader<PedanticBufferReader>>(limit=k)"); }
      { int r = fd_cut_form<T>(vs.ref, k, HasFd<T>{}); if (r >= 0) chk(r != 0, "Deserializer<FdReader>"); }
    }
  }

  if (prop == "C10") {
    static const nop::ErrorStatus errs[] = {nop::ErrorStatus::WriteLimitReached, nop::ErrorStatus::StreamError, nop::ErrorStatus::IOError, nop::ErrorStatus::ProtocolError, nop::ErrorStatus::DebugError};
    static const nop::ErrorStatus rerrs[] = {nop::ErrorStatus::ReadLimitReached, nop::ErrorStatus::StreamError, nop::ErrorStatus::IOError, nop::ErrorStatus::ProtocolError, nop::ErrorStatus::DebugError};
    const T& v = vs.objs[0]->get();
    uint64_t ncalls; { nop::Serializer<LogWriter> s; (void)s.Write(v); ncalls = s.writer().ncalls; }
    for (uint64_t k = 0; k < ncalls && k < 200; k++) for (int ei = 0; ei < 5; ei++) for (int form = 0; form < 3; form++) {
      LogWriter ext; std::unique_ptr<LogWriter> up(new LogWriter()); LogWriter* upraw = up.get();
      nop::Serializer<LogWriter> s0; nop::Serializer<LogWriter*> s1{&ext}; nop::Serializer<std::unique_ptr<LogWriter>> s2{std::move(up)};
      LogWriter& w = form == 0 ? s0.writer() : form == 1 ? ext : *upraw;
      w.fault.fail_at = (int64_t)k; w.fault.error = errs[ei];
      auto st = form == 0 ? nop::Protocol<T>::Write(&s0, v) : form == 1 ? s1.Write(v) : s2.Write(v);
      const char* fn = form == 0 ? "Serializer<LogWriter>" : form == 1 ? "Serializer<LogWriter*>" : "Serializer<unique_ptr<LogWriter>>";
      rep().count("forms_write_faults"); rep().note_enumerated(true);
      if (st) viol(c, fmt("C10:forms:success-after-fault:write:%s", fn), fmt("%s: fault at writer call %" PRIu64 " (%s) but Write reported success", fn, k, opname(w.calls[k].op)));
      else if (st.error() != errs[ei]) viol(c, fmt("C10:forms:error-changed:write:%s", fn), fmt("%s: injected '%s', returned '%s'", fn, errname(errs[ei]), errname(st.error())));
      if (w.calls_after_failure) viol(c, fmt("C10:forms:calls-after-fault:write:%s", fn), fmt("%s: %" PRIu64 " further writer calls after the failed call %" PRIu64, fn, w.calls_after_failure, k));
      if (k == 0 && !w.data.empty()) viol(c, fmt("C10:forms:written-after-failed-prepare:%s", fn), "bytes were written although Prepare failed");
    }
    { const Bytes first(vs.ref.begin(), vs.ref.begin() + vs.ends[0]);
      writer_shape_case<T, shapes::WOverloaded>(v, first, ncalls, c); writer_shape_case<T, shapes::WTemplate>(v, first, ncalls, c); writer_shape_case<T, shapes::WDefaulted>(v, first, ncalls, c);
      writer_shape_case<T, shapes::WInherited>(v, first, ncalls, c); writer_shape_case<T, shapes::WConstRef>(v, first, ncalls, c); writer_shape_case<T, shapes::WPrivateBase>(v, first, ncalls, c); }
    uint64_t rcalls; std::vector<Call> rref; { ExactBuf b(vs.ref.data(), vs.ends[0]); nop::Deserializer<LogReader> d{b.p, vs.ends[0]}; Holder<T> h; (void)d.Read(&h.get()); rcalls = d.reader().ncalls; rref = d.reader().calls; }
    { const Bytes first(vs.ref.begin(), vs.ref.begin() + vs.ends[0]);
      reader_shape_case<T, shapes::ROverloaded>(first, vs.v0[0], sch, rcalls, rref, c); reader_shape_case<T, shapes::RTemplate>(first, vs.v0[0], sch, rcalls, rref, c);
      reader_shape_case<T, shapes::RDefaulted>(first, vs.v0[0], sch, rcalls, rref, c); reader_shape_case<T, shapes::RInherited>(first, vs.v0[0], sch, rcalls, rref, c); }
    for (uint64_t k = 0; k < rcalls && k < 200; k++) for (int ei = 0; ei < 5; ei++) for (int form = 0; form < 3; form++) {
      ExactBuf b(vs.ref.data(), vs.ends[0]); LogReader ext{b.p, vs.ends[0]}; std::unique_ptr<LogReader> up(new LogReader(b.p, vs.ends[0])); LogReader* upraw = up.get();
      nop::Deserializer<LogReader> d0{b.p, vs.ends[0]}; nop::Deserializer<LogReader*> d1{&ext}; nop::Deserializer<std::unique_ptr<LogReader>> d2{std::move(up)};
      LogReader& rd = form == 0 ? d0.reader() : form == 1 ? ext : *upraw;
      rd.fault.fail_at = (int64_t)k; rd.fault.error = rerrs[ei];
      Holder<T> h; auto st = form == 0 ? d0.Read(&h.get()) : form == 1 ? nop::Protocol<T>::Read(&d1, &h.get()) : d2.Read(&h.get());
      const char* fn = form == 0 ? "Deserializer<LogReader>" : form == 1 ? "Deserializer<LogReader*>" : "Deserializer<unique_ptr<LogReader>>";
      rep().count("forms_read_faults"); rep().note_enumerated(true);
      if (st) viol(c, fmt("C10:forms:success-after-fault:read:%s", fn), fmt("%s: fault at reader call %" PRIu64 " but Read reported success", fn, k));
      else if (st.error() != rerrs[ei]) viol(c, fmt("C10:forms:error-changed:read:%s", fn), fmt("%s: injected '%s', returned '%s'", fn, errname(rerrs[ei]), errname(st.error())));
      if (rd.calls_after_failure) viol(c, fmt("C10:forms:calls-after-fault:read:%s", fn), fmt("%s: %" PRIu64 " further reader calls after the failed call %" PRIu64, fn, rd.calls_after_failure, k));
    }
  }
  clear_current();
}
}  // namespace

// ---- stated exclusion with its own obligation (C01 quantifier: "logical buffers whose size member exceeds capacity (Write must reject those)"):
// the size member may be a narrow signed integer, in which case an out-of-range count is negative. GetSize of such an object feeds Prepare; whatever
// it returns, Write into a buffer of exactly that many bytes must end in an error without touching a byte beyond the buffer (ASan on an exact-size buffer).
namespace formtypes {
struct NegI8 { std::string name; std::uint16_t data[5]{}; std::int8_t n{0}; float f{1.5f}; NOP_STRUCTURE(NegI8, name, (data, n), f); };
struct NegI16 { std::vector<std::string> names; std::uint32_t data[100]{}; std::int16_t n{0}; NOP_STRUCTURE(NegI16, names, (data, n)); };
struct NegInt { std::string name; std::string items[3]; int n{0}; NOP_STRUCTURE(NegInt, name, (items, n)); };
}
template <typename T, typename Set> static void oversize_case(const char* tname, const std::string& prop, Set set_count, std::initializer_list<long> counts) {
  for (long cnt : counts) for (size_t lead : {(size_t)0, (size_t)90, (size_t)140, (size_t)300, (size_t)70000}) {
    T v; set_count(v, cnt, lead);
    set_current("%s", case_desc((std::string("forms:") + tname).c_str(), cnt, "oversize-size-member", J().i("count", cnt).u("leading_bytes", lead).str()).c_str());
    nop::Serializer<LogWriter*> probe{nullptr}; size_t gs = probe.GetSize(v);
    rep().count("forms_oversize_size_member_writes"); rep().note(hash_combine(hash_str(tname), hash_combine((uint64_t)cnt, lead)), true);
    size_t cap = gs < (4u << 20) ? gs : (4u << 20);
    { ExactBuf b; b.alloc(cap); nop::Serializer<nop::BufferWriter> s{b.p, cap}; auto st = s.Write(v);
      if (st) rep().violation(fmt("%s:forms:oversize-logical-buffer-accepted:%s", prop.c_str(), tname), fmt("%s with size member %ld (capacity exceeded) was written successfully", tname, cnt), case_desc((std::string("forms:") + tname).c_str(), cnt, "oversize-size-member", "{}")); }
    { ExactBuf b; b.alloc(cap); nop::Serializer<nop::PedanticBufferWriter> s{b.p, cap}; auto st = s.Write(v);
      if (st) rep().violation(fmt("%s:forms:oversize-logical-buffer-accepted:%s", prop.c_str(), tname), fmt("%s with size member %ld (capacity exceeded) was written successfully (pedantic writer)", tname, cnt), case_desc((std::string("forms:") + tname).c_str(), cnt, "oversize-size-member", "{}")); }
    clear_current();
  }
}
static void oversize_stage(const std::string& prop) {
  if (!mine(900777) && !args().replay()) return;
  if (!args().only_type.empty() && args().only_type.compare(0, 6, "forms:") != 0) return;
  oversize_case<formtypes::NegI8>("NegI8", prop, [](formtypes::NegI8& v, long c, size_t lead) { v.name.assign(lead, 'n'); v.n = (std::int8_t)c; }, {6, 127, -1, -2, -63, -64, -128});
  oversize_case<formtypes::NegI16>("NegI16", prop, [](formtypes::NegI16& v, long c, size_t lead) { v.names.assign(lead / 10, std::string(9, 's')); v.n = (std::int16_t)c; }, {101, 32767, -1, -100, -32768});
  oversize_case<formtypes::NegInt>("NegInt", prop, [](formtypes::NegInt& v, long c, size_t lead) { v.name.assign(lead, 'n'); v.n = (int)c; }, {4, -1, -2});
}

// called by the codec engine for C01, C05, C06 and C10
void forms_stage(const std::string& prop) {
  if (prop == "C01" || prop == "C06") oversize_stage(prop);
  int n = args().thorough() ? 400 : 40;
  Sch tab = SchemaOf<formtypes::Tab>();
  { const char nm[] = "verif.forms.Tab"; tab.hash = siphash24((const uint8_t*)nm, sizeof(nm), 0xbaadf00ddeadbeefull, 0x0123456789abcdefull); }
  for (int ci = 0; ci < n; ci++) {
    if (!args().replay() && !mine(900000 + (uint64_t)ci)) continue;
    if (args().only_case >= 0 && args().only_case != ci) continue;
    auto want = [&](const char* t) { return args().only_type.empty() || args().only_type == "forms:*" || args().only_type == std::string("forms:") + t; };
    if (want("i64")) one_case<std::int64_t>("i64", (uint64_t)ci, prop, SchemaOf<std::int64_t>());
    if (want("string")) one_case<std::string>("string", (uint64_t)ci, prop, SchemaOf<std::string>());
    if (want("vector<u32>")) one_case<std::vector<std::uint32_t>>("vector<u32>", (uint64_t)ci, prop, SchemaOf<std::vector<std::uint32_t>>());
    if (want("tuple")) one_case<std::tuple<std::uint8_t, std::string, std::vector<std::int16_t>>>("tuple", (uint64_t)ci, prop, SchemaOf<std::tuple<std::uint8_t, std::string, std::vector<std::int16_t>>>());
    if (want("Variant")) one_case<nop::Variant<std::int32_t, std::string, formtypes::Inner>>("Variant", (uint64_t)ci, prop, SchemaOf<nop::Variant<std::int32_t, std::string, formtypes::Inner>>());
    if (want("Rec")) one_case<formtypes::Rec>("Rec", (uint64_t)ci, prop, SchemaOf<formtypes::Rec>());
    if (want("Tab")) one_case<formtypes::Tab>("Tab", (uint64_t)ci, prop, tab);
  }
}
