// libFuzzer target for the thorough tier of C02 / C04: coverage-guided hostile inputs on the bounded readers.
// Input layout: [type index lo][type index hi][reader selector][message bytes...]. The body is the same monitored decode as
// the codec engine: ASan/UBSan + allocation cap (C02) and the differential against the reference decoder (C04).
// A disagreement prints "VF-VIOLATION key=<stable key> ..." and aborts, so libFuzzer stores the input as an artifact.
#include <cstdio>
#include "vlib/meter.h"
#include "vlib/ops.h"
#include "ref/mutate.h"

using namespace vf;
namespace vf {
std::vector<TypeOps>& registry() { static std::vector<TypeOps> r; return r; }
// minimal stand-ins for the engine runtime (rt.h's main is not linked into the fuzzer)
Args& args() { static Args a; return a; }
Report& rep() { static Report r; return r; }
void set_current(const char*, ...) {} void clear_current() {} const char* current() { return ""; } void set_watchdog(unsigned) {} void tick() {}
void Report::violation(const std::string&, const std::string&, const std::string&) {}
int Report::finish() { return 0; }
}
struct FT { const TypeOps* t; Sch sch; };
static std::vector<FT> g_ft;
static const int kReaders[] = {R_PEDANTIC, R_BUFFER, R_B_PEDANTIC, R_B_BUFFER};
static nop::ErrorStatus resolve_cb(void*, int64_t ref, int64_t* value) { if (ref < 0) { *value = -1; return nop::ErrorStatus::None; } if (ref >= 8192) return nop::ErrorStatus::InvalidHandleReference; *value = 1000 + ref; return nop::ErrorStatus::None; }
static Cat fromnop(nop::ErrorStatus e) {
  switch (e) { case nop::ErrorStatus::None: return Cat::OK; case nop::ErrorStatus::UnexpectedEncodingType: return Cat::UnexpectedEncodingType; case nop::ErrorStatus::UnexpectedHandleType: return Cat::UnexpectedHandleType;
    case nop::ErrorStatus::UnexpectedVariantType: return Cat::UnexpectedVariantType; case nop::ErrorStatus::InvalidContainerLength: return Cat::InvalidContainerLength; case nop::ErrorStatus::InvalidMemberCount: return Cat::InvalidMemberCount;
    case nop::ErrorStatus::InvalidStringLength: return Cat::InvalidStringLength; case nop::ErrorStatus::InvalidTableHash: return Cat::InvalidTableHash; case nop::ErrorStatus::DuplicateTableEntry: return Cat::DuplicateTableEntry;
    case nop::ErrorStatus::ReadLimitReached: return Cat::Truncated; default: return Cat::HandleError; }
}
static std::string tkey(const TypeOps* t) { std::string n = t->name; size_t p = n.find_first_of("<{="); return p == std::string::npos ? n : n.substr(0, p); }
[[noreturn]] static void violation(const std::string& key, const std::string& what, const FT& f, int rk, const uint8_t* p, size_t n) {
  fprintf(stderr, "VF-VIOLATION key=%s type=%s reader=%s %s bytes=%s\n", key.c_str(), f.t->name, rname(rk), what.c_str(), hex(p, n, 200).c_str());
  fflush(stderr); abort();
}
extern "C" int LLVMFuzzerInitialize(int*, char***) {
  auto& reg = registry(); std::sort(reg.begin(), reg.end(), [](const TypeOps& x, const TypeOps& y) { return strcmp(x.name, y.name) < 0; });
  for (auto& t : reg) if (!(t.flags & (F_NOHOSTILE | F_UNBOUNDED | F_AMBIGUOUS))) g_ft.push_back(FT{&t, t.schema()});
  return 0;
}
// Format-aware mutation on top of libFuzzer's own: re-encode the integer at a random position in another size class, with the
// same value or a value that differs by a multiple of 2^8 / 2^16 / 2^32 (lengths, counts, ids and indices are all integers in
// this format, and the interesting decoder slips are narrowing ones the byte-level mutators practically never hit).
extern "C" size_t LLVMFuzzerMutate(uint8_t* data, size_t size, size_t max_size);
extern "C" size_t LLVMFuzzerCustomMutator(uint8_t* data, size_t size, size_t max_size, unsigned int seed) {
  Rng r(((uint64_t)seed << 20) ^ size);
  if (size > 4 && r.below(3) == 0) {
    for (int attempt = 0; attempt < 8; attempt++) {
      size_t p = 3 + r.below(size - 3); uint8_t b = data[p]; size_t w; uint64_t v = 0;
      if (b < 0x80) { w = 0; v = b; } else if (b >= 0x80 && b <= 0x83) { w = (size_t)1 << (b - 0x80); if (p + 1 + w > size) continue; for (size_t i = 0; i < w; i++) v |= (uint64_t)data[p + 1 + i] << (8 * i); } else continue;
      static const uint64_t deltas[] = {0, 0, 1ull << 8, 1ull << 16, 1ull << 32, 2ull << 8, 0xffull << 8, 1ull << 31, 1ull << 63, 1ull << 24};
      uint64_t nv = v + deltas[r.below(10)] * (1 + r.below(2));
      if (r.below(8) == 0) nv = v << (1 + r.below(4));
      int cls = (int)r.below(5);                                   // 0: fixint (if it fits), 1..4: U8..U64
      size_t nw = cls == 0 ? 0 : (size_t)1 << (cls - 1);
      if (cls == 0 && nv >= 0x80) { cls = 1; nw = 1; }
      if (nw && nw < 8 && (nv >> (8 * nw)) != 0 && r.below(2)) { cls = 4; nw = 8; }   // half of the time keep the whole value
      size_t oldlen = 1 + w, newlen = 1 + nw;
      if (size - oldlen + newlen > max_size) continue;
      std::vector<uint8_t> out(data, data + p);
      if (cls == 0) out.push_back((uint8_t)nv); else { out.push_back((uint8_t)(0x80 + cls - 1)); for (size_t i = 0; i < nw; i++) out.push_back((uint8_t)(nv >> (8 * i))); }
      out.insert(out.end(), data + p + oldlen, data + size);
      memcpy(data, out.data(), out.size());
      return out.size();
    }
  }
  return LLVMFuzzerMutate(data, size, max_size);
}
extern "C" int LLVMFuzzerTestOneInput(const uint8_t* data, size_t size) {
  if (size < 3 || g_ft.empty()) return 0;
  const FT& f = g_ft[((size_t)data[0] | ((size_t)data[1] << 8)) % g_ft.size()];
  int rk = kReaders[data[2] % 4]; if (!r_ok(rk, f.t->flags)) rk = R_LOG;
  const uint8_t* msg = data + 3; size_t n = size - 3;
  auto ref_resolver = [](int64_t ref, int64_t* val) -> int { if (ref < 0) { *val = -1; return 0; } if (ref >= 8192) return (int)nop::ErrorStatus::InvalidHandleReference; *val = 1000 + ref; return 0; };
  Val rv; DecResult rr = RefDecode(f.sch, msg, n, &rv, ref_resolver); bool ref_ok = rr.cat == Cat::OK;
  Source src; src.init(rk, msg, n, r_is_bounded(rk) ? n : SIZE_MAX, 3); src.log.resolver = &resolve_cb;
  void* o = f.t->create(); bool ok = false, bad_alloc = false; nop::ErrorStatus err = nop::ErrorStatus::None;
  uint64_t cap = 65536 + 1024 * (uint64_t)n + 64 * f.t->sizeof_t;
  meter().begin(cap);
  try { auto st = f.t->read(src, o); ok = (bool)st; if (!st) err = st.error(); } catch (const std::bad_alloc&) { bad_alloc = true; }
  meter().end();
  if (bad_alloc || meter().tripped) violation("C02:alloc-cap:" + tkey(f.t), "allocation above the cap", f, rk, msg, n);
  if (src.consumed() > n) violation("C02:overconsumed:" + tkey(f.t), "reader position beyond the input", f, rk, msg, n);
  if (ok != ref_ok) violation(std::string("C04:") + (ok ? "accepts-invalid:" : "rejects-valid:") + (ok ? catname(rr.cat) : errname(err)) + ":" + tkey(f.t), ok ? "library accepts what the format rejects" : "library rejects a well-formed encoding", f, rk, msg, n);
  if (ok) {
    if (src.consumed() != rr.consumed) violation("C04:consumed-differs:" + tkey(f.t), "consumed length differs from the encoding length", f, rk, msg, n);
    if (!rr.dup_keys) { Val got = canoned(f.sch, f.t->to_val(o)); canon(f.sch, rv); if (got != rv) violation("C04:value-differs:" + tkey(f.t), "decoded value differs from what the bytes denote", f, rk, msg, n); }
  } else { (void)f.t->to_val(o); (void)fromnop; }
  f.t->destroy(o);
  return 0;
}
