// Engine `codec`: C01 C02 C03 C04 C05 C06 C10 C11 over the generated type corpus.
// All property loops are written once over type-erased TypeOps (vlib/ops.h); the per-type template
// instantiations live in the generated types_NN.cpp translation units.
#define VF_RT_MAIN
#include <thread>
#include "vlib/meter.h"
#include "vlib/ops.h"
#include "ref/mutate.h"
#include "vlib/sigstorm.h"
#include <nop/rpc/interface.h>
#include <nop/rpc/simple_method_receiver.h>
#include <nop/rpc/simple_method_sender.h>

using namespace vf;
namespace vf { std::vector<TypeOps>& registry() { static std::vector<TypeOps> r; return r; } }
void forms_stage(const std::string& prop);   // engines/codec/forms.cpp: every Serializer/Deserializer/Protocol form over hand-written types

// ---------------------------------------------------------------- helpers
static Cat fromnop(nop::ErrorStatus e) {
  switch (e) {
    case nop::ErrorStatus::None: return Cat::OK;
    case nop::ErrorStatus::UnexpectedEncodingType: return Cat::UnexpectedEncodingType;
    case nop::ErrorStatus::UnexpectedHandleType: return Cat::UnexpectedHandleType;
    case nop::ErrorStatus::UnexpectedVariantType: return Cat::UnexpectedVariantType;
    case nop::ErrorStatus::InvalidContainerLength: return Cat::InvalidContainerLength;
    case nop::ErrorStatus::InvalidMemberCount: return Cat::InvalidMemberCount;
    case nop::ErrorStatus::InvalidStringLength: return Cat::InvalidStringLength;
    case nop::ErrorStatus::InvalidTableHash: return Cat::InvalidTableHash;
    case nop::ErrorStatus::DuplicateTableEntry: return Cat::DuplicateTableEntry;
    case nop::ErrorStatus::ReadLimitReached: return Cat::Truncated;
    default: return Cat::HandleError;
  }
}
static bool defined_error(nop::ErrorStatus e) { return strcmp(nop::Status<void>{e}.GetErrorMessage(), "Unknown Error") != 0; }

struct Obj {   // RAII for an erased object
  const TypeOps* t; void* p;
  explicit Obj(const TypeOps* ops) : t(ops), p(ops->create()) {}
  Obj(const Obj&) = delete;
  ~Obj() { t->destroy(p); }
  void set(const Val& v) { t->from_val(v, p); }
  Val val() const { return t->to_val(p); }
};

struct TypeCtx { const TypeOps* t; Sch sch; size_t idx; int alt = -1; };
static std::vector<TypeCtx> g_types;

static std::string tkey(const TypeCtx& c) {   // stable type-shape class for violation keys: top-level constructor
  std::string n = c.t->name; size_t p = n.find_first_of("<{="); return p == std::string::npos ? n : n.substr(0, p);
}
static std::string vjson(const Val& v, size_t max = 160) { std::string s = str(v); if (s.size() > max) { s.resize(max); s += ".."; } return s; }

static Val gen_value(const TypeCtx& c, uint64_t case_idx, uint64_t salt, bool allow_big = false, bool force_big = false) {
  Rng r = case_rng(c.t->name, case_idx, salt);
  GenOpts o; o.big = allow_big || force_big; o.force_big = force_big; o.nonrepresentable_nestings = (c.t->flags & F_AMBIGUOUS) != 0;
  Gen g(r, o);
  return g.gen(c.sch);
}
// handle resolver for round trips: reference i -> i-th pushed value
struct Resolver { const std::vector<int64_t>* pushed; };
static nop::ErrorStatus resolve_cb(void* ctx, int64_t ref, int64_t* value) {
  auto* rs = static_cast<Resolver*>(ctx);
  if (ref < 0) { *value = -1; return nop::ErrorStatus::None; }
  if ((size_t)ref >= rs->pushed->size()) return nop::ErrorStatus::InvalidHandleReference;
  *value = (*rs->pushed)[(size_t)ref]; return nop::ErrorStatus::None;
}

// encode through LogWriter; returns bytes + the writer log
static bool encode_log(const TypeCtx& c, const Obj& o, LogWriter* lw_out, Bytes* bytes, nop::ErrorStatus* err) {
  Sink s; s.init(W_LOG, SIZE_MAX);
  auto st = c.t->write(s, o.p);
  if (!st) { *err = st.error(); return false; }
  *bytes = s.log.data; if (lw_out) *lw_out = s.log;
  return true;
}
static void attach_resolver(Source& src, Resolver* rs) { src.log.resolver = &resolve_cb; src.log.resolver_ctx = rs; }

static int quick_or(int q, int t) { return args().thorough() ? t : q; }
static bool big_candidate(const Sch& s) { return (s.k == K::STR || s.k == K::BIN || (s.k == K::ARY && s.len == Len::VAR && (s.kids[0].k == K::UINT || s.kids[0].k == K::INT || s.kids[0].k == K::F64 || s.kids[0].k == K::STR))) && s.len == Len::VAR; }

struct Viol {
  const TypeCtx& c; int64_t case_idx; const char* stage;
  void operator()(const std::string& key, const std::string& what, const std::string& detail = "{}") const {
    rep().violation(key, std::string(c.t->name) + ": " + what, case_desc(c.t->name, case_idx, stage, detail));
  }
};

// ================================================================= C01 + C03 + C06(size) share the write step
struct Written { Bytes bytes; LogWriter log; Val v0; size_t gs; };

static bool write_reference(const TypeCtx& c, Obj& o, const Val& v, Written* w, const Viol& viol, const char* prop_key) {
  o.set(v);
  w->v0 = o.val();
  w->gs = c.t->get_size(o.p);
  nop::ErrorStatus err;
  if (!encode_log(c, o, &w->log, &w->bytes, &err)) { viol(fmt("%s:write-failed:%s", prop_key, tkey(c).c_str()), fmt("Write failed with '%s' for an encodable value", errname(err)), J().s("value", vjson(w->v0)).str()); return false; }
  return true;
}

static void c01_case(const TypeCtx& c, uint64_t ci) {
  Viol viol0{c, (int64_t)ci, "roundtrip"};
  const uint32_t fl = c.t->flags;
  // nested nullable types the wire format cannot distinguish: every manifestation is one finding per type
  auto viol = [&](const std::string& key, const std::string& what, const std::string& detail = "{}") {
    if (fl & F_AMBIGUOUS) viol0(fmt("C01:nullable-nesting-not-representable:%s", c.t->name), what + " (the format cannot represent an engaged outer nullable around an empty/error inner one)", detail);
    else viol0(key, what, detail);
  };
  bool big = (ci % 16 == 5) && big_candidate(c.sch);
  int nvals = (ci % 4 == 3) ? 2 + (int)(ci / 4 % 4) : 1;          // sequences of 2..5 consecutive values on one stream
  std::vector<Val> vals; for (int i = 0; i < nvals; i++) vals.push_back(gen_value(c, ci, 100 + i, big && i == 0));
  std::vector<std::unique_ptr<Obj>> objs; std::vector<Val> v0s; std::vector<size_t> sizes; size_t gs_total = 0;
  for (auto& v : vals) { objs.emplace_back(new Obj(c.t)); objs.back()->set(v); v0s.push_back(canoned(c.sch, objs.back()->val())); size_t g = c.t->get_size(objs.back()->p); sizes.push_back(g); gs_total += g; }
  set_current("%s", case_desc(c.t->name, (int64_t)ci, "roundtrip", J().u("nvals", nvals).s("first", vjson(v0s[0], 200)).str()).c_str());
  // ---- write with every applicable writer kind; all must produce the same bytes
  Bytes ref_bytes; std::vector<size_t> ends; std::vector<int64_t> pushed; bool have_ref = false;
  for (int wk = 0; wk < W_COUNT; wk++) {
    if (!w_ok(wk, fl)) continue;
    bool pipe = (wk == W_FD || wk == W_B_FD) && (ci & 1) && gs_total < 60000;
    Sink s; s.init(wk, gs_total, gs_total, pipe);
    std::vector<size_t> my_ends; bool ok = true;
    for (size_t i = 0; i < objs.size(); i++) {
      auto st = c.t->write(s, objs[i]->p);
      if (!st) { viol(fmt("C01:write-failed:%s:%s", wname(wk), tkey(c).c_str()), fmt("%s failed with '%s' (value %zu of %d, GetSize sum %zu)", wname(wk), errname(st.error()), i, nvals, gs_total), J().s("value", vjson(v0s[i])).str()); ok = false; break; }
      my_ends.push_back(s.written());
    }
    if (!ok) continue;
    Bytes b = s.bytes();
    rep().count(std::string("c01_writer_") + wname(wk));
    if (!have_ref) { ref_bytes = b; ends = my_ends; pushed = s.log.pushed; have_ref = true; }
    else if (b != ref_bytes) viol(fmt("C01:writers-disagree:%s:%s", wname(wk), tkey(c).c_str()), fmt("%s produced different bytes than LogWriter: %s vs %s", wname(wk), hex(b, 48).c_str(), hex(ref_bytes, 48).c_str()));
    // direct medium pairing: FdWriter -> FdReader over the same memfd
    if (wk == W_FD && !pipe && r_ok(R_FD, fl)) {
      ::lseek(s.fd, 0, SEEK_SET);
      Source src; src.kind = R_FD; src.total = b.size(); src.fd = ::dup(s.fd); src.fr.reset(new nop::FdReader(::dup(s.fd)));
      for (size_t i = 0; i < objs.size(); i++) { Obj o2(c.t); auto st = c.t->read(src, o2.p); if (!st || canoned(c.sch, o2.val()) != v0s[i] || src.consumed() != my_ends[i]) { viol(fmt("C01:fd-direct:%s", tkey(c).c_str()), "FdWriter -> FdReader over one memfd did not round trip"); break; } }
      rep().count("c01_direct_fd_pairings");
    }
  }
  if (!have_ref) return;
  bool nontrivial = ref_bytes.size() >= 2;
  rep().note(hash_combine(hash_str(c.t->name), hash_bytes(ref_bytes.data(), ref_bytes.size())), nontrivial);
  rep().count("c01_values", (uint64_t)nvals); if (nvals > 1) rep().count("c01_sequences");
  if (big) rep().count("c01_big_values");
  // append a sentinel after the sequence: it must still read back
  // (odd cases: nothing follows the sequence - the last value is the last thing on the stream / in the buffer)
  const bool with_sentinel = (ci & 1) == 0;
  Bytes stream = ref_bytes; const uint8_t sentinel[5] = {0x82, 0xef, 0xbe, 0xad, 0xde}; if (with_sentinel) stream.insert(stream.end(), sentinel, sentinel + 5);
  rep().count(with_sentinel ? "c01_sequences_followed_by_more_data" : "c01_sequences_ending_the_stream");
  Resolver rs{&pushed};
  // ---- read back with every applicable reader kind
  for (int rk = 0; rk < R_COUNT; rk++) {
    if (!r_ok(rk, fl)) continue;
    bool pipe = (r_inner(rk) == R_FD) && ((ci >> 1) & 1);
    Source src; src.init(rk, stream.data(), stream.size(), r_is_bounded(rk) ? stream.size() + (ci % 3) : SIZE_MAX, 1 + (unsigned)(ci % 7), pipe);
    attach_resolver(src, &rs);
    bool ok = true;
    // the values of a sequence are read into one object (as a receive loop does) on every other reader kind, into fresh objects otherwise
    std::unique_ptr<Obj> reused; if (((ci >> 2) + (uint64_t)rk) % 2 == 0) { reused.reset(new Obj(c.t)); rep().count("c01_sequences_read_into_one_object"); }
    for (size_t i = 0; i < objs.size() && ok; i++) {
      std::unique_ptr<Obj> fresh; if (!reused) fresh.reset(new Obj(c.t));
      Obj& o2 = reused ? *reused : *fresh;
      auto st = c.t->read(src, o2.p);
      if (!st) { viol(fmt("C01:read-failed:%s:%s", rname(rk), tkey(c).c_str()), fmt("%s failed with '%s' on value %zu of %d of bytes the library wrote (%s)", rname(rk), errname(st.error()), i, nvals, hex(ref_bytes, 40).c_str()), J().s("value", vjson(v0s[i])).str()); ok = false; break; }
      Val got = canoned(c.sch, o2.val());
      if (got != v0s[i]) { viol(fmt("C01:value-differs:%s:%s", rname(rk), tkey(c).c_str()), fmt("%s read back %s, wrote %s", rname(rk), vjson(got).c_str(), vjson(v0s[i]).c_str())); ok = false; break; }
      size_t cons = src.consumed();
      if (cons != ends[i]) { viol(fmt("C01:consumed:%s:%s", rname(rk), tkey(c).c_str()), fmt("%s consumed %zu bytes after value %zu, the writer had produced %zu", rname(rk), cons, i, ends[i])); ok = false; break; }
    }
    if (ok && !with_sentinel) rep().count(std::string("c01_reader_") + rname(rk));
    if (ok && with_sentinel) {   // sentinel
      uint32_t sv = 0; nop::Status<void> st;
      switch (rk) {
        case R_LOG: st = nop::Deserializer<LogReader*>{&src.log}.Read(&sv); break; case R_BUFFER: st = nop::Deserializer<nop::BufferReader*>{&src.br}.Read(&sv); break;
        case R_PEDANTIC: st = nop::Deserializer<nop::PedanticBufferReader*>{&src.pr}.Read(&sv); break; case R_STREAM: st = nop::Deserializer<SStreamReader*>{src.sr.get()}.Read(&sv); break;
        case R_CHUNKED: st = nop::Deserializer<ChunkedReader*>{src.cr.get()}.Read(&sv); break; case R_FD: st = nop::Deserializer<nop::FdReader*>{src.fr.get()}.Read(&sv); break;
        case R_B_PEDANTIC: st = nop::Deserializer<decltype(src.bpr)*>{&src.bpr}.Read(&sv); break; case R_B_BUFFER: st = nop::Deserializer<decltype(src.bbr)*>{&src.bbr}.Read(&sv); break;
        case R_B_LOG: st = nop::Deserializer<decltype(src.blr)*>{&src.blr}.Read(&sv); break; case R_B_STREAM: st = nop::Deserializer<decltype(src.bsr)*>{&src.bsr}.Read(&sv); break;
        case R_B_CHUNKED: st = nop::Deserializer<decltype(src.bcr)*>{&src.bcr}.Read(&sv); break; case R_B_FD: st = nop::Deserializer<decltype(src.bfr)*>{&src.bfr}.Read(&sv); break;
      }
      if (!st || sv != 0xdeadbeefu) viol(fmt("C01:sentinel:%s:%s", rname(rk), tkey(c).c_str()), fmt("value following the sequence did not read back through %s (status '%s', got %08x)", rname(rk), st ? "ok" : errname(st.error()), sv));
      rep().count(std::string("c01_reader_") + rname(rk));
    }
  }
  // ---- FdReader fed by a concurrent producer in small chunks (short reads on a pipe)
  if (r_ok(R_FD, fl) && ci % 8 == 2 && stream.size() < 4000) {
    int fds[2]; if (::pipe(fds) == 0) {
      Bytes data = stream; uint64_t s0 = ci;
      std::thread feeder([fds, data, s0]() { Rng r(s0); size_t off = 0; while (off < data.size()) { size_t k = std::min<size_t>(1 + r.below(7), data.size() - off); ssize_t w = ::write(fds[1], data.data() + off, k); if (w <= 0) break; off += (size_t)w; if (r.below(3) == 0) std::this_thread::yield(); } ::close(fds[1]); });
      { Source src; src.kind = R_FD; src.fr.reset(new nop::FdReader(fds[0])); bool ok = true;
        for (size_t i = 0; i < objs.size() && ok; i++) { Obj o2(c.t); auto st = c.t->read(src, o2.p);
          if (!st || canoned(c.sch, o2.val()) != v0s[i]) { viol(fmt("C01:trickle-pipe:%s", tkey(c).c_str()), fmt("FdReader over a pipe fed in 1..7 byte chunks: status '%s' or wrong value at %zu", st ? "ok" : errname(st.error()), i)); ok = false; } }
        rep().count("c01_trickle_pipe_reads");
      }
      feeder.join();
    }
  }
  if (rep().want_sample(c.t->name, 1) && rep().samples.size() < 14) rep().sample(c.t->name, J().s("type", c.t->name).u("values_in_sequence", nvals).s("first_value", vjson(v0s[0], 120)).s("bytes", hex(ref_bytes, 48)).u("len", ref_bytes.size()).str(), 1);
  clear_current();
}

// ---- FdWriter / FdReader on a blocking pipe with a small kernel buffer, a slow peer and a signal storm (vlib/sigstorm.h):
// interrupted and partial system calls must not lose, duplicate or refuse data (C01 round trip, C03 bytes on the medium)
static void fd_storm_case(const TypeCtx& c, uint64_t ci, const char* P, bool read_side) {
  if (!r_ok(R_FD, c.t->flags) || !w_ok(W_FD, c.t->flags) || (c.t->flags & F_AMBIGUOUS)) return;
  Viol viol{c, (int64_t)ci, "fd-storm"};
  const bool bigk = (c.sch.k == K::STR || c.sch.k == K::BIN) && c.sch.len == Len::VAR;
  const int nvals = bigk ? 1 : 3;
  set_current("%s", case_desc(c.t->name, (int64_t)ci, "fd-storm").c_str());
  std::vector<std::unique_ptr<Obj>> objs; std::vector<Val> v0s; Bytes ref;
  for (int i = 0; i < nvals; i++) {
    objs.emplace_back(new Obj(c.t)); objs.back()->set(gen_value(c, ci, 100 + (uint64_t)i, false, bigk && i == 0)); v0s.push_back(canoned(c.sch, objs.back()->val()));
    Enc e; RefEncode(c.sch, objs.back()->val(), e); ref.insert(ref.end(), e.out.begin(), e.out.end());
  }
  rep().note(hash_combine(hash_combine(hash_str(c.t->name), hash_bytes(ref.data(), ref.size())), 0x5707), ref.size() >= 2);
  uint64_t sig0 = storm_delivered().load();
  { // writer side
    int fds[2]; if (::pipe(fds) != 0) return; shrink_pipe(fds[1]);
    SlowDrain drain(fds[0], ci * 31 + 1);
    nop::Status<void> st; size_t i = 0;
    { Sink s; s.kind = W_FD; s.fw.reset(new nop::FdWriter(fds[1]));
      { SignalStorm storm(pthread_self(), 50); for (; i < objs.size(); i++) { st = c.t->write(s, objs[i]->p); if (!st) break; } }
      s.fw.reset();   // closes the write end: the drain sees EOF
    }
    Bytes& got = drain.join();
    rep().count("fd_storm_writes"); rep().count("fd_storm_bytes_written", ref.size());
    if (i < objs.size()) viol(fmt("%s:fd-signal-storm:write-failed:%s", P, tkey(c).c_str()), fmt("FdWriter on a blocking pipe under signals: Write of value %zu failed with '%s' (the peer was reading all the time)", i, errname(st.error())));
    else if (got != ref) { size_t d = 0; while (d < got.size() && d < ref.size() && got[d] == ref[d]) d++;
      viol(fmt("%s:fd-signal-storm:bytes-differ:%s", P, tkey(c).c_str()), fmt("FdWriter on a blocking pipe under signals reported success; the pipe received %zu bytes, the encoding has %zu, first difference at %zu", got.size(), ref.size(), d)); }
  }
  if (read_side) { // reader side
    int fds[2]; if (::pipe(fds) != 0) return; shrink_pipe(fds[1]);
    SlowFeed feed(fds[1], ref, ci * 17 + 3);
    { Source src; src.kind = R_FD; src.fr.reset(new nop::FdReader(fds[0]));
      SignalStorm storm(pthread_self(), 50);
      for (size_t i = 0; i < objs.size(); i++) { Obj o2(c.t); auto st = c.t->read(src, o2.p);
        if (!st) { viol(fmt("%s:fd-signal-storm:read-failed:%s", P, tkey(c).c_str()), fmt("FdReader on a slowly fed pipe under signals: Read of value %zu failed with '%s'", i, errname(st.error()))); break; }
        if (canoned(c.sch, o2.val()) != v0s[i]) { viol(fmt("%s:fd-signal-storm:value-differs:%s", P, tkey(c).c_str()), fmt("FdReader on a slowly fed pipe under signals: value %zu read back differently", i)); break; } }
      rep().count("fd_storm_reads");
    }
  }
  rep().count("fd_storm_signals_delivered", storm_delivered().load() - sig0);
  clear_current();
}

// ---- exclusion with its own obligation: a logical buffer whose size member exceeds the capacity must make
// GetSize/Write return an error without UB (ASan/UBSan are the monitor)
static void c01_oversize(const TypeCtx& c, uint64_t ci) {
  Rng r = case_rng(c.t->name, ci, 777);
  Val v = gen_value(c, ci, 100);
  int cand = count_struct_candidates(c.sch, v); if (!cand) return;
  for (int t = 0; t < cand && t < 4; t++) {
    Val mv = v; ValMutator m(r, t); m.walk(c.sch, mv);
    if (!m.done || m.desc.find("capacity+") == std::string::npos) continue;
    Viol viol{c, (int64_t)ci, "oversize"};
    set_current("%s", case_desc(c.t->name, (int64_t)ci, "oversize", J().s("mutation", m.desc).str()).c_str());
    Obj o(c.t); lb_oversize_flag() = false; o.set(mv);
    if (!lb_oversize_flag()) continue;          // the size member cannot represent the oversize count: object is valid
    for (int wk : {W_LOG, W_PEDANTIC, W_BUFFER, W_STREAM}) {
      if (!w_ok(wk, c.t->flags)) continue;
      size_t gs = c.t->get_size(o.p);           // must not walk past the array
      Sink s; s.init(wk, gs < (1u << 20) ? gs : (1u << 20));
      auto st = c.t->write(s, o.p);
      rep().count("c01_oversize_logical_buffer_writes"); rep().note(hash_combine(hash_str(c.t->name), hash_combine(ci, (uint64_t)wk * 16 + (uint64_t)t)), true);
      if (st) viol(fmt("C01:oversize-logical-buffer-accepted:%s:%s", wname(wk), tkey(c).c_str()), fmt("Write succeeded for a logical buffer whose size member exceeds its capacity (%s)", m.desc.c_str()));
    }
    clear_current();
  }
}

// ================================================================= C03
static void c03_case(const TypeCtx& c, uint64_t ci) {
  Viol viol{c, (int64_t)ci, "encode"};
  bool big = (ci % 16 == 5) && big_candidate(c.sch);
  Val v = gen_value(c, ci, 100, big);
  Obj o(c.t); Written w;
  set_current("%s", case_desc(c.t->name, (int64_t)ci, "encode").c_str());
  if (!write_reference(c, o, v, &w, viol, "C03")) return;
  Enc e; std::vector<int64_t> refs; for (size_t i = 0; i < w.log.pushed.size(); i++) refs.push_back((int64_t)i); e.refs = &refs;
  RefEncode(c.sch, w.v0, e);
  rep().note(hash_combine(hash_str(c.t->name), hash_bytes(w.bytes.data(), w.bytes.size())), w.bytes.size() >= 2);
  rep().count("c03_encodings_compared"); rep().maxc("max_encoding_len", w.bytes.size());
  if (e.out != w.bytes) {
    size_t d = 0; while (d < w.bytes.size() && d < e.out.size() && w.bytes[d] == e.out[d]) d++;
    std::string role = "end"; for (auto& f : e.fields) if (d >= f.off && d < f.off + f.len) role = rolename(f.role);
    viol(fmt("C03:bytes-differ:%s:%s", role.c_str(), tkey(c).c_str()), fmt("first difference at byte %zu (field role %s): library %s, docs/format.md reference %s", d, role.c_str(), hex(w.bytes.data() + (d > 8 ? d - 8 : 0), std::min<size_t>(32, w.bytes.size() - (d > 8 ? d - 8 : 0))).c_str(), hex(e.out.data() + (d > 8 ? d - 8 : 0), std::min<size_t>(32, e.out.size() - (d > 8 ? d - 8 : 0))).c_str()), J().s("value", vjson(w.v0)).str());
  }
  // the shipped writers must emit the documented bytes too (one kind per case, rotating; all kinds per value in C01)
  { static const int kinds[] = {W_BUFFER, W_PEDANTIC, W_CONSTEXPR, W_STREAM, W_FD, W_B_PEDANTIC, W_B_CONSTEXPR, W_B_STREAM, W_B_BUFFER, W_B_FD};
    for (int t = 0; t < 2; t++) { int wk = kinds[(ci * 2 + (uint64_t)t) % 10]; if (!w_ok(wk, c.t->flags) || (c.t->flags & F_HANDLE)) continue;
      Sink s; s.init(wk, w.gs, w.gs); auto st = c.t->write(s, o.p); Bytes b = s.bytes(); rep().count("c03_shipped_writer_encodings_compared");
      if (!st || b != e.out) { size_t d = 0; while (d < b.size() && d < e.out.size() && b[d] == e.out[d]) d++; std::string role = "end"; for (auto& f : e.fields) if (d >= f.off && d < f.off + f.len) role = rolename(f.role);
        viol(fmt("C03:bytes-differ:%s:%s:%s", wname(wk), role.c_str(), tkey(c).c_str()), fmt("%s: first difference at byte %zu (field role %s): writer %s, docs/format.md reference %s", wname(wk), d, role.c_str(), hex(b, 40).c_str(), hex(e.out, 40).c_str()), J().s("value", vjson(w.v0)).str()); } } }
  // same object written twice -> same bytes
  Bytes again; nop::ErrorStatus err; if (encode_log(c, o, nullptr, &again, &err)) { if (again != w.bytes) viol(fmt("C03:not-deterministic:%s", tkey(c).c_str()), "writing the same object twice produced different bytes"); }
  if (rep().want_sample(c.t->name, 1) && rep().samples.size() < 14) rep().sample(c.t->name, J().s("type", c.t->name).s("value", vjson(w.v0, 120)).s("bytes", hex(w.bytes, 48)).str(), 1);
  clear_current();
}
// dense integer coverage: every class boundary +-2, all 8/16-bit values, random 32/64-bit values
static void c03_dense(const TypeCtx& c) {
  if (!(c.sch.k == K::UINT || c.sch.k == K::INT || c.sch.k == K::CHAR)) return;
  Viol viol{c, -2, "dense-int"};
  set_current("%s", case_desc(c.t->name, -2, "dense-int").c_str());
  int bits = c.sch.bits; bool sg = c.sch.k == K::INT;
  Obj o(c.t);
  auto one = [&](uint64_t u) {
    Val v; v.u = bits == 64 ? u : (u & ((1ull << bits) - 1)); o.set(v);
    Sink s; s.init(W_PEDANTIC, 16); auto st = c.t->write(s, o.p); Bytes b = s.bytes();
    Enc e; RefEncode(c.sch, v, e);
    rep().note_enumerated(true);
    if (!st || b != e.out) viol(fmt("C03:bytes-differ:int:%s", tkey(c).c_str()), fmt("value bits %016" PRIx64 ": library %s, reference %s", v.u, hex(b).c_str(), hex(e.out).c_str()));
  };
  std::set<uint64_t> done;
  auto once = [&](uint64_t u) { u = bits == 64 ? u : (u & ((1ull << bits) - 1)); if (done.insert(u).second) one(u); };
  if (bits <= 16) { for (uint64_t u = 0; u < (1ull << bits); u++) if (mine(u)) once(u); rep().count("c03_exhaustive_small_int_values", done.size()); }
  else {
    static const int64_t bounds[] = {0, 63, 64, 127, 128, 255, 256, 32767, 32768, 65535, 65536, 2147483647LL, 2147483648LL, 4294967295LL, 4294967296LL, INT64_MAX};
    for (int64_t b : bounds) for (int d = -2; d <= 2; d++) { once((uint64_t)b + (uint64_t)d); once((uint64_t)0 - ((uint64_t)b + (uint64_t)d)); }
    Rng r = case_rng(c.t->name, 0, 4242 + (uint64_t)args().worker);
    uint64_t n = (args().thorough() ? (1ull << 20) : (1ull << 14)) / (uint64_t)args().nworkers;
    for (uint64_t i = 0; i < n; i++) { uint64_t u = r.next() >> r.below(64); if (sg && r.below(2)) u = (uint64_t)(-(int64_t)u); once(u); }
  }
  rep().count("c03_dense_int_values", done.size());
  clear_current();
}

// ================================================================= C04 / C02: hostile decoding
struct DecodeOutcome { bool ok; nop::ErrorStatus err; Val val; size_t consumed; bool bad_alloc; };
static DecodeOutcome decode_with(const TypeCtx& c, int rk, const Bytes& b, size_t bound, Obj& o, Resolver* rs, uint64_t alloc_cap) {
  DecodeOutcome d{false, nop::ErrorStatus::None, Val(), 0, false};
  Source src; src.init(rk, b.data(), b.size(), bound, 3);
  if (rs) attach_resolver(src, rs);
  if (alloc_cap) meter().begin(alloc_cap);
  try {
    auto st = c.t->read(src, o.p);
    d.ok = (bool)st; if (!st) d.err = st.error();
  } catch (const std::bad_alloc&) { d.bad_alloc = true; }
  if (alloc_cap) meter().end();
  d.consumed = src.consumed();
  return d;
}

static void build_mutations(const TypeCtx& c, const Val& v0, const Enc& e, uint64_t ci, bool thorough, std::vector<Mut>& muts) {
  Rng r = case_rng(c.t->name, ci, 909);
  // cuts
  if (e.out.size() <= 96) for (size_t k = 0; k < e.out.size(); k++) { Mut m; m.bytes.assign(e.out.begin(), e.out.begin() + k); m.kind = MutKind::Cut; m.desc = fmt("cut@%zu", k); m.defect_off = k; m.category_comparable = true; muts.push_back(std::move(m)); }
  else for (int i = 0; i < 48; i++) { size_t k = r.below(e.out.size()); Mut m; m.bytes.assign(e.out.begin(), e.out.begin() + k); m.kind = MutKind::Cut; m.desc = fmt("cut@%zu", k); m.defect_off = k; m.category_comparable = true; muts.push_back(std::move(m)); }
  // field-directed
  size_t nf = e.fields.size(); size_t maxf = thorough ? 64 : 24; size_t prefix_positions = 0;
  for (size_t k = 0; k < nf && k < maxf; k++) {
    size_t fi = nf <= maxf ? k : r.below(nf);
    bool allp = e.fields[fi].role == Role::PREFIX && (thorough || prefix_positions < 8); if (e.fields[fi].role == Role::PREFIX) prefix_positions++;
    if (e.out.size() > 4096 && e.fields[fi].role != Role::PREFIX && k > 8) continue;
    field_mutations(e, fi, allp && e.out.size() < 2048, muts);
  }
  // structural single defects
  int cand = count_struct_candidates(c.sch, v0);
  for (int t = 0; t < cand && t < 6; t++) for (int variant = 0; variant < 3; variant++) { Val mv = v0; ValMutator vm(r, cand <= 6 ? t : (int)r.below((uint64_t)cand), variant); vm.walk(c.sch, mv); if (variant > 0 && vm.desc.find("capacity+") == std::string::npos) continue; if (!vm.done) continue; Enc e2; RefEncode(c.sch, mv, e2); Mut m; m.bytes = e2.out; m.kind = MutKind::Structural; m.desc = vm.desc; m.category_comparable = true; m.defect_off = SIZE_MAX - 1; muts.push_back(std::move(m)); }
  table_wrap_mutations(e, muts);
  table_unknown_entries_mutations(e, muts);
  noise_mutations(e.out, r, thorough ? 24 : 10, muts);
  for (int i = 0; i < (thorough ? 16 : 6); i++) muts.push_back(random_string(r));
}

static const int kHostileReaders[] = {R_PEDANTIC, R_BUFFER, R_B_PEDANTIC, R_B_BUFFER, R_LOG, R_B_STREAM, R_B_CHUNKED, R_B_FD};

static void c04_c02_case(const TypeCtx& c, uint64_t ci, bool is_c02) {
  const char* P = is_c02 ? "C02" : "C04";
  Viol viol{c, (int64_t)ci, is_c02 ? "hostile" : "decode"};
  Val v = gen_value(c, ci, 100);
  Obj o(c.t); o.set(v); Val v0 = o.val();
  // handles: the k-th handle is referenced as k; the resolver maps reference k to value 1000+k (deterministic, independent of the writer)
  // (the table is longer than any generated value has handles: a shorter one made the "known-valid" encoding of a
  //  thorough-tier vector<Handle> invalid under the resolver -- a false alarm of the harness, see DESIGN 9.4)
  Enc e; std::vector<int64_t> refs; for (int i = 0; i < 8192; i++) refs.push_back(i); e.refs = &refs; RefEncode(c.sch, v0, e);
  std::vector<int64_t> pushed; for (int i = 0; i < 8192; i++) pushed.push_back(1000 + i); Resolver rs{&pushed};
  auto ref_resolver = [&](int64_t ref, int64_t* val) -> int { if (ref < 0) { *val = -1; return 0; } if ((size_t)ref >= pushed.size()) return (int)nop::ErrorStatus::InvalidHandleReference; *val = pushed[(size_t)ref]; return 0; };
  std::vector<Mut> muts; build_mutations(c, v0, e, ci, args().thorough(), muts);
  { Mut m; m.bytes = e.out; m.kind = MutKind::Noise; m.desc = "valid"; muts.push_back(m); }
  for (int which = 0; which < 2; which++) {
  if (which == 1 && c.alt < 0) break;
  const TypeCtx& dc = which ? g_types[(size_t)c.alt] : c;
  if (which) rep().count(is_c02 ? "c02_inputs_decoded_by_other_table_version" : "c04_inputs_decoded_by_other_table_version");
  // a known-valid encoding used for the re-read post-condition
  Val vv = gen_value(dc, ci, 555); Obj ov(dc.t); ov.set(vv); Val vv0 = canoned(dc.sch, ov.val()); Enc ev; ev.refs = &refs; RefEncode(dc.sch, ov.val(), ev);
  // expected value of vv0 when read through the resolver
  Val vv_expect; bool vv_valid; { Val t; vv_valid = RefDecode(dc.sch, ev.out.data(), ev.out.size(), &t, ref_resolver).cat == Cat::OK; vv_expect = canoned(dc.sch, t); }
  if (!vv_valid) rep().count("reread_encoding_not_valid_under_reference_skipped");
  size_t mi = 0;
  for (auto& m : muts) {
    mi++;
    if (!args().only_stage.empty() && args().only_stage != fmt("%s%s#%zu", is_c02 ? "hostile" : "decode", which ? "-alt" : "", mi)) continue;
    std::string stage = fmt("%s%s#%zu", is_c02 ? "hostile" : "decode", which ? "-alt" : "", mi);
    Val rv; DecResult rr = RefDecode(dc.sch, m.bytes.data(), m.bytes.size(), &rv, ref_resolver);
    bool ref_ok = rr.cat == Cat::OK; if (ref_ok) canon(dc.sch, rv);
    rep().note(hash_combine(hash_str(dc.t->name), hash_bytes(m.bytes.data(), m.bytes.size())), m.bytes.size() > 0);
    rep().count(ref_ok ? fmt("%s_inputs_reference_accepts", is_c02 ? "c02" : "c04") : fmt("%s_inputs_reference_rejects", is_c02 ? "c02" : "c04"));
    if (!ref_ok) rep().count(fmt("refcat_%s", catname(rr.cat)));
    rep().count(fmt("mutkind_%d", (int)m.kind));
    int nreaders = is_c02 ? 8 : 4;
    for (int k = 0; k < nreaders; k++) {
      int rk = kHostileReaders[k];
      if (!r_ok(rk, dc.t->flags)) continue;
      if (k >= 5 && (mi % 8) != (size_t)(k - 5) && !args().replay()) continue;   // stream/fd-backed bounded readers: an eighth of the inputs each
      size_t bound = r_is_bounded(rk) ? m.bytes.size() : SIZE_MAX;
      // (cuts of valid encodings carry no hostile lengths: for them the stream / fd backed bounded readers also get a limit beyond the data, so the wrapped
      //  reader runs dry inside a run - "terminates and returns an error status")
      if (is_c02 && k >= 5 && m.kind == MutKind::Cut && (mi & 8)) { bound = m.bytes.size() + 16; rep().count("c02_bounded_over_unbounded_readers_running_dry"); }
      set_current("%s", case_desc(c.t->name, (int64_t)ci, stage, J().s("reader", rname(rk)).s("mutation", m.desc).s("bytes", hex(m.bytes, 200)).str()).c_str());
      uint64_t cap = is_c02 ? 65536 + 1024 * (uint64_t)m.bytes.size() + 64 * dc.t->sizeof_t : 0;
      Obj dst(dc.t);
      // every other input is decoded into a destination that already holds another value: "yields the value those bytes denote" and
      // memory safety must not depend on a fresh destination (users reuse message objects)
      if ((mi + (size_t)k) % 2 == 1) { dst.set(gen_value(dc, ci, 700 + (mi % 3))); rep().count(is_c02 ? "c02_decodes_into_used_destination" : "c04_decodes_into_used_destination"); }
      DecodeOutcome d = decode_with(dc, rk, m.bytes, bound, dst, &rs, cap);
      std::string det = J().s("reader", rname(rk)).s("mutation", m.desc).s("bytes", hex(m.bytes, 200)).str();
      Viol vv2{c, (int64_t)ci, stage.c_str()};
      if (is_c02) {
        rep().count("c02_monitored_decodes"); rep().maxc("max_peak_alloc_bytes", meter().peak); rep().maxc("max_single_alloc_bytes", meter().largest);
        if (m.bytes.size()) rep().maxc("max_peak_alloc_per_input_byte_x100", meter().peak * 100 / m.bytes.size());
        if (d.bad_alloc || meter().tripped) { vv2(fmt("C02:alloc-cap:%s:%s", rname(rk), tkey(dc).c_str()), fmt("allocation above the cap (%" PRIu64 " bytes) while decoding %zu input bytes: largest request %" PRIu64 ", peak %" PRIu64, cap, m.bytes.size(), std::max(meter().largest, meter().trip_request), meter().peak), det); continue; }
        if (!d.ok && !defined_error(d.err)) vv2(fmt("C02:undefined-status:%s", tkey(dc).c_str()), fmt("Read returned an undefined error status %d", (int)d.err), det);
        if (d.consumed > m.bytes.size()) vv2(fmt("C02:overconsumed:%s:%s", rname(rk), tkey(dc).c_str()), fmt("reader position %zu beyond the %zu input bytes", d.consumed, m.bytes.size()), det);
        // post-conditions: inspect, re-read a valid encoding into the same object, destroy
        if (!d.ok && vv_valid && !(dc.t->flags & F_AMBIGUOUS)) {
          lb_inspected_out_of_range() = false; (void)dst.val();
          if (lb_inspected_out_of_range()) vv2(fmt("C02:destination-invalid-after-failed-read:%s", tkey(dc).c_str()), "a failed read left a logical buffer whose size member exceeds its array: inspecting elements [0, size) leaves the object", det);
          DecodeOutcome d2 = decode_with(dc, (dc.t->flags & F_HANDLE) ? R_LOG : R_PEDANTIC, ev.out, SIZE_MAX, dst, &rs, 0);
          if (!d2.ok) vv2(fmt("C02:reread-failed:%s", tkey(dc).c_str()), fmt("a valid encoding no longer reads into the object left by a failed read ('%s')", errname(d2.err)), det);
          else if (!(dc.t->flags & F_AMBIGUOUS) && canoned(dc.sch, dst.val()) != vv_expect) vv2(fmt("C02:reread-differs:%s", tkey(dc).c_str()), "object left by a failed read decodes a valid encoding to a different value than a fresh object", det);
          rep().count("c02_failed_reads_followed_by_reread");
        }
        continue;
      }
      // ---- C04: differential against the reference decoder
      rep().count("c04_differential_decodes");
      if (d.ok != ref_ok) {
        std::string rolek = "other"; for (auto& f : e.fields) if (m.defect_off >= f.off && m.defect_off < f.off + f.len) rolek = rolename(f.role);
        vv2(fmt("C04:%s:%s:%s:%s", d.ok ? "accepts-invalid" : "rejects-valid", d.ok ? catname(rr.cat) : errname(d.err), rolek.c_str(), tkey(dc).c_str()),
            d.ok ? fmt("%s accepted input the format rejects (%s at offset %zu)", rname(rk), catname(rr.cat), rr.err_off) : fmt("%s rejected ('%s') input that is a well-formed encoding", rname(rk), errname(d.err)), det);
        continue;
      }
      if (d.ok) {
        if (d.consumed != rr.consumed) vv2(fmt("C04:consumed-differs:%s:%s", rname(rk), tkey(dc).c_str()), fmt("%s consumed %zu bytes, the encoding is %zu bytes long", rname(rk), d.consumed, rr.consumed), det);
        else if (!rr.dup_keys && !(dc.t->flags & F_AMBIGUOUS) && canoned(dc.sch, dst.val()) != rv) vv2(fmt("C04:value-differs:%s", tkey(dc).c_str()), fmt("decoded %s, the bytes denote %s", vjson(canoned(dc.sch, dst.val())).c_str(), vjson(rv).c_str()), det);
        rep().count("c04_accepted_and_value_compared");
      } else {
        bool single = m.category_comparable && (m.kind == MutKind::Structural || m.kind == MutKind::Cut || rr.err_off == m.defect_off);
        if (m.kind == MutKind::Cut && rr.cat != Cat::Truncated) single = false;
        if (single && rr.cat != Cat::HandleError) {
          rep().count("c04_single_defect_categories_compared"); rep().count(fmt("c04_cat_%s", catname(rr.cat)));
          if (fromnop(d.err) != rr.cat) vv2(fmt("C04:category:%s-for-%s:%s", errname(d.err), catname(rr.cat), tkey(dc).c_str()), fmt("%s returned '%s' for a single defect (%s) whose category is %s", rname(rk), errname(d.err), m.desc.c_str(), catname(rr.cat)), det);
        }
      }
    }
    if (rep().want_sample(fmt("%s-%d", dc.t->name, (int)m.kind), 1) && rep().samples.size() < 16 && ci == 0)
      rep().sample(fmt("%s-%d", dc.t->name, (int)m.kind), J().s("type", dc.t->name).s("mutation", m.desc).s("bytes", hex(m.bytes, 40)).s("reference", ref_ok ? "accept" : catname(rr.cat)).str(), 1);
  }
  }
  clear_current();
}

// ---- C04 on well-formed input: the valid encoding of a generated value must be accepted, with that value and that length, by every reader kind
// incl. the unbounded ones (stream over stringstream / chunked non-seekable streambuf, fd over memfd and pipe) - and its strict prefixes rejected.
// This is also the only C04 traffic for types that are kept away from hostile bytes (bool / loose-enum BIN elements): their valid encodings are safe.
static void c04_valid_case(const TypeCtx& c, uint64_t ci) {
  if (c.t->flags & (F_UNBOUNDED | F_AMBIGUOUS | F_HANDLE)) return;
  Viol viol{c, (int64_t)ci, "valid"};
  const bool big = (ci % 8 == 5) && (c.sch.k == K::STR || c.sch.k == K::BIN) && c.sch.len == Len::VAR;
  Val v = gen_value(c, ci, 100, false, big); Obj o(c.t); o.set(v); Val v0 = canoned(c.sch, o.val());
  Enc e; RefEncode(c.sch, o.val(), e);
  set_current("%s", case_desc(c.t->name, (int64_t)ci, "valid", J().s("bytes", hex(e.out, 160)).str()).c_str());
  rep().note(hash_combine(hash_combine(hash_str(c.t->name), hash_bytes(e.out.data(), e.out.size())), 0xa11d), e.out.size() >= 2);
  for (int rk = 0; rk < R_COUNT; rk++) {
    if (!r_ok(rk, c.t->flags)) continue;
    for (int used = 0; used < 2; used++) {
      Source src; src.init(rk, e.out.data(), e.out.size(), r_is_bounded(rk) ? e.out.size() : SIZE_MAX, 1 + (unsigned)((ci + (uint64_t)rk) % 6), (ci & 1) != 0);
      Obj dst(c.t); if (used) dst.set(gen_value(c, ci, 800));
      auto st = c.t->read(src, dst.p);
      rep().count("c04_valid_encodings_on_every_reader"); rep().count(std::string("c04_valid_reader_") + rname(rk));
      std::string det = J().s("reader", rname(rk)).s("bytes", hex(e.out, 160)).b("used_destination", used != 0).str();
      if (!st) { viol(fmt("C04:rejects-valid:%s:%s:%s", errname(st.error()), rname(rk), tkey(c).c_str()), fmt("%s rejected ('%s') the encoding docs/format.md prescribes for this value (%zu bytes)", rname(rk), errname(st.error()), e.out.size()), det); break; }
      if (src.consumed() != e.out.size()) { viol(fmt("C04:consumed-differs:%s:%s", rname(rk), tkey(c).c_str()), fmt("%s consumed %zu of the %zu bytes of the encoding", rname(rk), src.consumed(), e.out.size()), det); break; }
      if (canoned(c.sch, dst.val()) != v0) { viol(fmt("C04:value-differs:%s", tkey(c).c_str()), fmt("%s decoded %s, the bytes denote %s", rname(rk), vjson(canoned(c.sch, dst.val())).c_str(), vjson(v0).c_str()), det); break; }
    }
  }
  // the same valid encoding arriving on a pipe in pieces of 1..7 bytes from a concurrent producer (short reads): still one well-formed encoding
  if (r_ok(R_FD, c.t->flags) && ci % 2 == 1 && e.out.size() < 4000) {
    int fds[2]; if (::pipe(fds) == 0) {
      Bytes data = e.out; uint64_t s0 = ci * 77 + 5;
      std::thread feeder([fds, data, s0]() { Rng r(s0); size_t off = 0; while (off < data.size()) { size_t k = std::min<size_t>(1 + r.below(7), data.size() - off); ssize_t w = ::write(fds[1], data.data() + off, k); if (w <= 0) break; off += (size_t)w; if (r.below(3) == 0) std::this_thread::yield(); if (r.below(16) == 0) usleep(200); } ::close(fds[1]); });
      { Source src; src.kind = R_FD; src.fr.reset(new nop::FdReader(fds[0])); Obj dst(c.t); auto st = c.t->read(src, dst.p); rep().count("c04_valid_encodings_on_a_trickling_pipe");
        if (!st) viol(fmt("C04:rejects-valid:%s:FdReader<trickling pipe>:%s", errname(st.error()), tkey(c).c_str()), fmt("FdReader rejected ('%s') a well-formed encoding that arrives on a pipe in pieces of 1..7 bytes", errname(st.error())), J().s("bytes", hex(e.out, 160)).str());
        else if (canoned(c.sch, dst.val()) != v0) viol(fmt("C04:value-differs:%s", tkey(c).c_str()), "FdReader over a trickling pipe decoded another value", J().s("bytes", hex(e.out, 160)).str()); }
      feeder.join();
    }
  }
  if ((c.t->flags & F_NOHOSTILE) && e.out.size() <= 200) for (size_t k = 0; k < e.out.size(); k++) for (int rk : {R_PEDANTIC, R_BUFFER, R_B_PEDANTIC}) {
    Source src; src.init(rk, e.out.data(), k, r_is_bounded(rk) ? k : SIZE_MAX); Obj dst(c.t); auto st = c.t->read(src, dst.p); rep().count("c04_single_defect_categories_compared");
    if (st) viol(fmt("C04:accepts-invalid:Truncated:cut:%s", tkey(c).c_str()), fmt("%s accepted the first %zu of %zu bytes", rname(rk), k, e.out.size()));
    else if (st.error() != nop::ErrorStatus::ReadLimitReached) viol(fmt("C04:category:%s-for-Truncated:%s", errname(st.error()), tkey(c).c_str()), fmt("%s returned '%s' for a truncated encoding", rname(rk), errname(st.error())));
  }
  clear_current();
}

// ================================================================= C05: every cut point on every reader
static void c05_case(const TypeCtx& c, uint64_t ci) {
  const bool big = (ci % 12 == 5) && (c.sch.k == K::STR || c.sch.k == K::BIN) && c.sch.len == Len::VAR;
  if (big) rep().count("c05_values_above_64KiB");
  Val v = gen_value(c, ci, 100, false, big);
  Obj o(c.t); Written w; Viol viol{c, (int64_t)ci, "cut"};
  set_current("%s", case_desc(c.t->name, (int64_t)ci, "cut").c_str());
  if (!write_reference(c, o, v, &w, viol, "C05")) return;
  const Bytes& b = w.bytes; Resolver rs{&w.log.pushed};
  std::vector<size_t> cuts;
  if (b.size() <= (size_t)quick_or(512, 4096)) for (size_t k = 0; k < b.size(); k++) cuts.push_back(k);
  else { Enc e; RefEncode(c.sch, w.v0, e); std::set<size_t> cs; for (auto& f : e.fields) { for (int d = -1; d <= 1; d++) { size_t k = f.off + d; if (k < b.size()) cs.insert(k); k = f.off + f.len + d; if (k < b.size()) cs.insert(k); } } Rng r = case_rng(c.t->name, ci, 5); for (int i = 0; i < 64; i++) cs.insert(r.below(b.size())); cuts.assign(cs.begin(), cs.end()); if (cuts.size() > 600) cuts.resize(600); }
  const TypeCtx* readers[2] = {&c, c.alt >= 0 ? &g_types[(size_t)c.alt] : nullptr};
  // tables: the same value as a foreign writer with a coarser size estimate would send it (every outer entry padded); cuts
  // inside the padding must be rejected too
  Bytes padded; std::vector<size_t> pcuts;
  if ((c.t->flags & F_TABLE) && !(c.t->flags & F_HANDLE)) {
    Enc e; RefEncode(c.sch, w.v0, e);
    if (e.out == b && !e.entries.empty()) { Rng pr = case_rng(c.t->name, ci, 55); padded = pad_outer_entries(e, pr); Val t; DecResult rr = RefDecode(c.sch, padded.data(), padded.size(), &t, nullptr);
      if (rr.cat != Cat::OK || rr.consumed != padded.size()) padded.clear(); else { for (size_t k = 0; k < padded.size() && padded.size() <= 600; k++) pcuts.push_back(k); } }
  }
  for (int pass = 0; pass < 2; pass++) {
  const Bytes& b = pass ? padded : w.bytes; if (pass && padded.empty()) break;
  const std::vector<size_t>& cuts_now = pass ? pcuts : cuts;
  if (pass) rep().count("c05_padded_table_encodings");
  for (size_t k : cuts_now) {
    for (int which = 0; which < 2; which++) {
      const TypeCtx* rt = readers[which]; if (!rt) continue;
      for (int rk = 0; rk < R_COUNT; rk++) {
        if (!r_ok(rk, rt->t->flags) || !r_ok(rk, c.t->flags)) continue;
        // bounded readers: (a) inner holds the k-byte prefix, limit beyond it; (b) inner holds everything, limit = k
        for (int mode = 0; mode < (r_is_bounded(rk) ? 2 : 1); mode++) {
          bool pipe = r_inner(rk) == R_FD && (k & 1);
          std::string stage = fmt("%scut@%zu/%s/%d/%d", pass ? "padded-" : "", k, rname(rk), mode, which);
          if (!args().only_stage.empty() && args().only_stage != stage) continue;
          set_current("%s", case_desc(c.t->name, (int64_t)ci, stage, J().u("len", b.size()).s("bytes", hex(b, 128)).str()).c_str());
          Source src;
          if (mode == 0) src.init(rk, b.data(), k, r_is_bounded(rk) ? b.size() + 3 : SIZE_MAX, 1 + (unsigned)(k % 5), pipe);
          else src.init(rk, b.data(), b.size(), k, 2, pipe);
          attach_resolver(src, &rs);
          Obj dst(rt->t);
          auto st = rt->t->read(src, dst.p);
          rep().note_enumerated(k > 0);
          rep().count("c05_cut_reads"); rep().count(std::string("c05_reader_") + rname(rk)); if (which) rep().count("c05_cut_reads_by_other_table_version");
          if (pass) rep().count("c05_cut_reads_of_padded_tables");
          // the same reader used again after the failure (a receive loop that logs the error and tries the next message): it must not deliver bytes that are
          // not in the truncated source - the exact-size buffer under ASan and the consumed count are the monitors
          if (!st && mode == 0 && (rk == R_BUFFER || rk == R_PEDANTIC || rk == R_B_BUFFER || rk == R_B_PEDANTIC) && (k % 3 == 0)) {
            Obj again(rt->t); auto st2 = rt->t->read(src, again.p); rep().count("c05_second_reads_on_the_same_reader");
            if (src.consumed() > k) rep().violation(fmt("C05:reader-beyond-source-after-failure:%s:%s", rname(rk), tkey(c).c_str()), fmt("%s: after a failed read of the first %zu bytes, a second Read on the same %s %s and the reader stands at %zu", c.t->name, k, rname(rk), st2 ? "succeeded" : "failed", src.consumed()), case_desc(c.t->name, (int64_t)ci, stage));
          }
          if (st) rep().violation(fmt("C05:truncated-accepted:%s:%s%s%s", rname(rk), tkey(c).c_str(), which ? ":skipping-reader" : "", pass ? ":padded" : ""), fmt("%s: %s reported success on the first %zu of %zu bytes (mode %s)", c.t->name, rname(rk), k, b.size(), mode ? "limit=k" : "source ends at k"), case_desc(c.t->name, (int64_t)ci, stage, J().s("bytes", hex(b, 160)).u("cut", k).str()));
        }
      }
    }
  }
  }
  rep().count("c05_encodings"); rep().maxc("max_cut_encoding_len", b.size());
  if (rep().want_sample(c.t->name, 1) && rep().samples.size() < 12) rep().sample(c.t->name, J().s("type", c.t->name).s("bytes", hex(b, 40)).u("cuts", cuts.size()).str(), 1);
  clear_current();
}

// ================================================================= C06
static const int kCapWriters[] = {W_BUFFER, W_PEDANTIC, W_CONSTEXPR, W_LOG, W_B_PEDANTIC, W_B_BUFFER, W_B_CONSTEXPR, W_B_LOG};
static void c06_case(const TypeCtx& c, uint64_t ci) {
  Viol viol{c, (int64_t)ci, "capacity"};
  Val v = gen_value(c, ci, 100);
  Obj o(c.t); Written w;
  set_current("%s", case_desc(c.t->name, (int64_t)ci, "capacity").c_str());
  if (!write_reference(c, o, v, &w, viol, "C06")) return;
  size_t gs = w.gs, len = w.bytes.size();
  rep().note(hash_combine(hash_str(c.t->name), hash_bytes(w.bytes.data(), len)), len >= 2);
  rep().count("c06_values");
  if (gs < len) viol(fmt("C06:getsize-underestimates:%s", tkey(c).c_str()), fmt("GetSize = %zu but Write emitted %zu bytes", gs, len), J().s("value", vjson(w.v0)).str());
  if (!(c.t->flags & F_HANDLE) && gs != len) viol(fmt("C06:getsize-not-exact:%s", tkey(c).c_str()), fmt("GetSize = %zu but Write emitted %zu bytes (type without handles)", gs, len), J().s("value", vjson(w.v0)).str());
  // table framing: the reference decoder must accept the bytes and end exactly at their end (entry size = value + padding)
  if (c.t->flags & F_TABLE) { Val t; DecResult rr = RefDecode(c.sch, w.bytes.data(), len, &t, nullptr); if (rr.cat != Cat::OK || rr.consumed != len) viol(fmt("C06:entry-framing:%s", tkey(c).c_str()), fmt("entry sizes do not frame the entries: reference decoder says %s after %zu of %zu bytes", catname(rr.cat), rr.consumed, len)); rep().count("c06_table_framings_parsed"); }
  // handle-bearing types: whatever reference the writer returns (any int64), GetSize must still be an upper bound
  if ((c.t->flags & F_HANDLE) && !w.log.pushed.empty()) {
    static const int64_t kBig[] = {2147483647LL, 2147483648LL, 1099511627776LL, INT64_MAX, INT64_MIN, -2147483649LL, -129, 32768};
    for (int64_t ref : kBig) for (int wk : {W_LOG, W_B_LOG}) {
      Sink s; if (wk == W_LOG) s.init(W_LOG, gs); else s.init(W_B_LOG, SIZE_MAX, gs);
      s.log.refs_to_return.assign(64, ref);
      auto st = c.t->write(s, o.p);
      rep().count("c06_handle_reference_size_writes"); rep().note(hash_combine(hash_str(c.t->name), hash_combine((uint64_t)ref, hash_combine(ci, (uint64_t)wk))), true);
      if (!st) viol(fmt("C06:getsize-underestimates:handle-reference:%s", tkey(c).c_str()), fmt("Write into GetSize (%zu) bytes failed with '%s' when the writer returns handle reference %" PRId64, gs, errname(st.error()), ref), J().s("value", vjson(w.v0)).str());
      else if (s.written() > gs) viol(fmt("C06:getsize-underestimates:handle-reference:%s", tkey(c).c_str()), fmt("%zu bytes written, GetSize %zu, handle reference %" PRId64, s.written(), gs, ref));
    }
  }
  std::vector<size_t> caps;
  if (gs <= (size_t)quick_or(300, 2000)) for (size_t k = 0; k <= gs + 1; k++) caps.push_back(k);
  else { caps = {0, 1, gs - 1, gs, gs + 1, len, len - 1}; Rng r = case_rng(c.t->name, ci, 6); for (int i = 0; i < 32; i++) caps.push_back(r.below(gs + 2)); }
  // a second value written after a first one into the same writer (remaining capacity, not total capacity, decides)
  Val va = gen_value(c, ci, 321); Obj oa(c.t); oa.set(va); size_t gsa = c.t->get_size(oa.p);
  for (size_t cap : caps) {
    for (int wk : kCapWriters) {
      if (!w_ok(wk, c.t->flags)) continue;
      for (int mode = 0; mode < (w_is_bounded(wk) ? 3 : 2); mode++) {
        // mode 2 (bounded kinds): the bound is generous and the *wrapped* writer has the capacity under test - the limit of the wrapped writer must be honoured through the BoundedWriter
        const int second = mode == 1; const bool inner_limited = mode == 2;
        std::string stage = fmt("cap%zu/%s/%d", cap, wname(wk), mode);
        if (!args().only_stage.empty() && args().only_stage != stage) continue;
        set_current("%s", case_desc(c.t->name, (int64_t)ci, stage, J().u("getsize", gs).u("len", len).str()).c_str());
        Sink s; size_t pre = 0;
        // bounded kinds: inner buffer is generous, the bound is the capacity under test
        if (inner_limited) { s.init(wk, cap, gs + 64); rep().count("c06_bounded_writes_limited_by_the_wrapped_writer"); }
        else if (w_is_bounded(wk)) s.init(wk, (second ? gsa : 0) + gs + 64, (second ? gsa : 0) + cap); else s.init(wk, (second ? gsa : 0) + cap);
        if (second) { auto st0 = c.t->write(s, oa.p); if (!st0) { viol(fmt("C06:first-write-failed:%s:%s", wname(wk), tkey(c).c_str()), "first value did not fit its own GetSize"); continue; } pre = s.written(); if (pre > gsa) continue; if (w_is_bounded(wk)) { /* remaining bound = gsa - pre + cap */ } }
        size_t room = (second ? gsa - pre : 0) + cap;     // remaining capacity when the value under test is written
        auto st = c.t->write(s, o.p);
        size_t wr = s.written() - pre;
        rep().note_enumerated(true); rep().count("c06_capacity_writes"); rep().count(std::string("c06_writer_") + wname(wk)); if (second) rep().count("c06_second_value_writes");
        std::string det = J().u("capacity_remaining", room).u("getsize", gs).u("len", len).s("writer", wname(wk)).b("after_first_value", second != 0).str();
        Viol v2{c, (int64_t)ci, stage.c_str()};
        if (room >= gs) {
          if (!st) v2(fmt("C06:fails-with-room:%s:%s", wname(wk), tkey(c).c_str()), fmt("Write into %zu >= GetSize (%zu) remaining bytes failed with '%s'", room, gs, errname(st.error())), det);
          else if (second && (c.t->flags & F_HANDLE)) { /* handle references continue the first value's numbering: bytes legitimately differ */ }
          else { Bytes b = s.bytes(); if (wr != len || b.size() < pre + len || memcmp(b.data() + pre, w.bytes.data(), len) != 0) v2(fmt("C06:wrong-bytes:%s:%s", wname(wk), tkey(c).c_str()), "bytes written into a sufficient buffer differ from the reference bytes", det); }
        } else {
          if (st) v2(fmt("C06:accepts-small-buffer:%s:%s", wname(wk), tkey(c).c_str()), fmt("Write into %zu < GetSize (%zu) remaining bytes reported success (wrote %zu)", room, gs, wr), det);
          else if (st.error() != nop::ErrorStatus::WriteLimitReached) v2(fmt("C06:wrong-error:%s:%s:%s", errname(st.error()), wname(wk), tkey(c).c_str()), fmt("Write into a too small buffer returned '%s', not WriteLimitReached", errname(st.error())), det);
          if (wr > room) v2(fmt("C06:wrote-beyond-capacity:%s:%s", wname(wk), tkey(c).c_str()), fmt("%zu bytes written with %zu remaining", wr, room), det);
          // the refusal is not sticky: the same writer still has room - wr bytes, and a value whose GetSize fits there must be written (a writer that latches its
          // first refusal breaks "Write with at least GetSize bytes of remaining capacity never fails" on the second use)
          if (!st && wr <= room && !(c.t->flags & F_HANDLE) && !inner_limited) {
            Obj od(c.t); const size_t gsd = c.t->get_size(od.p); const size_t before = s.written();
            if (gsd <= room - wr) { auto st3 = c.t->write(s, od.p); rep().count("c06_writes_after_a_refused_write");
              if (!st3) v2(fmt("C06:fails-with-room:after-refusal:%s:%s", wname(wk), tkey(c).c_str()), fmt("after a refused Write (%zu bytes were missing) the same writer has %zu bytes left, yet a value with GetSize %zu failed with '%s'", gs - room, room - wr, gsd, errname(st3.error())), det);
              else if (s.written() - before != gsd) v2(fmt("C06:wrong-bytes:after-refusal:%s:%s", wname(wk), tkey(c).c_str()), fmt("after a refused Write a value with GetSize %zu was written as %zu bytes", gsd, s.written() - before), det); }
          }
        }
      }
    }
  }
  if (rep().want_sample(c.t->name, 1) && rep().samples.size() < 12) rep().sample(c.t->name, J().s("type", c.t->name).u("getsize", gs).u("written", len).u("capacities_swept", caps.size()).str(), 1);
  clear_current();
}
// aggregate sizes >= 2^32 without the memory: 4097 references to one 1 MiB string, counting writer
struct CountingWriter {
  uint64_t n = 0;
  nop::Status<void> Prepare(std::size_t) { return {}; }
  nop::Status<void> Write(std::uint8_t) { n++; return {}; }
  template <typename T, typename E = nop::EnableIfArithmetic<T>> nop::Status<void> Write(const T* b, const T* e) { n += (uint64_t)(e - b) * sizeof(T); return {}; }
  nop::Status<void> Skip(std::size_t k, std::uint8_t = 0) { n += k; return {}; }
};
static void c06_huge() {
  set_current("%s", case_desc("vector<reference_wrapper<string>>", 0, "huge").c_str());
  std::string big(1 << 20, 'x');
  {
    std::vector<std::reference_wrapper<std::string>> v(4097, std::ref(big));
    CountingWriter cw; nop::Serializer<CountingWriter*> ser{&cw};
    uint64_t gs = ser.GetSize(v); auto st = ser.Write(v);
    rep().note(hash_str("huge-vector"), true); rep().count("c06_huge_aggregate_cases");
    if (!st || gs < cw.n || gs != cw.n) rep().violation("C06:getsize-underestimates:huge-vector", fmt("vector of 4097 references to a 1 MiB string: GetSize = %" PRIu64 ", bytes written = %" PRIu64, gs, cw.n), case_desc("vector<reference_wrapper<string>>", 0, "huge"));
    rep().infos["huge_vector_bytes"] = std::to_string(cw.n);
  }
  {
    std::map<std::uint32_t, std::reference_wrapper<std::string>> m; for (uint32_t i = 0; i < 4097; i++) m.emplace(i, std::ref(big));
    CountingWriter cw; nop::Serializer<CountingWriter*> ser{&cw};
    uint64_t gs = ser.GetSize(m); auto st = ser.Write(m);
    rep().note(hash_str("huge-map"), true); rep().count("c06_huge_aggregate_cases");
    if (!st || gs != cw.n) rep().violation("C06:getsize-underestimates:huge-map", fmt("map of 4097 references to a 1 MiB string: GetSize = %" PRIu64 ", bytes written = %" PRIu64, gs, cw.n), case_desc("map<u32,reference_wrapper<string>>", 0, "huge"));
  }
  clear_current();
}

// ================================================================= C10: fault at every primitive call
static const nop::ErrorStatus kFaults[] = {nop::ErrorStatus::ReadLimitReached, nop::ErrorStatus::WriteLimitReached, nop::ErrorStatus::StreamError, nop::ErrorStatus::IOError, nop::ErrorStatus::ProtocolError, nop::ErrorStatus::DebugError};
static void c10_case(const TypeCtx& c, uint64_t ci) {
  Viol viol{c, (int64_t)ci, "fault"};
  // one case per type with a top-level payload above 64 KiB (block transfers that a reader/writer may split)
  const bool big = (ci % 8 == 5) && (c.sch.k == K::STR || c.sch.k == K::BIN) && c.sch.len == Len::VAR;
  if (big) rep().count("c10_values_above_64KiB");
  Val v = gen_value(c, ci, 100, false, big);
  Obj o(c.t); Written w;
  set_current("%s", case_desc(c.t->name, (int64_t)ci, "fault").c_str());
  if (!write_reference(c, o, v, &w, viol, "C10")) return;
  Resolver rs{&w.log.pushed};
  for (int bounded = 0; bounded < 2; bounded++) {
    // ---- writes
    int wk = bounded ? W_B_LOG : W_LOG;
    uint64_t ncalls; { Sink s; s.init(wk, SIZE_MAX, w.gs + 8); s.log.record = false; auto st = c.t->write(s, o.p); (void)st; ncalls = s.log.ncalls; }
    if (ncalls > 400) ncalls = 400;
    for (uint64_t k = 0; k < ncalls; k++) for (nop::ErrorStatus E : kFaults) {
      if (E == nop::ErrorStatus::ReadLimitReached) continue;
      std::string stage = fmt("w%d/k%" PRIu64 "/e%d", bounded, k, (int)E);
      if (!args().only_stage.empty() && args().only_stage != stage) continue;
      set_current("%s", case_desc(c.t->name, (int64_t)ci, stage).c_str());
      Sink s; s.init(wk, SIZE_MAX, w.gs + 8); s.log.fault.fail_at = (int64_t)k; s.log.fault.error = E;
      auto st = c.t->write(s, o.p);
      rep().note_enumerated(true); rep().count("c10_write_faults");
      Op fop = s.log.calls.size() > k ? s.log.calls[k].op : Op::Prepare; rep().count(std::string("c10_fault_at_") + opname(fop) + "_w");
      Viol v2{c, (int64_t)ci, stage.c_str()}; std::string det = J().u("call", k).u("of", ncalls).s("op", opname(fop)).s("error", errname(E)).s("writer", wname(wk)).str();
      if (st) v2(fmt("C10:success-after-fault:write:%s:%s", opname(fop), tkey(c).c_str()), fmt("Write reported success although call %" PRIu64 " (%s) failed with '%s'", k, opname(fop), errname(E)), det);
      else if (st.error() != E) v2(fmt("C10:error-changed:write:%s:%s", opname(fop), tkey(c).c_str()), fmt("call %" PRIu64 " (%s) failed with '%s' but Write returned '%s'", k, opname(fop), errname(E), errname(st.error())), det);
      if (s.log.calls_after_failure) v2(fmt("C10:calls-after-fault:write:%s:%s", opname(fop), tkey(c).c_str()), fmt("%" PRIu64 " further writer call(s) after call %" PRIu64 " (%s) failed", s.log.calls_after_failure, k, opname(fop)), det);
      if (k == 0 && !s.log.data.empty()) v2(fmt("C10:wrote-after-failed-prepare:%s", tkey(c).c_str()), "bytes were written although Prepare failed", det);
    }
    // ---- reads
    int rk = bounded ? R_B_LOG : R_LOG;
    uint64_t nr; { Source src; src.init(rk, w.bytes.data(), w.bytes.size(), w.bytes.size()); attach_resolver(src, &rs); src.log.record = false; Obj d(c.t); auto st = c.t->read(src, d.p); (void)st; nr = src.log.ncalls; }
    if (nr > 400) nr = 400;
    for (uint64_t k = 0; k < nr; k++) for (nop::ErrorStatus E : kFaults) {
      if (E == nop::ErrorStatus::WriteLimitReached) continue;
      std::string stage = fmt("r%d/k%" PRIu64 "/e%d", bounded, k, (int)E);
      if (!args().only_stage.empty() && args().only_stage != stage) continue;
      set_current("%s", case_desc(c.t->name, (int64_t)ci, stage).c_str());
      Source src; src.init(rk, w.bytes.data(), w.bytes.size(), w.bytes.size()); attach_resolver(src, &rs); src.log.fault.fail_at = (int64_t)k; src.log.fault.error = E;
      Obj d(c.t); auto st = c.t->read(src, d.p);
      rep().note_enumerated(true); rep().count("c10_read_faults");
      Op fop = src.log.calls.size() > k ? src.log.calls[k].op : Op::ReadByte; rep().count(std::string("c10_fault_at_") + opname(fop) + "_r");
      Viol v2{c, (int64_t)ci, stage.c_str()}; std::string det = J().u("call", k).u("of", nr).s("op", opname(fop)).s("error", errname(E)).s("reader", rname(rk)).str();
      if (st) v2(fmt("C10:success-after-fault:read:%s:%s", opname(fop), tkey(c).c_str()), fmt("Read reported success although call %" PRIu64 " (%s) failed with '%s'", k, opname(fop), errname(E)), det);
      else if (st.error() != E) v2(fmt("C10:error-changed:read:%s:%s", opname(fop), tkey(c).c_str()), fmt("call %" PRIu64 " (%s) failed with '%s' but Read returned '%s'", k, opname(fop), errname(E), errname(st.error())), det);
      if (src.log.calls_after_failure) v2(fmt("C10:calls-after-fault:read:%s:%s", opname(fop), tkey(c).c_str()), fmt("%" PRIu64 " further reader call(s) after call %" PRIu64 " (%s) failed", src.log.calls_after_failure, k, opname(fop)), det);
    }
  }
  // ---- handle resolution errors are returned unchanged
  if (c.t->flags & F_HANDLE) {
    for (nop::ErrorStatus E : kFaults) {
      struct Ctx { nop::ErrorStatus e; } ctx{E};
      Source src; src.init(R_LOG, w.bytes.data(), w.bytes.size()); src.log.resolver = [](void* x, int64_t, int64_t*) { return static_cast<Ctx*>(x)->e; }; src.log.resolver_ctx = &ctx;
      Obj d(c.t); auto st = c.t->read(src, d.p);
      if (!w.log.pushed.empty()) { rep().count("c10_handle_resolution_faults"); if (st || st.error() != E) viol(fmt("C10:handle-error-changed:%s", tkey(c).c_str()), fmt("GetHandle failed with '%s' but Read returned '%s'", errname(E), st ? "success" : errname(st.error()))); }
    }
  }
  if (rep().want_sample(c.t->name, 1) && rep().samples.size() < 12) rep().sample(c.t->name, J().s("type", c.t->name).s("bytes", hex(w.bytes, 32)).str(), 1);
  clear_current();
}

// ---- C10 for the RPC layer (anchors rpc/simple_method_sender.h, simple_method_receiver.h, interface.h dispatch)
struct C10If : nop::Interface<C10If> {
  NOP_INTERFACE("verif.c10.Iface");
  NOP_METHOD(Sum, int(int, int));
  NOP_METHOD(Describe, std::string(const std::string&, std::vector<int>));
  NOP_METHOD(Log, void(const std::string&));
  NOP_INTERFACE_API(Sum, Describe, Log);
};
struct C10Service { int calls = 0; std::string OnDescribe(const std::string& s, std::vector<int> v) { calls++; return s + ":" + std::to_string(v.size()) + std::string(40, 'd'); } };
static int g_c10_sum_calls = 0;
static void c10_rpc() {
  const std::string T = "rpc";
  using Ser = nop::Serializer<LogWriter*>; using Des = nop::Deserializer<LogReader*>;
  // a valid reply for each method so that a sender which wrongly goes on to read a reply would "succeed"
  auto encode = [](auto&& v) { LogWriter w; Ser s{&w}; auto st = s.Write(v); (void)st; return w.data; };
  Bytes reply_int = encode(30), reply_str = encode(std::string("reply"));
  struct Method { const char* name; std::function<nop::ErrorStatus(nop::SimpleMethodSender<Ser, Des>*, bool*)> invoke; const Bytes* reply; };
  std::vector<Method> methods = {
    {"Sum", [](auto* snd, bool* ok) { auto st = C10If::Sum::Invoke(snd, 10, 2000000); *ok = (bool)st; return st ? nop::ErrorStatus::None : st.error(); }, &reply_int},
    {"Describe", [](auto* snd, bool* ok) { auto st = C10If::Describe::Invoke(snd, std::string("a long enough string to need a block write"), std::vector<int>{1, 2, 3, 400}); *ok = (bool)st; return st ? nop::ErrorStatus::None : st.error(); }, &reply_str},
    {"Log", [](auto* snd, bool* ok) { auto st = C10If::Log::Invoke(snd, std::string("hello")); *ok = (bool)st; return st ? nop::ErrorStatus::None : st.error(); }, &reply_int},
  };
  for (auto& m : methods) {
    uint64_t nw, nr;
    { LogWriter w; LogReader r(m.reply->data(), m.reply->size()); Ser s{&w}; Des d{&r}; auto snd = nop::MakeSimpleMethodSender(&s, &d); bool ok; m.invoke(&snd, &ok); nw = w.ncalls; nr = r.ncalls; }
    for (uint64_t k = 0; k < nw; k++) for (nop::ErrorStatus E : kFaults) {
      if (E == nop::ErrorStatus::ReadLimitReached) continue;
      std::string stage = fmt("send/%s/w%" PRIu64 "/e%d", m.name, k, (int)E); if (!args().only_stage.empty() && args().only_stage != stage) continue;
      set_current("%s", case_desc(T, 0, stage).c_str());
      LogWriter w; w.fault.fail_at = (int64_t)k; w.fault.error = E; LogReader r(m.reply->data(), m.reply->size()); Ser s{&w}; Des d{&r}; auto snd = nop::MakeSimpleMethodSender(&s, &d);
      bool ok = false; nop::ErrorStatus got = m.invoke(&snd, &ok);
      rep().note_enumerated(true); rep().count("c10_rpc_sender_write_faults");
      std::string cd = case_desc(T, 0, stage, J().s("method", m.name).u("call", k).s("error", errname(E)).str());
      if (ok) rep().violation(fmt("C10:rpc:success-after-fault:send:%s", m.name), fmt("Invoke(%s) reported success although writer call %" PRIu64 " of the request failed with '%s'", m.name, k, errname(E)), cd);
      else if (got != E) rep().violation(fmt("C10:rpc:error-changed:send:%s", m.name), fmt("writer call %" PRIu64 " failed with '%s' but Invoke(%s) returned '%s'", k, errname(E), m.name, errname(got)), cd);
      if (w.calls_after_failure) rep().violation(fmt("C10:rpc:calls-after-fault:send:%s", m.name), fmt("%" PRIu64 " further writer calls after the failed one while sending %s", w.calls_after_failure, m.name), cd);
      if (r.ncalls) rep().violation(fmt("C10:rpc:reply-read-after-failed-send:%s", m.name), fmt("the sender went on to read the reply (%" PRIu64 " reader calls) after the request write failed", r.ncalls), cd);
    }
    for (uint64_t k = 0; k < nr; k++) for (nop::ErrorStatus E : kFaults) {
      if (E == nop::ErrorStatus::WriteLimitReached) continue;
      std::string stage = fmt("send/%s/r%" PRIu64 "/e%d", m.name, k, (int)E); if (!args().only_stage.empty() && args().only_stage != stage) continue;
      set_current("%s", case_desc(T, 0, stage).c_str());
      LogWriter w; LogReader r(m.reply->data(), m.reply->size()); r.fault.fail_at = (int64_t)k; r.fault.error = E; Ser s{&w}; Des d{&r}; auto snd = nop::MakeSimpleMethodSender(&s, &d);
      bool ok = false; nop::ErrorStatus got = m.invoke(&snd, &ok); rep().note_enumerated(true); rep().count("c10_rpc_sender_read_faults");
      std::string cd = case_desc(T, 0, stage, J().s("method", m.name).u("call", k).s("error", errname(E)).str());
      if (ok || got != E) rep().violation(fmt("C10:rpc:reply-read-fault:%s", m.name), fmt("reader call %" PRIu64 " of the reply failed with '%s', Invoke(%s) returned '%s'", k, errname(E), m.name, ok ? "success" : errname(got)), cd);
      if (r.calls_after_failure) rep().violation(fmt("C10:rpc:calls-after-fault:reply:%s", m.name), "further reader calls after the failed one while reading the reply", cd);
    }
  }
  // ---- receiver / dispatcher: lambda binding (Sum) and member-function binding (Describe)
  auto bindings = nop::BindInterface<C10Service*>(C10If::Sum::Bind([](C10Service*, int a, int b) { g_c10_sum_calls++; return a + b; }), C10If::Describe::Bind(&C10Service::OnDescribe));
  struct Req { const char* name; Bytes bytes; };
  std::vector<Req> reqs;
  { LogWriter w; Ser s{&w}; s.Write(C10If::Sum::Selector); s.Write(std::make_tuple(10, 2000000)); reqs.push_back({"Sum", w.data}); }
  { LogWriter w; Ser s{&w}; s.Write(C10If::Describe::Selector); s.Write(std::make_tuple(std::string("a long enough string to need a block write"), std::vector<int>{1, 2, 3, 400})); reqs.push_back({"Describe", w.data}); }
  for (auto& q : reqs) {
    uint64_t nr, nw;
    { LogWriter w; LogReader r(q.bytes.data(), q.bytes.size()); Ser s{&w}; Des d{&r}; auto rcv = nop::MakeSimpleMethodReceiver(&s, &d); C10Service svc; auto st = bindings(&rcv, &svc); (void)st; nr = r.ncalls; nw = w.ncalls; }
    for (int side = 0; side < 2; side++) for (uint64_t k = 0; k < (side ? nw : nr); k++) for (nop::ErrorStatus E : kFaults) {
      if ((side == 0 && E == nop::ErrorStatus::WriteLimitReached) || (side == 1 && E == nop::ErrorStatus::ReadLimitReached)) continue;
      std::string stage = fmt("dispatch/%s/%c%" PRIu64 "/e%d", q.name, side ? 'w' : 'r', k, (int)E); if (!args().only_stage.empty() && args().only_stage != stage) continue;
      set_current("%s", case_desc(T, 0, stage).c_str());
      LogWriter w; LogReader r(q.bytes.data(), q.bytes.size()); if (side) { w.fault.fail_at = (int64_t)k; w.fault.error = E; } else { r.fault.fail_at = (int64_t)k; r.fault.error = E; }
      Ser s{&w}; Des d{&r}; auto rcv = nop::MakeSimpleMethodReceiver(&s, &d); C10Service svc; int sum0 = g_c10_sum_calls;
      auto st = bindings(&rcv, &svc);
      rep().note_enumerated(true); rep().count(side ? "c10_rpc_dispatch_write_faults" : "c10_rpc_dispatch_read_faults");
      std::string cd = case_desc(T, 0, stage, J().s("method", q.name).u("call", k).s("error", errname(E)).str());
      if (st) rep().violation(fmt("C10:rpc:success-after-fault:dispatch-%s:%s", side ? "reply" : "request", q.name), fmt("the dispatcher reported success although %s call %" PRIu64 " failed with '%s' (%s)", side ? "writer" : "reader", k, errname(E), q.name), cd);
      else if (st.error() != E) rep().violation(fmt("C10:rpc:error-changed:dispatch-%s:%s", side ? "reply" : "request", q.name), fmt("%s call %" PRIu64 " failed with '%s', the dispatcher returned '%s'", side ? "writer" : "reader", k, errname(E), errname(st.error())), cd);
      if (w.calls_after_failure || r.calls_after_failure) rep().violation(fmt("C10:rpc:calls-after-fault:dispatch:%s", q.name), "further reader/writer calls after the failed one", cd);
      if (side == 0 && (svc.calls || g_c10_sum_calls != sum0)) rep().violation(fmt("C10:rpc:handler-ran-after-failed-read:%s", q.name), "a handler ran although reading the request failed", cd);
      if (side == 0 && w.ncalls) rep().violation(fmt("C10:rpc:reply-after-failed-read:%s", q.name), "reply bytes were written although reading the request failed", cd);
    }
  }
  if (rep().want_sample("rpc", 1)) rep().sample("rpc", J().s("interface", "verif.c10.Iface").s("methods", "Sum, Describe, Log").str(), 1);
  clear_current();
}

// ================================================================= C11: prior contents
static void c11_case(const TypeCtx& c, uint64_t ci) {
  Viol viol{c, (int64_t)ci, "prior"};
  // one case per type with a top-level payload well above 64 KiB (decoders that grow the destination in pieces must still replace, not append)
  const bool big11 = (ci % 16 == 5) && (c.sch.k == K::STR || c.sch.k == K::BIN) && c.sch.len == Len::VAR;
  if (big11) rep().count("c11_values_above_64KiB");
  Val vin = gen_value(c, ci, 100, false, big11);
  Obj oin(c.t); Written w;
  set_current("%s", case_desc(c.t->name, (int64_t)ci, "prior").c_str());
  if (!write_reference(c, oin, vin, &w, viol, "C11")) return;
  Resolver rs{&w.log.pushed};
  Rng r = case_rng(c.t->name, ci, 11);
  // incoming byte strings: the valid encoding and a few invalid ones
  std::vector<Bytes> incoming; incoming.push_back(w.bytes);
  { Enc e; std::vector<int64_t> refs; for (size_t i = 0; i < w.log.pushed.size(); i++) refs.push_back((int64_t)i); e.refs = &refs; RefEncode(c.sch, w.v0, e); std::vector<Mut> ms; noise_mutations(e.out, r, 3, ms); if (!e.out.empty()) { Mut m; m.bytes.assign(e.out.begin(), e.out.begin() + r.below(e.out.size())); ms.push_back(m); } if (!(c.t->flags & (F_NOHOSTILE | F_UNBOUNDED))) for (auto& m : ms) incoming.push_back(m.bytes); }
  for (size_t bi = 0; bi < incoming.size(); bi++) {
    const Bytes& b = incoming[bi];
    // decode into a fresh object
    // the reader kind rotates with the case: prior-state independence must hold on every shipped reader (the same kind decodes into the fresh and the used object)
    static const int k11[] = {R_PEDANTIC, R_STREAM, R_BUFFER, R_CHUNKED, R_B_PEDANTIC, R_FD, R_B_STREAM, R_PEDANTIC};
    // (byte strings with arbitrary content - the noise mutations, indices 1..3 - only go to readers that bound the input themselves: a hostile length on an
    //  unbounded stream/fd reader allocates by design and is outside every property; the valid encoding and its truncation go to every kind)
    static const int k11b[] = {R_PEDANTIC, R_BUFFER, R_B_PEDANTIC, R_B_BUFFER};
    const bool arbitrary = bi >= 1 && bi + 1 < incoming.size();
    int rk11 = (c.t->flags & F_HANDLE) ? R_LOG : arbitrary ? k11b[(ci + bi) % 4] : k11[(ci + bi) % 8]; if (!r_ok(rk11, c.t->flags)) rk11 = R_PEDANTIC;
    rep().count(std::string("c11_reader_") + rname(rk11));
    Obj fresh(c.t); DecodeOutcome df = decode_with(c, rk11, b, SIZE_MAX, fresh, &rs, 0);
    Val fv; if (df.ok) fv = canoned(c.sch, fresh.val());
    for (int prior_kind = 0; prior_kind < 6; prior_kind++) {
      std::string stage = fmt("prior%d/in%zu", prior_kind, bi);
      if (!args().only_stage.empty() && args().only_stage != stage) continue;
      set_current("%s", case_desc(c.t->name, (int64_t)ci, stage, J().s("incoming", hex(b, 160)).str()).c_str());
      Obj dst(c.t); std::string pdesc;
      Val pv = gen_value(c, ci, 200 + prior_kind);
      switch (prior_kind) {
        case 5: {   // an object whose logical-buffer size member was assigned a count beyond the capacity (also what a foreign failed read may leave): the decoder must not trust it
          bool made = false; int cand = count_struct_candidates(c.sch, pv);
          for (int t = 0; t < cand && t < 6 && !made; t++) { Val mv = pv; Rng r5(hash_combine(ci, (uint64_t)t * 977 + bi)); ValMutator m(r5, t); m.walk(c.sch, mv); if (!m.done || m.desc.find("capacity+") == std::string::npos) continue;
            lb_oversize_flag() = false; dst.set(mv); if (lb_oversize_flag()) { made = true; pdesc = "assigned a value whose size member exceeds the capacity (" + m.desc + ")"; rep().count("c11_prior_states_with_out_of_range_size_member"); } }
          if (!made) continue; } break;
        case 0: pdesc = "default-constructed"; break;
        case 1: dst.set(pv); pdesc = "assigned random value"; break;
        case 2: { Obj po(c.t); po.set(pv); Bytes pb; nop::ErrorStatus err; if (encode_log(c, po, nullptr, &pb, &err)) { DecodeOutcome d0 = decode_with(c, rk11, pb, SIZE_MAX, dst, nullptr, 0); (void)d0; } pdesc = "after a successful read of another value"; } break;
        case 3: case 4: { Obj po(c.t); po.set(pv); Bytes pb; nop::ErrorStatus err; if (prior_kind == 4) dst.set(gen_value(c, ci, 300)); if (encode_log(c, po, nullptr, &pb, &err) && !pb.empty()) { size_t cut = r.below(pb.size()); pb.resize(cut); DecodeOutcome d0 = decode_with(c, rk11, pb, SIZE_MAX, dst, nullptr, 0); (void)d0; } pdesc = prior_kind == 3 ? "residue of a read that failed at a random cut" : "assigned value then residue of a failed read"; } break;
      }
      DecodeOutcome dp = decode_with(c, rk11, b, SIZE_MAX, dst, &rs, 0);
      rep().note(hash_combine(hash_combine(hash_str(c.t->name), hash_bytes(b.data(), b.size())), hash_combine(hash_str(str(pv)), (uint64_t)prior_kind)), prior_kind != 0);
      rep().count("c11_prior_state_decodes"); rep().count(fmt("c11_prior_kind_%d", prior_kind)); if (bi) rep().count("c11_invalid_incoming");
      Viol v2{c, (int64_t)ci, stage.c_str()}; std::string det = J().s("prior", pdesc).s("incoming", hex(b, 160)).str();
      if (dp.ok != df.ok || (!dp.ok && dp.err != df.err)) v2(fmt("C11:status-depends-on-prior:%s", tkey(c).c_str()), fmt("decode into a %s object: '%s'; into a fresh object: '%s'", pdesc.c_str(), dp.ok ? "ok" : errname(dp.err), df.ok ? "ok" : errname(df.err)), det);
      else if (dp.ok && canoned(c.sch, dst.val()) != fv) v2(fmt("C11:value-depends-on-prior:%s", tkey(c).c_str()), fmt("decode into a %s object gave %s, into a fresh object %s", pdesc.c_str(), vjson(canoned(c.sch, dst.val())).c_str(), vjson(fv).c_str()), det);
    }
  }
  if (rep().want_sample(c.t->name, 1) && rep().samples.size() < 12) rep().sample(c.t->name, J().s("type", c.t->name).s("incoming", hex(w.bytes, 32)).u("incoming_variants", incoming.size()).str(), 1);
  clear_current();
}

// ================================================================= main
int vf::engine_main() {
  const Args& a = args();
  set_watchdog(args().thorough() ? 120 : 40);
  auto& reg = registry();
  std::sort(reg.begin(), reg.end(), [](const TypeOps& x, const TypeOps& y) { return strcmp(x.name, y.name) < 0; });
  for (size_t i = 0; i < reg.size(); i++) g_types.push_back(TypeCtx{&reg[i], reg[i].schema(), i});
  // reader-side alternates for table versions: type named "<X>.R" reads bytes of "<X>"
  for (auto& c : g_types) { std::string n = c.t->name; size_t p = n.find('<'); std::string base = p == std::string::npos ? n : n.substr(0, p); for (auto& d : g_types) { std::string dn = d.t->name; size_t q = dn.find('<'); std::string dbase = q == std::string::npos ? dn : dn.substr(0, q); if (dbase == base + "_R") c.alt = (int)d.idx; } }
  rep().infos["corpus_types"] = std::to_string(g_types.size());
  const std::string P = a.prop; bool th = a.thorough();
  // --dump-corpus DIR: seed corpus for the libFuzzer target (same type order and input layout as engines/codec/fuzz.cpp)
  for (size_t i = 0; i + 1 < a.extra.size(); i++) if (a.extra[i] == "--dump-corpus") {
    std::vector<const TypeCtx*> ft; for (auto& c : g_types) if (!(c.t->flags & (F_NOHOSTILE | F_UNBOUNDED | F_AMBIGUOUS))) ft.push_back(&c);
    size_t nfiles = 0;
    for (size_t ti = 0; ti < ft.size(); ti++) for (int ci = 0; ci < 6; ci++) {
      const TypeCtx& c = *ft[ti]; Val v = gen_value(c, (uint64_t)ci, 100); Obj o(c.t); o.set(v); Enc e; std::vector<int64_t> refs; for (int k = 0; k < 64; k++) refs.push_back(k); e.refs = &refs; RefEncode(c.sch, o.val(), e);
      if (e.out.size() > 400) continue;
      Bytes file = {(uint8_t)(ti & 0xff), (uint8_t)(ti >> 8), (uint8_t)ci}; file.insert(file.end(), e.out.begin(), e.out.end());
      FILE* f = fopen(fmt("%s/seed-%zu-%d", a.extra[i + 1].c_str(), ti, ci).c_str(), "wb"); if (f) { fwrite(file.data(), 1, file.size(), f); fclose(f); nfiles++; }
    }
    printf("dumped %zu seed inputs for %zu types\n", nfiles, ft.size());
    return 0;
  }
  int ncases = 0;
  // thorough sizes are set so that each check stays within roughly 10-30 minutes on 16 cores (the thorough corpus is twice as large and built at -O1)
  if (P == "C01") ncases = th ? 400 : 64; else if (P == "C03") ncases = th ? 3000 : 300; else if (P == "C04") ncases = th ? 48 : 8; else if (P == "C02") ncases = th ? 32 : 4;
  else if (P == "C05") ncases = th ? 60 : 12; else if (P == "C06") ncases = th ? 60 : 10; else if (P == "C10") ncases = th ? 40 : 8; else if (P == "C11") ncases = th ? 300 : 50;
  else { fprintf(stderr, "codec engine: unknown property %s\n", P.c_str()); return 2; }
  uint64_t types_run = 0;
  for (auto& c : g_types) {
    uint32_t fl = c.t->flags;
    if (P == "C04" && (a.only_stage.empty() || a.only_stage == "valid")) for (int ci = 0; ci < std::max(2, ncases / 2); ci++) { if (!a.replay() && !mine(c.idx * 7 + (uint64_t)ci)) continue; if (a.only_case >= 0 && a.only_case != ci) continue; if (!a.only_type.empty() && a.only_type != c.t->name) continue; c04_valid_case(c, (uint64_t)ci); }
    if ((P == "C02" || P == "C04") && (fl & (F_NOHOSTILE | F_UNBOUNDED))) continue;
    if (!a.only_type.empty() && a.only_type != c.t->name) continue;
    int n = (fl & F_BIG) ? std::max(2, ncases / 8) : ncases;
    bool ran = false;
    for (int ci = 0; ci < n; ci++) {
      if (!a.replay() && !mine(c.idx * 7 + (uint64_t)ci)) continue;
      if (a.only_case >= 0 && a.only_case != ci) continue;
      ran = true;
      if (fl & F_UNBOUNDED) rep().count("cases_on_unbounded_buffer_types");
      if (P == "C01") { c01_case(c, (uint64_t)ci); if (ci % 4 == 0) c01_oversize(c, (uint64_t)ci); if (ci % 8 == 6 || a.only_stage == "fd-storm") fd_storm_case(c, (uint64_t)ci, "C01", true); } else if (P == "C03") { c03_case(c, (uint64_t)ci); if (ci % 64 == 6 || a.only_stage == "fd-storm") fd_storm_case(c, (uint64_t)ci, "C03", false); } else if (P == "C04") c04_c02_case(c, (uint64_t)ci, false); else if (P == "C02") c04_c02_case(c, (uint64_t)ci, true);
      else if (P == "C05") c05_case(c, (uint64_t)ci); else if (P == "C06") c06_case(c, (uint64_t)ci); else if (P == "C10") c10_case(c, (uint64_t)ci); else if (P == "C11") c11_case(c, (uint64_t)ci);
    }
    if (P == "C03" && (a.only_case < 0 || a.only_case == -2)) c03_dense(c);
    if (ran) types_run++;
  }
  rep().counters["types_exercised_by_this_worker_max"] = types_run;
  if ((P == "C01" || P == "C05" || P == "C06" || P == "C10") && (a.only_type.empty() || a.only_type.compare(0, 6, "forms:") == 0)) forms_stage(P);
  if (P == "C06" && a.worker == 0 && !a.replay()) c06_huge();
  if (P == "C10" && ((a.worker == 0 && !a.replay()) || a.only_type == "rpc")) c10_rpc();
  return 0;
}
