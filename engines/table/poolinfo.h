// Pool / version metadata emitted by gen/tablegen.py
#pragma once
#include <string>
#include <vector>
#include "ref/val.h"
namespace vf {
struct PoolEntry { uint64_t id; int alt; bool active; Sch (*constraint)(); };   // constraint: schema of the most constrained fungible alternative
struct PoolVersion { int pool, version; std::string name; std::vector<PoolEntry> entries; };
std::vector<PoolVersion> pool_versions();
}  // namespace vf
