// Engine `table`: C07 (version compatibility across generated evolution histories) and C08 (framing validation).
#define VF_RT_MAIN
#ifndef VF_OPS_FEW
#define VF_OPS_FEW
#endif
#include "vlib/ops.h"
#include "ref/mutate.h"
#include "engines/table/poolinfo.h"

using namespace vf;
namespace vf { std::vector<TypeOps>& registry() { static std::vector<TypeOps> r; return r; } }

struct Ctx { const TypeOps* t; Sch sch; };
struct Ver { PoolVersion pv; Ctx tab, st, vec, outer; };
static std::vector<Ver> g_vers;
static const int kReaders[] = {R_PEDANTIC, R_BUFFER, R_STREAM, R_CHUNKED, R_B_PEDANTIC, R_LOG};
static const char* kCtxName[] = {"table", "struct{table;u32}", "vector<table>", "table{Entry<table>;u16}"};

static std::string base_name(const char* n) { std::string s = n; size_t p = s.find_first_of("<{="); return p == std::string::npos ? s : s.substr(0, p); }
static bool setup() {
  auto& reg = registry();
  auto find = [&](const std::string& b, bool vec) -> const TypeOps* { for (auto& t : reg) { std::string n = t.name; if (!vec && base_name(t.name) == b) return &t; if (vec && n.compare(0, 7 + b.size() + 1, "vector<" + b + "<") == 0) return &t; } return nullptr; };
  for (auto& pv : pool_versions()) {
    Ver v; v.pv = pv; const TypeOps* a = find(pv.name, false); const TypeOps* s = find(pv.name + "_S", false); const TypeOps* ve = find(pv.name, true); const TypeOps* o = find(pv.name + "_O", false);
    if (!a || !s || !ve || !o) { fprintf(stderr, "table engine: version %s incomplete in the registry\n", pv.name.c_str()); return false; }
    v.tab = {a, a->schema()}; v.st = {s, s->schema()}; v.vec = {ve, ve->schema()}; v.outer = {o, o->schema()};
    g_vers.push_back(v);
  }
  return !g_vers.empty();
}
static const Ctx& ctx_of(const Ver& v, int c) { return c == 0 ? v.tab : c == 1 ? v.st : c == 2 ? v.vec : v.outer; }

// ---- the 30-line model: what a reader version must see of what a writer version wrote
static Val project(const Sch& ws, const Val& wv, const Sch& rs) {
  if (ws.k == K::TAB && rs.k == K::TAB) {
    Val out; out.kids.assign(rs.kids.size(), Val());
    for (size_t j = 0; j < rs.kids.size(); j++) {
      if (!rs.active[j]) continue;                                         // deleted in the reader: skipped
      for (size_t i = 0; i < ws.kids.size(); i++) if (ws.ids[i] == rs.ids[j] && ws.active[i] && wv.kids[i].u) {   // active and non-empty in the writer
        Val e; e.u = 1; e.kids.push_back(project(ws.kids[i], wv.kids[i].kids[0], rs.kids[j])); out.kids[j] = e;
      }
    }
    return out;                                                            // everything else reads as empty
  }
  if ((ws.k == K::STU || ws.k == K::TUPLE) && ws.k == rs.k && ws.kids.size() == rs.kids.size()) { Val out = wv; for (size_t i = 0; i < ws.kids.size(); i++) out.kids[i] = project(ws.kids[i], wv.kids[i], rs.kids[i]); return out; }
  if (ws.k == K::ARY && rs.k == K::ARY) { Val out = wv; for (auto& k : out.kids) k = project(ws.kids[0], k, rs.kids[0]); return out; }
  return wv;                                                               // fungible leaves have equal value trees
}
// canonical form independent of schema (maps sorted) for cross-schema comparison
static Val canon_by(const Sch& s, Val v) { canon(s, v); return v; }

// value of writer version `w` for an assignment (Mask bit i = i-th active entry non-empty; any number of entries, not only the 64 of a machine word)
struct Mask {
  std::vector<uint8_t> on;
  static Mask from_u64(int na, uint64_t m) { Mask k; k.on.resize((size_t)na); for (int i = 0; i < na; i++) k.on[(size_t)i] = i < 64 ? (uint8_t)((m >> i) & 1) : (uint8_t)((m >> (i % 64)) & 1); return k; }
  static Mask all(int na, uint8_t v = 1) { Mask k; k.on.assign((size_t)na, v); return k; }
  static Mask random(int na, Rng& r) { Mask k; k.on.resize((size_t)na); unsigned dens = 1 + (unsigned)r.below(7); for (auto& b : k.on) b = r.below(8) < dens; return k; }
  // the i-th assignment of a sweep: in order for small tables; for wide ones all / none / only the entries beyond the 32nd / 64th / exactly the 65th / random
  static Mask sweep(int na, uint64_t ci, uint64_t half, Rng& r) {
    if (na < 63) { uint64_t n = 1ull << na; return from_u64(na, ci < n && ci < half ? ci : r.below(n)); }
    Mask k = all(na, 0);
    switch (ci % 8) { case 0: return all(na); case 1: return k; case 2: for (int i = 64; i < na; i++) k.on[(size_t)i] = 1; return k; case 3: k.on[64] = 1; return k; case 4: for (int i = 32; i < na; i++) k.on[(size_t)i] = (uint8_t)(i % 2); return k;
                      case 5: k.on[0] = 1; k.on[(size_t)na - 1] = 1; return k; default: return random(na, r); }
  }
  std::string str() const { std::string t; for (auto b : on) t += b ? '1' : '0'; return t; }
};
static Val gen_table_val(const Ver& w, const Mask& mask, Rng& r) {
  Val v; Gen g(r); size_t bit = 0;
  for (size_t i = 0; i < w.pv.entries.size(); i++) {
    Val e; const PoolEntry& pe = w.pv.entries[i];
    if (pe.active) { if (bit < mask.on.size() && mask.on[bit]) { e.u = 1; e.kids.push_back(g.gen(pe.constraint(), 1)); } bit++; }
    v.kids.push_back(e);
  }
  return v;
}
static int active_count(const Ver& w) { int n = 0; for (auto& e : w.pv.entries) n += e.active; return n; }
static Val gen_ctx_val(const Ver& w, int c, const Mask& mask, Rng& r) {
  switch (c) {
    case 0: return gen_table_val(w, mask, r);
    case 1: { Val v; v.kids.push_back(gen_table_val(w, mask, r)); Val x; x.u = (uint32_t)r.next(); v.kids.push_back(x); return v; }
    case 2: { Val v; size_t n = r.below(4); for (size_t i = 0; i < n; i++) v.kids.push_back(gen_table_val(w, i == 0 ? mask : Mask::random((int)mask.on.size(), r), r)); return v; }
    default: { Val v; Val e0; e0.u = r.below(4) != 0; if (e0.u) e0.kids.push_back(gen_table_val(w, mask, r)); Val e1; e1.u = r.below(2); if (e1.u) { Val x; x.u = (uint16_t)r.next(); e1.kids.push_back(x); } v.kids = {e0, e1}; return v; }
  }
}

static bool write_ctx(const Ctx& c, const Val& v, Bytes* out, Val* v0) {
  void* o = c.t->create(); c.t->from_val(v, o); *v0 = c.t->to_val(o);
  Sink s; s.init(W_LOG, SIZE_MAX); auto st = c.t->write(s, o); c.t->destroy(o);
  if (!st) return false; *out = s.log.data; return true;
}

// ================================================================= C07
static void run_c07() {
  bool th = args().thorough();
  size_t n = g_vers.size(); uint64_t pair_id = 0;
  for (size_t wi = 0; wi < n; wi++) for (size_t ri = 0; ri < n; ri++) {
    const Ver& W = g_vers[wi]; const Ver& R = g_vers[ri];
    if (W.pv.pool != R.pv.pool) continue;
    pair_id++;
    std::string pname = W.pv.name + "->" + R.pv.name;
    if (!args().only_type.empty() && args().only_type != pname) continue;
    int na = active_count(W);
    int per_pair = th ? 160 : 48;
    for (int ci = 0; ci < per_pair; ci++) {
      if (args().only_case >= 0 ? args().only_case != ci : !mine(pair_id * 31 + (uint64_t)ci)) continue;
      Rng r = case_rng(pname, (uint64_t)ci, 7);
      Mask mask = Mask::sweep(na, (uint64_t)ci, (uint64_t)per_pair / 2, r);      // low case indices sweep the assignments in order
      int c = ci % 4;
      const Ctx& wc = ctx_of(W, c); const Ctx& rc = ctx_of(R, c);
      Val wv = gen_ctx_val(W, c, mask, r), wv0; Bytes bytes;
      std::string cd = case_desc(pname, ci, kCtxName[c], J().s("mask", mask.str()).str());
      set_current("%s", cd.c_str());
      if (!write_ctx(wc, wv, &bytes, &wv0)) { rep().violation("C07:write-failed", pname + ": writing the table failed", cd); continue; }
      Val expect = canon_by(rc.sch, project(wc.sch, wv0, rc.sch));
      const bool with_sentinel = ((ci >> 2) & 1) == 0;     // otherwise the table is the last thing on the stream / in the buffer
      Bytes stream = bytes; const uint8_t sentinel[5] = {0x82, 0xef, 0xbe, 0xad, 0xde}; if (with_sentinel) stream.insert(stream.end(), sentinel, sentinel + 5);
      rep().count(with_sentinel ? "c07_tables_followed_by_more_data" : "c07_tables_ending_the_stream");
      rep().note(hash_combine(hash_str(pname), hash_combine(hash_bytes(bytes.data(), bytes.size()), (uint64_t)c)), wi != ri);
      rep().count("c07_version_pair_cases"); rep().count(std::string("c07_context_") + kCtxName[c]); if (wi != ri) rep().count("c07_cases_between_different_versions");
      for (int rk : kReaders) {
        Source src; src.init(rk, stream.data(), stream.size(), r_is_bounded(rk) ? stream.size() + (with_sentinel ? 1 : 0) : SIZE_MAX, 1 + (unsigned)(ci % 6));
        void* o = rc.t->create();
        // reading into an object that already holds other entries must not keep them (fresh objects in half of the cases)
        if (ci & 1) { Rng r2(r.next()); Val pv = gen_ctx_val(R, c, Mask::random(active_count(R), r2), r2); rc.t->from_val(pv, o); }
        auto st = rc.t->read(src, o);
        rep().count("c07_cross_version_reads");
        std::string det = J().s("reader", rname(rk)).s("bytes", hex(bytes, 120)).s("context", kCtxName[c]).str();
        if (!st) rep().violation(fmt("C07:read-failed:%s:%s", kCtxName[c], rname(rk)), fmt("%s: %s of data written by version %s failed in version %s with '%s'", kCtxName[c], rname(rk), W.pv.name.c_str(), R.pv.name.c_str(), errname(st.error())), cd);
        else {
          Val got = canon_by(rc.sch, rc.t->to_val(o));
          if (got != expect) rep().violation(fmt("C07:entries-differ:%s", kCtxName[c]), fmt("%s: version %s read %s from data of version %s, expected %s (%s)", kCtxName[c], R.pv.name.c_str(), str(got).substr(0, 200).c_str(), W.pv.name.c_str(), str(expect).substr(0, 200).c_str(), rname(rk)), cd);
          else if (src.consumed() != bytes.size()) rep().violation(fmt("C07:position:%s:%s", kCtxName[c], rname(rk)), fmt("%s: reader ends at %zu, the table encoding is %zu bytes long", kCtxName[c], src.consumed(), bytes.size()), cd);
          else if (with_sentinel) {
            uint32_t sv = 0; nop::Status<void> s2;
            switch (rk) { case R_PEDANTIC: s2 = nop::Deserializer<nop::PedanticBufferReader*>{&src.pr}.Read(&sv); break; case R_BUFFER: s2 = nop::Deserializer<nop::BufferReader*>{&src.br}.Read(&sv); break;
              case R_STREAM: s2 = nop::Deserializer<SStreamReader*>{src.sr.get()}.Read(&sv); break; case R_CHUNKED: s2 = nop::Deserializer<ChunkedReader*>{src.cr.get()}.Read(&sv); break;
              case R_B_PEDANTIC: s2 = nop::Deserializer<decltype(src.bpr)*>{&src.bpr}.Read(&sv); break; default: s2 = nop::Deserializer<LogReader*>{&src.log}.Read(&sv); break; }
            if (!s2 || sv != 0xdeadbeefu) rep().violation(fmt("C07:following-data:%s:%s", kCtxName[c], rname(rk)), "the value following the table did not read back", cd);
          }
        }
        rc.t->destroy(o);
      }
      if (rep().want_sample("pair", 3) && wi != ri) rep().sample("pair", J().s("writer_version", wc.t->name).s("reader_version", rc.t->name).s("context", kCtxName[c]).s("assignment_mask", mask.str()).s("bytes", hex(bytes, 48)).str(), 3);
      clear_current();
    }
  }
  rep().infos["table_versions"] = std::to_string(n);
  rep().counters["programs_version_types"] = args().worker == 0 ? n * 4 : 0;
}

// ================================================================= C08
struct Group { size_t count_field; std::vector<EntrySpan> ents; int depth; };
static std::vector<Group> table_groups(const Enc& e) {
  std::vector<Group> gs;
  for (auto& sp : e.entries) { bool found = false; for (auto& g : gs) if (g.count_field == sp.count_field) { g.ents.push_back(sp); found = true; } if (!found) gs.push_back(Group{sp.count_field, {sp}, sp.depth}); }
  for (auto& g : gs) std::sort(g.ents.begin(), g.ents.end(), [](const EntrySpan& a, const EntrySpan& b) { return a.id_off < b.id_off; });
  return gs;
}
static Bytes enc_uint(uint64_t v) { Enc t; t.put_uint(v, Role::COUNT, 64); return t.out; }
// rebuild the bytes of one table group from a new list of entry byte strings (and a new count)
static Bytes rebuild(const Enc& e, const Group& g, const std::vector<Bytes>& ents, uint64_t count) {
  const Field& cf = e.fields[g.count_field];
  Bytes out(e.out.begin(), e.out.begin() + cf.off); Bytes c = enc_uint(count); out.insert(out.end(), c.begin(), c.end());
  out.insert(out.end(), e.out.begin() + cf.off + cf.len, e.out.begin() + g.ents.front().id_off);
  for (auto& b : ents) out.insert(out.end(), b.begin(), b.end());
  out.insert(out.end(), e.out.begin() + g.ents.back().end_off, e.out.end());
  return out;
}
static Bytes entry_bytes(const Enc& e, const EntrySpan& s) { return Bytes(e.out.begin() + s.id_off, e.out.begin() + s.end_off); }
static Bytes make_entry(uint64_t id, const Bytes& value_and_padding, uint64_t declared) { Bytes b = enc_uint(id); Bytes s = enc_uint(declared); b.insert(b.end(), s.begin(), s.end()); b.insert(b.end(), value_and_padding.begin(), value_and_padding.end()); return b; }

struct TMut { Bytes bytes; std::string desc; bool cat; };
static void table_mutations(const Enc& e, Rng& r, std::vector<TMut>& out) {
  auto groups = table_groups(e);
  for (auto& g : groups) {
    std::vector<Bytes> eb; for (auto& s : g.ents) eb.push_back(entry_bytes(e, s));
    size_t k = eb.size();
    // ---- permutations (same length: valid at any depth) -> must be accepted with the same value
    if (k >= 2) { std::vector<size_t> idx(k); for (size_t i = 0; i < k; i++) idx[i] = i; int nperm = k <= 4 ? 24 : 24;
      for (int p = 0; p < nperm; p++) { for (size_t i = k - 1; i > 0; i--) std::swap(idx[i], idx[r.below(i + 1)]); std::vector<Bytes> pe; for (size_t i : idx) pe.push_back(eb[i]); out.push_back({rebuild(e, g, pe, k), fmt("permute entries of the table at depth %d", g.depth), false}); } }
    // ---- hash changes that keep the length (valid at any depth)
    for (auto& f : e.fields) if (f.role == Role::HASH && f.off < g.ents.front().id_off) {
      const Field* last = nullptr; for (auto& f2 : e.fields) if (f2.role == Role::HASH && f2.off < g.ents.front().id_off) last = &f2;
      if (&f != last) continue;
      Bytes m = e.out; if (f.len == 1) { m[f.off] = (uint8_t)((m[f.off] + 1) & 0x7f); } else m[f.off + 1] ^= 0x01; out.push_back({m, "table hash changed (same length)", true});
      if (f.len > 1) { Bytes m2 = e.out; m2[f.off + f.len - 1] ^= 0x80; out.push_back({m2, "table hash high bit flipped", true}); }
      // the hash value 0 (what NOP_TABLE without a namespace declares) is a hash like any other, not a wildcard
      { Bytes m0 = e.out; bool was0 = true; for (size_t i = (f.len == 1 ? 0 : 1); i < f.len; i++) { if (m0[f.off + i]) was0 = false; m0[f.off + i] = 0; } if (!was0) out.push_back({m0, "table hash set to 0 (same length)", true}); }
    }
    // ---- byte flips inside entry values (same length): the reference decides what they make of the table
    for (size_t i = 0; i < k; i++) { const EntrySpan& s = g.ents[i]; size_t vl = s.end_off - s.val_off; for (int t = 0; t < 3 && vl; t++) { Bytes m = e.out; size_t p = s.val_off + r.below(vl); static const uint8_t pb[] = {0xff, 0x80, 0x83, 0x87, 0xb5, 0xb9, 0xba, 0xbc, 0xbd, 0xbe, 0xbf, 0x00}; m[p] = pb[r.below(12)]; out.push_back({m, fmt("byte inside the value of entry %zu corrupted", i), false}); } }
    if (g.depth != 1) continue;    // length-changing mutations only where no enclosing entry frame would become inconsistent
    bool inside_entry = false; for (auto& s2 : e.entries) if (s2.depth < g.depth && s2.val_off <= g.ents.front().id_off && g.ents.back().end_off <= s2.end_off) inside_entry = true;
    if (inside_entry) continue;
    // ---- duplicates: an entry repeated at every position; the count grows
    for (size_t i = 0; i < k; i++) for (size_t pos = 0; pos <= k; pos++) { std::vector<Bytes> pe = eb; pe.insert(pe.begin() + pos, eb[i]); out.push_back({rebuild(e, g, pe, k + 1), fmt("entry %zu duplicated at position %zu", i, pos), true}); }
    // ---- duplicate of an unknown id (must be skipped twice, accepted)
    if (k) { Bytes unk = make_entry(0x7ffffffffffffff0ull, Bytes{1, 2, 3}, 3); std::vector<Bytes> pe = eb; pe.insert(pe.begin() + r.below(k + 1), unk); pe.insert(pe.begin() + r.below(k + 2), unk); out.push_back({rebuild(e, g, pe, k + 2), "an unknown id inserted twice", false}); }
    // ---- declared sizes: shrink (-1, -k), grow with matching padding, grow without padding
    for (size_t i = 0; i < k; i++) {
      const EntrySpan& s = g.ents[i]; Bytes val(e.out.begin() + s.val_off, e.out.begin() + s.end_off); uint64_t sz = val.size();
      for (uint64_t d : {(uint64_t)1, (uint64_t)2, (uint64_t)(sz / 2 + 1)}) if (sz >= d) { std::vector<Bytes> pe = eb; pe[i] = make_entry(s.id, val, sz - d); out.push_back({rebuild(e, g, pe, k), fmt("entry %zu declared size shrunk by %" PRIu64 " (bytes kept)", i, d), false}); }
      for (uint64_t d : {(uint64_t)1, (uint64_t)2, (uint64_t)255, (uint64_t)256}) {
        { std::vector<Bytes> pe = eb; Bytes v2 = val; v2.insert(v2.end(), (size_t)d, (uint8_t)(d == 2 ? 0xAA : 0)); pe[i] = make_entry(s.id, v2, sz + d); out.push_back({rebuild(e, g, pe, k), fmt("entry %zu declared size grown by %" PRIu64 " with matching padding", i, d), false}); }
        if (d <= 2) { std::vector<Bytes> pe = eb; pe[i] = make_entry(s.id, val, sz + d); out.push_back({rebuild(e, g, pe, k), fmt("entry %zu declared size grown by %" PRIu64 " without padding", i, d), false}); }
      }
    }
    // ---- declared sizes far beyond the data: 2^64-1, 2^64-2, 2^64-value size, 2^63, 2^32 (a limit check that wraps accepts these)
    for (size_t i = 0; i < k && i < 3; i++) { const EntrySpan& s = g.ents[i]; Bytes val(e.out.begin() + s.val_off, e.out.begin() + s.end_off);
      for (uint64_t huge : {~0ull, ~0ull - 1, 0ull - (uint64_t)val.size(), 0ull - (uint64_t)(s.val_off), 1ull << 63, 1ull << 32, (1ull << 32) + (uint64_t)val.size(), (1ull << 16) + (uint64_t)val.size(), (1ull << 48) + (uint64_t)val.size() + 1}) { /* a narrow limit counter sees only the low bits: 2^k + real size looks fine to it */ std::vector<Bytes> pe = eb; pe[i] = make_entry(s.id, val, huge); out.push_back({rebuild(e, g, pe, k), fmt("entry %zu declared size %" PRIu64 " (bytes kept)", i, huge), false}); } }
    // ---- entry count +-1
    out.push_back({rebuild(e, g, eb, k + 1), "entry count + 1", false});
    if (k) out.push_back({rebuild(e, g, eb, k - 1), "entry count - 1", false});
  }
}
static Cat fromnop(nop::ErrorStatus e) {
  switch (e) { case nop::ErrorStatus::None: return Cat::OK; case nop::ErrorStatus::UnexpectedEncodingType: return Cat::UnexpectedEncodingType; case nop::ErrorStatus::UnexpectedHandleType: return Cat::UnexpectedHandleType;
    case nop::ErrorStatus::UnexpectedVariantType: return Cat::UnexpectedVariantType; case nop::ErrorStatus::InvalidContainerLength: return Cat::InvalidContainerLength; case nop::ErrorStatus::InvalidMemberCount: return Cat::InvalidMemberCount;
    case nop::ErrorStatus::InvalidStringLength: return Cat::InvalidStringLength; case nop::ErrorStatus::InvalidTableHash: return Cat::InvalidTableHash; case nop::ErrorStatus::DuplicateTableEntry: return Cat::DuplicateTableEntry;
    case nop::ErrorStatus::ReadLimitReached: return Cat::Truncated; default: return Cat::HandleError; }
}

static void run_c08() {
  bool th = args().thorough();
  size_t n = g_vers.size(); uint64_t pair_id = 0;
  for (size_t wi = 0; wi < n; wi++) for (size_t ri = 0; ri < n; ri++) {
    const Ver& W = g_vers[wi]; const Ver& R = g_vers[ri];
    if (W.pv.pool != R.pv.pool) continue;
    // every version reads mutated encodings of itself; and of a few other versions (unknown / deleted ids appear naturally)
    if (wi != ri && (wi * 7 + ri) % (th ? 3 : 6) != 0) continue;
    pair_id++;
    std::string pname = W.pv.name + "->" + R.pv.name;
    if (!args().only_type.empty() && args().only_type != pname) continue;
    int per_pair = th ? 24 : 6;
    for (int ci = 0; ci < per_pair; ci++) {
      if (args().only_case >= 0 ? args().only_case != ci : !mine(pair_id * 17 + (uint64_t)ci)) continue;
      Rng r = case_rng(pname, (uint64_t)ci, 8);
      int na = active_count(W); Mask mask = ci == 0 ? Mask::all(na) : Mask::random(na, r);
      int c = ci % 4;
      const Ctx& wc = ctx_of(W, c); const Ctx& rc = ctx_of(R, c);
      Val wv = gen_ctx_val(W, c, mask, r), wv0; Bytes bytes;
      set_current("%s", case_desc(pname, ci, "frame").c_str());
      if (!write_ctx(wc, wv, &bytes, &wv0)) continue;
      Enc e; RefEncode(wc.sch, wv0, e);
      if (e.out != bytes) { rep().violation("C08:reference-encoding-differs", pname + ": reference encoding differs from the library's (C03 territory)", case_desc(pname, ci, "frame")); continue; }
      std::vector<TMut> muts; table_mutations(e, r, muts);
      size_t mi = 0;
      for (auto& m : muts) {
        mi++; std::string stage = fmt("frame#%zu", mi);
        if (!args().only_stage.empty() && args().only_stage != stage) continue;
        Val rv; DecResult rr = RefDecode(rc.sch, m.bytes.data(), m.bytes.size(), &rv, nullptr); bool ref_ok = rr.cat == Cat::OK; if (ref_ok) canon(rc.sch, rv);
        rep().note(hash_combine(hash_str(pname), hash_bytes(m.bytes.data(), m.bytes.size())), true);
        rep().count("c08_mutated_tables"); rep().count(ref_ok ? "c08_reference_accepts" : "c08_reference_rejects"); if (!ref_ok) rep().count(fmt("c08_refcat_%s", catname(rr.cat)));
        for (int rk : kReaders) {
          std::string cd = case_desc(pname, ci, stage, J().s("mutation", m.desc).s("reader", rname(rk)).s("bytes", hex(m.bytes, 160)).str());
          set_current("%s", cd.c_str());
          Source src; src.init(rk, m.bytes.data(), m.bytes.size(), r_is_bounded(rk) ? m.bytes.size() : SIZE_MAX, 2);
          void* o = rc.t->create(); nop::Status<void> st;
          try { st = rc.t->read(src, o); } catch (const std::exception& ex) { rep().violation("C08:exception", std::string("exception while reading a mutated table: ") + ex.what(), cd); rc.t->destroy(o); continue; }
          rep().count("c08_framing_reads");
          bool unbounded = rk == R_STREAM || rk == R_CHUNKED;
          if ((bool)st != ref_ok) {
            rep().violation(fmt("C08:%s:%s:%s", st ? "accepts-invalid-framing" : "rejects-valid-framing", st ? catname(rr.cat) : errname(st.error()), kCtxName[c]), fmt("%s (%s): %s %s; the framing rules say %s", kCtxName[c], m.desc.c_str(), rname(rk), st ? "accepted" : fmt("rejected with '%s'", errname(st.error())).c_str(), ref_ok ? "accept" : catname(rr.cat)), cd);
          } else if (st) {
            if (src.consumed() != rr.consumed) rep().violation(fmt("C08:position:%s", kCtxName[c]), fmt("%s (%s): %s ends at %zu, the encoding ends at %zu", kCtxName[c], m.desc.c_str(), rname(rk), src.consumed(), rr.consumed), cd);
            else if (!rr.dup_keys && canon_by(rc.sch, rc.t->to_val(o)) != rv) rep().violation(fmt("C08:value:%s", kCtxName[c]), fmt("%s (%s): decoded entries differ from what the bytes denote", kCtxName[c], m.desc.c_str()), cd);
          } else if (m.cat && (rr.cat == Cat::InvalidTableHash || rr.cat == Cat::DuplicateTableEntry)) {
            rep().count("c08_categories_compared");
            if (fromnop(st.error()) != rr.cat) rep().violation(fmt("C08:category:%s-for-%s", errname(st.error()), catname(rr.cat)), fmt("%s (%s): %s returned '%s'", kCtxName[c], m.desc.c_str(), rname(rk), errname(st.error())), cd);
          }
          (void)unbounded;
          rc.t->destroy(o);
        }
        if (rep().want_sample(m.desc.substr(0, 12), 1) && rep().samples.size() < 14) rep().sample(m.desc.substr(0, 12), J().s("table", rc.t->name).s("mutation", m.desc).s("bytes", hex(m.bytes, 40)).s("rules_say", ref_ok ? "accept" : catname(rr.cat)).str(), 1);
      }
      clear_current();
    }
  }
  rep().counters["programs_version_types"] = args().worker == 0 ? n * 4 : 0;
}

int vf::engine_main() {
  set_watchdog(90);
  if (!setup()) return 2;
  if (args().prop == "C07") { run_c07(); return 0; }
  if (args().prop == "C08") { run_c08(); return 0; }
  fprintf(stderr, "table engine: unknown property %s\n", args().prop.c_str());
  return 2;
}
