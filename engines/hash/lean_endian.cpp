// C20, include-order independence: this translation unit includes the library header FIRST and nothing else before it, as a lean user
// translation unit does. A byte-order decision that silently depends on macros some other header happens to define (glibc <endian.h>,
// <sys/param.h>, pulled in by <string>, <iostream>, gtest ...) gives one answer in the unit tests and another one here.
// (The library namespace is renamed for this translation unit so that its template instantiations are distinct symbols: otherwise the linker
//  would merge them with the copies main.cpp instantiates - after the usual system headers - and this unit would silently run those.)
#define nop nop_lean
#include <nop/utility/endian.h>

namespace vf_lean {
std::uint16_t from_big_u16(std::uint16_t v) { return nop::HostEndian<std::uint16_t>::FromBig(v); }
std::uint16_t to_big_u16(std::uint16_t v) { return nop::HostEndian<std::uint16_t>::ToBig(v); }
std::uint16_t from_little_u16(std::uint16_t v) { return nop::HostEndian<std::uint16_t>::FromLittle(v); }
std::int32_t from_big_i32(std::int32_t v) { return nop::HostEndian<std::int32_t>::FromBig(v); }
std::int32_t to_little_i32(std::int32_t v) { return nop::HostEndian<std::int32_t>::ToLittle(v); }
std::uint64_t from_big_u64(std::uint64_t v) { return nop::HostEndian<std::uint64_t>::FromBig(v); }
std::uint64_t to_big_u64(std::uint64_t v) { return nop::HostEndian<std::uint64_t>::ToBig(v); }
std::uint64_t from_little_u64(std::uint64_t v) { return nop::HostEndian<std::uint64_t>::FromLittle(v); }
float from_big_f32(float v) { return nop::HostEndian<float>::FromBig(v); }
float to_little_f32(float v) { return nop::HostEndian<float>::ToLittle(v); }
double to_big_f64(double v) { return nop::HostEndian<double>::ToBig(v); }
double from_little_f64(double v) { return nop::HostEndian<double>::FromLittle(v); }
}  // namespace vf_lean
