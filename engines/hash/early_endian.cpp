// C20 during static initialisation: a global of another translation unit whose initialiser runs early (init_priority) uses the conversions
// before main() - as a global table of pre-converted constants, or a library initialised from a constructor function, does. A conversion whose
// answer depends on library state that is itself set up by dynamic initialisation gives the wrong bytes here.
#include <nop/utility/endian.h>

namespace vf_early {
struct Early {
  std::uint32_t to_big32, from_big32; std::uint16_t to_big16; std::uint64_t from_big64, from_little64; std::int32_t to_big_i32; std::uint32_t to_little32;
  Early()
      : to_big32(nop::HostEndian<std::uint32_t>::ToBig(0x11223344u)), from_big32(nop::HostEndian<std::uint32_t>::FromBig(0x11223344u)),
        to_big16(nop::HostEndian<std::uint16_t>::ToBig(0x1122)), from_big64(nop::HostEndian<std::uint64_t>::FromBig(0x1122334455667788ull)),
        from_little64(nop::HostEndian<std::uint64_t>::FromLittle(0x1122334455667788ull)), to_big_i32(nop::HostEndian<std::int32_t>::ToBig(-2)),
        to_little32(nop::HostEndian<std::uint32_t>::ToLittle(0x11223344u)) {}
};
__attribute__((init_priority(101))) Early g_early;
const Early& early() { return g_early; }
}  // namespace vf_early
