// Engine `hash`: C18 (SipHash-2-4 stability of table hashes / interface hashes / selectors)
// and C20 (HostEndian conversions).
#define VF_RT_MAIN
#include <array>
#include <string>
#include <vector>
#include "vlib/rt.h"

#include <nop/serializer.h>
#include <nop/table.h>
#include <nop/base/table.h>
#include <nop/rpc/interface.h>
#include <nop/utility/endian.h>
#include <nop/utility/sip_hash.h>
#include <nop/utility/constexpr_buffer_writer.h>
#include <nop/utility/stream_writer.h>
#include <sstream>

using namespace vf;

// ---------------------------------------------------------------- reference SipHash-2-4
// Written from the SipHash paper (Aumasson & Bernstein), section 2: initialization,
// compression (c = 2), finalization (d = 4). Shares nothing with nop/utility/sip_hash.h.
namespace refsip {
static inline uint64_t rotl(uint64_t x, int b) { return (x << b) | (x >> (64 - b)); }
struct State {
  uint64_t v0, v1, v2, v3;
  void round() {
    v0 += v1; v2 += v3; v1 = rotl(v1, 13); v3 = rotl(v3, 16); v1 ^= v0; v3 ^= v2; v0 = rotl(v0, 32);
    v2 += v1; v0 += v3; v1 = rotl(v1, 17); v3 = rotl(v3, 21); v1 ^= v2; v3 ^= v0; v2 = rotl(v2, 32);
  }
};
static uint64_t siphash24(const uint8_t* in, size_t len, uint64_t k0, uint64_t k1) {
  State s{k0 ^ 0x736f6d6570736575ull, k1 ^ 0x646f72616e646f6dull, k0 ^ 0x6c7967656e657261ull, k1 ^ 0x7465646279746573ull};
  size_t nblocks = len / 8;
  for (size_t i = 0; i < nblocks; i++) {
    uint64_t m = 0; for (int j = 0; j < 8; j++) m |= (uint64_t)in[i * 8 + j] << (8 * j);
    s.v3 ^= m; s.round(); s.round(); s.v0 ^= m;
  }
  uint64_t last = (uint64_t)(len & 0xff) << 56;
  for (size_t j = 0; j < (len & 7); j++) last |= (uint64_t)in[nblocks * 8 + j] << (8 * j);
  s.v3 ^= last; s.round(); s.round(); s.v0 ^= last;
  s.v2 ^= 0xff; s.round(); s.round(); s.round(); s.round();
  return s.v0 ^ s.v1 ^ s.v2 ^ s.v3;
}
}  // namespace refsip

// ---------------------------------------------------------------- generated declarations
struct TableRow { const char* name; size_t len; uint64_t ct_hash; std::vector<uint8_t> (*empty_bytes)(); std::vector<uint8_t> (*full_bytes)(); };
struct MethodRow { const char* iname; size_t ilen; const char* mname; int bits; uint64_t ct_ihash; uint64_t ct_selector; uint64_t ct_selector_by_index; uint64_t (*rt_ihash)(); };
struct ArrRow { const uint8_t* bytes; size_t n; uint64_t k0, k1; uint64_t ct; uint64_t (*rt)(uint64_t, uint64_t); };
struct LitRow { const char* lit; size_t len; uint64_t k0, k1; uint64_t ct; uint64_t (*rt)(uint64_t, uint64_t); };

template <typename T> std::vector<uint8_t> EmptyTableBytes() {
  nop::Serializer<nop::StreamWriter<std::stringstream>> ser; T t; auto st = ser.Write(t); (void)st;
  std::string s = ser.writer().stream().str(); return std::vector<uint8_t>(s.begin(), s.end());
}
// (the non-empty table goes through the constexpr-capable writer, the empty one through a stream: the hash on the wire must be the same 64-bit value
//  whichever writer carries it)
template <typename T> std::vector<uint8_t> FullTableBytes() {
  std::uint8_t buf[96]; nop::Serializer<nop::ConstexprBufferWriter> ser{buf, sizeof buf}; T t; t.a = 5; t.b = std::string("xy"); auto st = ser.Write(t); (void)st;
  return std::vector<uint8_t>(buf, buf + ser.writer().size());
}
template <typename I> uint64_t IfaceHashRt() { return I::GetInterfaceHash(); }
template <int I> struct LitCall;
template <int I> uint64_t LitRt(uint64_t k0, uint64_t k1) { return LitCall<I>::run(k0, k1); }

// a method whose name is also an object-like macro in this translation unit: the selector is a function of the name as
// declared (NOP_METHOD stringifies it), not of whatever the preprocessor would expand it to
#define VfMacroNamedMethod VfExpandedMethodName
#include "hash_names.inc"
#undef VfMacroNamedMethod

static bool has_high(const uint8_t* p, size_t n) { for (size_t i = 0; i < n; i++) if (p[i] >= 0x80) return true; return false; }

// parse "B5 <uint64 hash> ..." independently: returns hash field
static bool parse_table_hash(const std::vector<uint8_t>& b, uint64_t* h) {
  if (b.size() < 2 || b[0] != 0xb5) return false;
  uint8_t p = b[1];
  if (p < 0x80) { *h = p; return true; }
  if (p < 0x80 || p > 0x83) return false;
  size_t w = 1u << (p - 0x80); if (b.size() < 2 + w) return false;
  uint64_t v = 0; for (size_t i = 0; i < w; i++) v |= (uint64_t)b[2 + i] << (8 * i);
  // minimal class required
  if (w == 1 && v < 128) return false; if (w == 2 && v < 256) return false; if (w == 4 && v < 65536) return false; if (w == 8 && v < (1ull << 32)) return false;
  *h = v; return true;
}

// run-time evaluation through each BlockReader flavour; volatile sink prevents constant folding
template <typename T> static uint64_t rt_compute(const uint8_t* p, size_t n, uint64_t k0, uint64_t k1) {
  return nop::SipHash::Compute(nop::BlockReader<T>(reinterpret_cast<const T*>(p), n), k0, k1);
}

// user byte containers whose size() / operator[] use other integer types than std::size_t (a Qt-style int size, a small fixed-capacity buffer with a
// uint8_t / uint16_t length, a signed-char element type): Compute accepts anything with size() and operator[]
template <typename S, typename E> struct NarrowBuf { const uint8_t* p; S n; S size() const { return n; } E operator[](S i) const { return (E)p[(size_t)i]; } };
static void c18_random(uint64_t ncases) {
  const std::string T = "siphash-random";
  for (uint64_t c = 0; c < ncases; c++) {
    if (!mine(c) || !selected(T, (int64_t)c)) continue;
    Rng r = case_rng(T, c);
    size_t len;
    switch (r.below(4)) { case 0: len = r.below(33); break; case 1: len = r.below(130); break; case 2: len = 240 + r.below(40); break; default: len = r.below(1101); }
    if (c < 1101) len = c;  // every length 0..1100 at least once
    std::vector<uint8_t> buf(len ? len : 1);
    int mode = (int)r.below(5);   // 0,1 ascii (7-bit), 2 random, 3 all 0xff / 0x00 / 0x80, 4 random
    for (size_t i = 0; i < len; i++) buf[i] = (mode <= 1) ? (uint8_t)r.below(128) : mode == 3 ? (uint8_t)(c % 3 == 0 ? 0xff : c % 3 == 1 ? 0x00 : 0x80) : (uint8_t)r.next();
    uint64_t k0 = r.chance(1, 8) ? (r.chance(1, 2) ? 0 : ~0ull) : r.next(), k1 = r.chance(1, 8) ? (r.chance(1, 2) ? 0 : ~0ull) : r.next();
    // exact-size heap copy so ASan sees any read past the end
    uint8_t* h = new uint8_t[len ? len : 1]; memcpy(h, buf.data(), len);
    set_current("%s", case_desc(T, (int64_t)c, "runtime", J().u("len", len).u("k0", k0).u("k1", k1).s("bytes", hex(buf.data(), len, 64)).str()).c_str());
    uint64_t ref = refsip::siphash24(h, len, k0, k1);
    uint64_t u8 = rt_compute<uint8_t>(h, len, k0, k1);
    uint64_t ch = rt_compute<char>(h, len, k0, k1);
    uint64_t i8 = rt_compute<int8_t>(h, len, k0, k1);
    bool high = has_high(h, len);
    // generic containers (anything with size() and operator[]) are accepted by Compute as well
    uint64_t g_str = nop::SipHash::Compute(std::string(reinterpret_cast<const char*>(h), len), k0, k1);
    uint64_t g_vc = nop::SipHash::Compute(std::vector<char>(reinterpret_cast<const char*>(h), reinterpret_cast<const char*>(h) + len), k0, k1);
    uint64_t g_vs = nop::SipHash::Compute(std::vector<signed char>(reinterpret_cast<const signed char*>(h), reinterpret_cast<const signed char*>(h) + len), k0, k1);
    uint64_t g_vu = nop::SipHash::Compute(std::vector<uint8_t>(h, h + len), k0, k1);
    { uint64_t nb[4] = {nop::SipHash::Compute(NarrowBuf<int, char>{h, (int)len}, k0, k1), nop::SipHash::Compute(NarrowBuf<unsigned, uint8_t>{h, (unsigned)len}, k0, k1),
                        nop::SipHash::Compute(NarrowBuf<uint16_t, signed char>{h, (uint16_t)len}, k0, k1), len < 256 ? nop::SipHash::Compute(NarrowBuf<uint8_t, uint8_t>{h, (uint8_t)len}, k0, k1) : ref};
      static const char* nn[4] = {"container with int size() and char elements", "container with unsigned size()", "container with uint16_t size() and signed char elements", "container with uint8_t size()"};
      rep().count("c18_user_containers_with_narrow_size_types", 4);
      for (int gi = 0; gi < 4; gi++) if (nb[gi] != ref) rep().violation(fmt("oracle-siphash:runtime-container:%s", nn[gi]), fmt("SipHash::Compute(%s) = %016" PRIx64 " but SipHash-2-4 = %016" PRIx64 " (len %zu)", nn[gi], nb[gi], ref, len),
                                                                         case_desc(T, (int64_t)c, "runtime", J().u("len", len).u("k0", k0).u("k1", k1).s("bytes", hex(h, len, 64)).str())); }
    // a reader object that is re-seated by assignment (and one that is copy-constructed) hashes the bytes it now refers to, with their length
    { static const uint8_t other[13] = {1, 2, 3, 4, 5, 6, 7, 8, 9, 10, 11, 12, 13};
      nop::BlockReader<uint8_t> rd(other, (len % 2) ? sizeof other : 3); rd = nop::BlockReader<uint8_t>(h, len); nop::BlockReader<uint8_t> cp(rd);
      uint64_t a = nop::SipHash::Compute(rd, k0, k1), b = nop::SipHash::Compute(cp, k0, k1);
      rep().count("c18_reseated_reader_cases");
      if (a != ref || b != ref) rep().violation("oracle-siphash:reseated-block-reader", fmt("a BlockReader assigned from another reader (len %zu, previously %zu bytes) hashes to %016" PRIx64 ", its copy to %016" PRIx64 "; SipHash-2-4 of the bytes it refers to is %016" PRIx64, len, (len % 2) ? sizeof other : (size_t)3, a, b, ref),
                                         case_desc(T, (int64_t)c, "runtime", J().u("len", len).u("k0", k0).u("k1", k1).s("bytes", hex(h, len, 64)).str())); }
    rep().note(hash_combine(hash_bytes(h, len), hash_combine(k0, k1)), len > 0);
    rep().count("c18_runtime_cases"); rep().count(fmt("c18_len_mod8_%zu", len % 8)); if (len > 255) rep().count("c18_len_gt_255"); if (len > 1024) rep().count("c18_len_gt_1024");
    if (high) rep().count("c18_cases_with_high_bit_bytes");
    std::string cj = case_desc(T, (int64_t)c, "runtime", J().u("len", len).u("k0", k0).u("k1", k1).s("bytes", hex(h, len, 64)).str());
    if (u8 != ref) rep().violation(fmt("oracle-siphash:runtime-uint8:len%%8=%zu:%s", len % 8, len >= 8 ? "blocks" : "tail-only"), fmt("SipHash::Compute(BlockReader<uint8_t>) = %016" PRIx64 " but SipHash-2-4 = %016" PRIx64 " (len %zu)", u8, ref, len), cj);
    { const uint64_t gv[4] = {g_str, g_vc, g_vs, g_vu}; const char* gn[4] = {"std::string", "std::vector<char>", "std::vector<signed char>", "std::vector<uint8_t>"};
      for (int gi = 0; gi < 4; gi++) if (gv[gi] != ref) rep().violation(fmt("oracle-siphash:runtime-container:%s%s", gn[gi], high ? ":high-bit-bytes" : ""), fmt("SipHash::Compute(%s) = %016" PRIx64 " but SipHash-2-4 = %016" PRIx64 " (len %zu)", gn[gi], gv[gi], ref, len), cj); }
    for (int which = 0; which < 2; which++) {
      uint64_t v = which ? i8 : ch; const char* nm = which ? "int8_t" : "char";
      if (v != ref) {
        if (high && u8 == ref) rep().violation("oracle-siphash:char-buffer-high-bit", fmt("SipHash::Compute(BlockReader<%s>) = %016" PRIx64 " but SipHash-2-4 = %016" PRIx64 ": bytes >= 0x80 are sign-extended (len %zu)", nm, v, ref, len), cj);
        else rep().violation(fmt("oracle-siphash:runtime-%s:len%%8=%zu", nm, len % 8), fmt("BlockReader<%s> result %016" PRIx64 " != reference %016" PRIx64, nm, v, ref), cj);
      }
    }
    if (rep().want_sample("siphash-runtime")) rep().sample("siphash-runtime", J().u("len", len).s("k0", fmt("%016" PRIx64, k0)).s("k1", fmt("%016" PRIx64, k1)).s("bytes", hex(h, len, 24)).s("hash", fmt("%016" PRIx64, ref)).str());
    delete[] h;
    clear_current();
  }
  // array overload with fixed sizes
  if (mine(7) && !args().replay()) {
    size_t na = sizeof(kArrRows) / sizeof(kArrRows[0]);
    for (size_t i = 0; i < na; i++) {
      const ArrRow& a = kArrRows[i]; uint64_t ref = refsip::siphash24(a.bytes, a.n, a.k0, a.k1); volatile uint64_t vk0 = a.k0, vk1 = a.k1;
      rep().count("c18_array_overload_cases"); rep().note(hash_combine(hash_bytes(a.bytes, a.n, 21), hash_combine(a.k0, a.k1)), true);
      std::string cj = case_desc("array-overload", (int64_t)i, "array", J().s("bytes", hex(a.bytes, a.n, 48)).str());
      if (a.ct != ref) rep().violation("oracle-siphash:array-overload:compile-time!=reference", fmt("Compute(const T(&)[%zu]) over bytes %s = %016" PRIx64 ", SipHash-2-4 = %016" PRIx64, a.n, hex(a.bytes, a.n, 24).c_str(), a.ct, ref), cj);
      if (a.rt(vk0, vk1) != a.ct) rep().violation("oracle-siphash:array-overload:compile-time!=run-time", "array overload: constexpr and run-time results differ", cj);
    }
    static const uint8_t a9[9] = {1, 2, 3, 4, 5, 6, 7, 8, 9}; static const char c5[5] = {'h', 'e', 'l', 'l', 'o'};
    if (nop::SipHash::Compute(a9, 1, 2) != refsip::siphash24(a9, 9, 1, 2)) rep().violation("oracle-siphash:array-overload", "array overload (uint8_t[9]) != reference", "");
    if (nop::SipHash::Compute(c5, 3, 4) != refsip::siphash24((const uint8_t*)c5, 5, 3, 4)) rep().violation("oracle-siphash:array-overload", "array overload (char[5]) != reference", "");
    rep().count("c18_array_overload_cases", 2);
  }
}

static void c18_names() {
  const uint64_t TK0 = 0xbaadf00ddeadbeefull, TK1 = 0x0123456789abcdefull;   // documented table keys (nop/table.h)
  const uint64_t IK0 = 0xdeadcafebaadf00dull, IK1 = 0x0123456789abcdefull;   // documented interface keys (rpc/interface.h)
  size_t nt = sizeof(kTables) / sizeof(kTables[0]);
  for (size_t i = 0; i < nt; i++) {
    const TableRow& t = kTables[i]; const std::string T = "table-name";
    if (!mine(i) || !selected(T, (int64_t)i)) continue;
    std::string cj = case_desc(T, (int64_t)i, "table", J().s("name", std::string(t.name, t.len)).str());
    set_current("%s", cj.c_str());
    // the hashed bytes are the array incl. the terminator
    uint64_t ref = refsip::siphash24((const uint8_t*)t.name, t.len + 1, TK0, TK1);
    bool high = has_high((const uint8_t*)t.name, t.len);
    rep().note(hash_bytes(t.name, t.len, 11), true); rep().count("c18_table_names");
    uint64_t wire = 0; auto eb = t.empty_bytes(); auto fb = t.full_bytes(); uint64_t wire2 = 0;
    if (!parse_table_hash(eb, &wire) || !parse_table_hash(fb, &wire2)) rep().violation("oracle-table-hash:unparsable", "cannot parse the hash field of an encoded table: " + hex(eb, 16), cj);
    else if (wire != t.ct_hash || wire2 != t.ct_hash) rep().violation("oracle-table-hash:wire!=compile-time", fmt("hash on the wire %016" PRIx64 " != EntryList::Hash %016" PRIx64, wire, t.ct_hash), cj);
    if (t.ct_hash != ref) {
      if (high) rep().violation("oracle-siphash:char-buffer-high-bit", fmt("NOP_TABLE_NS(\"%s\") hash %016" PRIx64 " != SipHash-2-4 %016" PRIx64 " (name has bytes >= 0x80)", t.name, t.ct_hash, ref), cj);
      else rep().violation("oracle-table-hash:compile-time!=reference", fmt("NOP_TABLE_NS(\"%s\") hash %016" PRIx64 " != SipHash-2-4(name+NUL, table keys) %016" PRIx64, t.name, t.ct_hash, ref), cj);
    }
    // run-time evaluation over the same bytes
    std::vector<char> copy(t.name, t.name + t.len + 1);
    uint64_t rt = nop::SipHash::Compute(nop::BlockReader<char>(copy.data(), copy.size()), TK0, TK1);
    if (rt != t.ct_hash) rep().violation("oracle-siphash:compile-time!=run-time", fmt("table \"%s\": constexpr %016" PRIx64 " run time %016" PRIx64, t.name, t.ct_hash, rt), cj);
    if (rep().want_sample("table-hash")) rep().sample("table-hash", J().s("name", std::string(t.name, t.len)).s("hash", fmt("%016" PRIx64, t.ct_hash)).s("empty_table_bytes", hex(eb, 16)).str());
    clear_current();
  }
  size_t nm = sizeof(kMethods) / sizeof(kMethods[0]);
  for (size_t i = 0; i < nm; i++) {
    const MethodRow& m = kMethods[i]; const std::string T = "method-selector";
    if (!mine(i) || !selected(T, (int64_t)i)) continue;
    std::string cj = case_desc(T, (int64_t)i, "method", J().s("interface", std::string(m.iname, m.ilen)).s("method", m.mname).u("bits", m.bits).str());
    set_current("%s", cj.c_str());
    bool high = has_high((const uint8_t*)m.iname, m.ilen);
    uint64_t iref = refsip::siphash24((const uint8_t*)m.iname, m.ilen + 1, IK0, IK1);
    rep().note(hash_combine(hash_bytes(m.iname, m.ilen, 12), hash_str(m.mname)), true); rep().count("c18_method_selectors");
    if (m.rt_ihash() != m.ct_ihash) rep().violation("oracle-interface-hash:GetInterfaceHash", "GetInterfaceHash() != NOP__INTERFACE::Hash", cj);
    if (m.ct_ihash != iref) {
      if (high) rep().violation("oracle-siphash:char-buffer-high-bit", fmt("NOP_INTERFACE(\"%s\") hash != SipHash-2-4 (name has bytes >= 0x80)", m.iname), cj);
      else rep().violation("oracle-interface-hash:compile-time!=reference", fmt("interface \"%s\" hash %016" PRIx64 " != reference %016" PRIx64, m.iname, m.ct_ihash, iref), cj);
    }
    // selector = SipHash-2-4(method name + NUL, key0 = interface hash (as computed by the library), key1 = interface key1), truncated
    uint64_t sref = refsip::siphash24((const uint8_t*)m.mname, strlen(m.mname) + 1, m.ct_ihash, IK1);
    if (m.bits == 32) sref &= 0xffffffffull;
    if (m.bits == 32 && (sref == 0 || sref == 1 || sref == 0x7fffffffull || sref == 0x80000000ull || sref == 0xffffffffull)) rep().count("c18_selectors_at_the_edges_of_the_32bit_range");
    if (m.ct_selector != sref) rep().violation("oracle-selector:compile-time!=reference", fmt("selector of %s::%s = %016" PRIx64 " != reference %016" PRIx64, m.iname, m.mname, m.ct_selector, sref), cj);
    if (m.ct_selector_by_index != m.ct_selector) rep().violation("oracle-selector:GetMethodSelector", "GetMethodSelector<Index>() != Method::Selector", cj);
    if (rep().want_sample("method-selector")) rep().sample("method-selector", J().s("interface", std::string(m.iname, m.ilen)).s("method", m.mname).u("bits", m.bits).s("selector", fmt("%" PRIx64, m.ct_selector)).str());
    clear_current();
  }
  size_t nl = sizeof(kLits) / sizeof(kLits[0]);
  for (size_t i = 0; i < nl; i++) {
    const LitRow& l = kLits[i]; const std::string T = "constexpr-literal";
    if (!mine(i) || !selected(T, (int64_t)i)) continue;
    std::string cj = case_desc(T, (int64_t)i, "literal", J().s("lit", hex((const uint8_t*)l.lit, l.len, 40)).u("k0", l.k0).u("k1", l.k1).str());
    set_current("%s", cj.c_str());
    volatile uint64_t vk0 = l.k0, vk1 = l.k1;
    uint64_t rt = l.rt(vk0, vk1);
    uint64_t ref = refsip::siphash24((const uint8_t*)l.lit, l.len + 1, l.k0, l.k1);
    bool high = has_high((const uint8_t*)l.lit, l.len);
    rep().note(hash_combine(hash_bytes(l.lit, l.len, 13), hash_combine(l.k0, l.k1)), true); rep().count("c18_constexpr_literals");
    if (rt != l.ct) rep().violation("oracle-siphash:compile-time!=run-time", fmt("literal %zu: constexpr %016" PRIx64 " run time %016" PRIx64, i, l.ct, rt), cj);
    if (l.ct != ref) {
      if (high) rep().violation("oracle-siphash:char-buffer-high-bit", "constexpr literal with bytes >= 0x80 != SipHash-2-4", cj);
      else rep().violation("oracle-siphash:compile-time!=reference", fmt("literal %zu: constexpr %016" PRIx64 " reference %016" PRIx64, i, l.ct, ref), cj);
    }
    clear_current();
  }
}

// ---------------------------------------------------------------- C20
static bool host_little() { uint16_t x = 1; uint8_t b; memcpy(&b, &x, 1); return b == 1; }
template <typename T> static T byterev(T v) { uint8_t b[sizeof(T)], o[sizeof(T)]; memcpy(b, &v, sizeof(T)); for (size_t i = 0; i < sizeof(T); i++) o[i] = b[sizeof(T) - 1 - i]; T r; memcpy(&r, o, sizeof(T)); return r; }
template <typename T> static bool biteq(T a, T b) { return memcmp(&a, &b, sizeof(T)) == 0; }
template <typename T> static std::string bits(T v) { uint8_t b[sizeof(T)]; memcpy(b, &v, sizeof(T)); return hex(b, sizeof(T)); }

template <typename T> struct EndianCheck {
  const char* tname; bool little = host_little(); uint64_t n = 0, nontrivial = 0; bool failed = false;
  // volatile barrier so that -O2 cannot fold the library call with the oracle
  __attribute__((noinline)) void one(T x) {
    n++;
    T rev = byterev(x);
    bool nt = !biteq(rev, x); if (nt) nontrivial++;
    T exp_le = little ? x : rev, exp_be = little ? rev : x;
    T fl = nop::HostEndian<T>::FromLittle(x), tl = nop::HostEndian<T>::ToLittle(x), fb = nop::HostEndian<T>::FromBig(x), tb = nop::HostEndian<T>::ToBig(x);
    if (!biteq(fl, exp_le)) fail("FromLittle", x, fl, exp_le);
    if (!biteq(tl, exp_le)) fail("ToLittle", x, tl, exp_le);
    if (!biteq(fb, exp_be)) fail("FromBig", x, fb, exp_be);
    if (!biteq(tb, exp_be)) fail("ToBig", x, tb, exp_be);
    // the compositions are applied to bit patterns: a byte-swapped float may be a signalling NaN,
    // and the property promises preservation of the bit pattern
    if (!biteq(nop::HostEndian<T>::ToBig(fb), x)) fail("ToBig(FromBig(x))", x, nop::HostEndian<T>::ToBig(fb), x);
    if (!biteq(nop::HostEndian<T>::FromLittle(tl), x)) fail("FromLittle(ToLittle(x))", x, nop::HostEndian<T>::FromLittle(tl), x);
  }
  void fail(const char* op, T x, T got, T exp) {
    failed = true;
    { char key[96]; snprintf(key, sizeof key, "oracle-endian:%s:%s", tname, op); auto it = rep().viols.find(key); if (it != rep().viols.end()) { it->second.count++; return; } }
    rep().violation(fmt("oracle-endian:%s:%s", tname, op), fmt("HostEndian<%s>::%s(bytes %s) = bytes %s, expected bytes %s", tname, op, bits(x).c_str(), bits(got).c_str(), bits(exp).c_str()),
                    case_desc(tname, -1, op, J().s("bytes", bits(x)).str()));
  }
};

// conversions compiled in engines/hash/lean_endian.cpp (library header included first, nothing else)
namespace vf_lean { std::uint16_t from_big_u16(std::uint16_t); std::uint16_t to_big_u16(std::uint16_t); std::uint16_t from_little_u16(std::uint16_t); std::int32_t from_big_i32(std::int32_t); std::int32_t to_little_i32(std::int32_t);
  std::uint64_t from_big_u64(std::uint64_t); std::uint64_t to_big_u64(std::uint64_t); std::uint64_t from_little_u64(std::uint64_t); float from_big_f32(float); float to_little_f32(float); double to_big_f64(double); double from_little_f64(double); }
template <typename T> static void lean_one(const char* what, T x, T got, bool reversed) {
  T rev = byterev(x); bool little = host_little(); T exp = (reversed == little) ? rev : x;
  rep().count("c20_lean_translation_unit_values"); rep().note(hash_combine(hash_str(what), hash_bytes((const uint8_t*)&x, sizeof(T))), !biteq(rev, x));
  if (!biteq(got, exp)) rep().violation(fmt("oracle-endian:lean-translation-unit:%s", what), fmt("%s(bytes %s) compiled in a translation unit that includes <nop/utility/endian.h> first = bytes %s, expected bytes %s", what, bits(x).c_str(), bits(got).c_str(), bits(exp).c_str()), case_desc(what, -1, "lean", J().s("bytes", bits(x)).str()));
}
// values converted during static initialisation by engines/hash/early_endian.cpp
namespace vf_early { struct Early { std::uint32_t to_big32, from_big32; std::uint16_t to_big16; std::uint64_t from_big64, from_little64; std::int32_t to_big_i32; std::uint32_t to_little32; }; const Early& early(); }
static void c20_early() {
  if (!mine(18)) return;
  const vf_early::Early& e = vf_early::early();
  lean_one<uint32_t>("static-initialisation:HostEndian<uint32_t>::ToBig", 0x11223344u, e.to_big32, true); lean_one<uint32_t>("static-initialisation:HostEndian<uint32_t>::FromBig", 0x11223344u, e.from_big32, true);
  lean_one<uint16_t>("static-initialisation:HostEndian<uint16_t>::ToBig", 0x1122, e.to_big16, true); lean_one<uint64_t>("static-initialisation:HostEndian<uint64_t>::FromBig", 0x1122334455667788ull, e.from_big64, true);
  lean_one<uint64_t>("static-initialisation:HostEndian<uint64_t>::FromLittle", 0x1122334455667788ull, e.from_little64, false); lean_one<int32_t>("static-initialisation:HostEndian<int32_t>::ToBig", -2, e.to_big_i32, true);
  lean_one<uint32_t>("static-initialisation:HostEndian<uint32_t>::ToLittle", 0x11223344u, e.to_little32, false);
  rep().count("c20_static_initialisation_values", 7);
}
static void c20_lean() {
  if (!mine(17)) return;
  Rng r = case_rng("lean", 0);
  for (int i = 0; i < 4000; i++) {
    uint64_t u = i < 8 ? (0x0102030405060708ull << (i * 8 % 64)) | (uint64_t)i : r.next(); uint16_t h = (uint16_t)u; int32_t w = (int32_t)(uint32_t)u; float f; uint32_t fb = (uint32_t)(u >> 7); memcpy(&f, &fb, 4); double d; memcpy(&d, &u, 8);
    lean_one<uint16_t>("HostEndian<uint16_t>::FromBig", h, vf_lean::from_big_u16(h), true); lean_one<uint16_t>("HostEndian<uint16_t>::ToBig", h, vf_lean::to_big_u16(h), true); lean_one<uint16_t>("HostEndian<uint16_t>::FromLittle", h, vf_lean::from_little_u16(h), false);
    lean_one<int32_t>("HostEndian<int32_t>::FromBig", w, vf_lean::from_big_i32(w), true); lean_one<int32_t>("HostEndian<int32_t>::ToLittle", w, vf_lean::to_little_i32(w), false);
    lean_one<uint64_t>("HostEndian<uint64_t>::FromBig", u, vf_lean::from_big_u64(u), true); lean_one<uint64_t>("HostEndian<uint64_t>::ToBig", u, vf_lean::to_big_u64(u), true); lean_one<uint64_t>("HostEndian<uint64_t>::FromLittle", u, vf_lean::from_little_u64(u), false);
    lean_one<float>("HostEndian<float>::FromBig", f, vf_lean::from_big_f32(f), true); lean_one<float>("HostEndian<float>::ToLittle", f, vf_lean::to_little_f32(f), false);
    lean_one<double>("HostEndian<double>::ToBig", d, vf_lean::to_big_f64(d), true); lean_one<double>("HostEndian<double>::FromLittle", d, vf_lean::from_little_f64(d), false);
  }
}
namespace vf_ndebug {
std::uint16_t FromBig_u16(std::uint16_t);
std::uint16_t ToBig_u16(std::uint16_t);
std::uint16_t FromLittle_u16(std::uint16_t);
std::uint16_t ToLittle_u16(std::uint16_t);
std::int32_t FromBig_i32(std::int32_t);
std::int32_t ToBig_i32(std::int32_t);
std::int32_t FromLittle_i32(std::int32_t);
std::int32_t ToLittle_i32(std::int32_t);
std::uint64_t FromBig_u64(std::uint64_t);
std::uint64_t ToBig_u64(std::uint64_t);
std::uint64_t FromLittle_u64(std::uint64_t);
std::uint64_t ToLittle_u64(std::uint64_t);
std::int64_t FromBig_i64(std::int64_t);
std::int64_t ToBig_i64(std::int64_t);
std::int64_t FromLittle_i64(std::int64_t);
std::int64_t ToLittle_i64(std::int64_t);
float FromBig_f32(float);
float ToBig_f32(float);
float FromLittle_f32(float);
float ToLittle_f32(float);
double FromBig_f64(double);
double ToBig_f64(double);
double FromLittle_f64(double);
double ToLittle_f64(double);
}
namespace vf_const { struct Row { const char* what; unsigned size; unsigned char in[8]; unsigned char out[8]; bool reversed; }; unsigned rows(const Row** out); }
// conversions compiled with NDEBUG (engines/hash/ndebug_endian.cpp) and conversions the compiler may fold (engines/hash/const_endian.cpp)
template <typename T> static void ndebug_one(const char* tn, T x, T (*fb)(T), T (*tb)(T), T (*fl)(T), T (*tl)(T)) {
  lean_one<T>(fmt("NDEBUG:HostEndian<%s>::FromBig", tn).c_str(), x, fb(x), true); lean_one<T>(fmt("NDEBUG:HostEndian<%s>::ToBig", tn).c_str(), x, tb(x), true);
  lean_one<T>(fmt("NDEBUG:HostEndian<%s>::FromLittle", tn).c_str(), x, fl(x), false); lean_one<T>(fmt("NDEBUG:HostEndian<%s>::ToLittle", tn).c_str(), x, tl(x), false);
  rep().count("c20_values_converted_in_an_NDEBUG_translation_unit", 4);
}
static void c20_ndebug() {
  if (!mine(19)) return;
  Rng r = case_rng("ndebug", 0);
  for (int i = 0; i < 4000; i++) {
    uint64_t u = i < 8 ? (0x0102030405060708ull << (i * 8 % 64)) | (uint64_t)i : r.next(); float f; uint32_t fb = (uint32_t)(u >> 7); memcpy(&f, &fb, 4); double d; memcpy(&d, &u, 8);

    ndebug_one<uint16_t>("uint16_t", (uint16_t)u, &vf_ndebug::FromBig_u16, &vf_ndebug::ToBig_u16, &vf_ndebug::FromLittle_u16, &vf_ndebug::ToLittle_u16);
    ndebug_one<int32_t>("int32_t", (int32_t)(uint32_t)u, &vf_ndebug::FromBig_i32, &vf_ndebug::ToBig_i32, &vf_ndebug::FromLittle_i32, &vf_ndebug::ToLittle_i32);
    ndebug_one<uint64_t>("uint64_t", u, &vf_ndebug::FromBig_u64, &vf_ndebug::ToBig_u64, &vf_ndebug::FromLittle_u64, &vf_ndebug::ToLittle_u64);
    ndebug_one<int64_t>("int64_t", (int64_t)u, &vf_ndebug::FromBig_i64, &vf_ndebug::ToBig_i64, &vf_ndebug::FromLittle_i64, &vf_ndebug::ToLittle_i64);
    ndebug_one<float>("float", f, &vf_ndebug::FromBig_f32, &vf_ndebug::ToBig_f32, &vf_ndebug::FromLittle_f32, &vf_ndebug::ToLittle_f32);
    ndebug_one<double>("double", d, &vf_ndebug::FromBig_f64, &vf_ndebug::ToBig_f64, &vf_ndebug::FromLittle_f64, &vf_ndebug::ToLittle_f64);
  }
}
static void c20_const() {
  if (!mine(20)) return;
  const vf_const::Row* rows = nullptr; unsigned n = vf_const::rows(&rows); const bool little = host_little();
  for (unsigned i = 0; i < n; i++) { const vf_const::Row& q = rows[i];
    unsigned char exp[8]; for (unsigned b = 0; b < q.size; b++) exp[b] = (q.reversed == little) ? q.in[q.size - 1 - b] : q.in[b];
    rep().count("c20_constants_the_compiler_may_fold"); rep().note(hash_combine(hash_str(q.what), i), true);
    if (memcmp(exp, q.out, q.size) != 0) rep().violation(fmt("oracle-endian:constant-initialiser:%s", q.what), fmt("%s holds bytes %s, expected bytes %s", q.what, hex(q.out, q.size, 16).c_str(), hex(exp, q.size, 16).c_str()), case_desc("const", (int64_t)i, "const"));
  }
}
// cv-qualified spellings of the arithmetic types (HostEndian<decltype(s.member)> for a const member, a volatile device register type) and bool
template <typename Q, typename T> static void cv_one(const char* qname, T x) {
  const T fb = nop::HostEndian<Q>::FromBig(x), tb = nop::HostEndian<Q>::ToBig(x), fl = nop::HostEndian<Q>::FromLittle(x), tl = nop::HostEndian<Q>::ToLittle(x);
  lean_one<T>(fmt("HostEndian<%s>::FromBig", qname).c_str(), x, fb, true); lean_one<T>(fmt("HostEndian<%s>::ToBig", qname).c_str(), x, tb, true);
  lean_one<T>(fmt("HostEndian<%s>::FromLittle", qname).c_str(), x, fl, false); lean_one<T>(fmt("HostEndian<%s>::ToLittle", qname).c_str(), x, tl, false);
  const T back = nop::HostEndian<Q>::ToBig(fb); if (!biteq(back, x)) rep().violation(fmt("oracle-endian:HostEndian<%s>::ToBig(FromBig(x))", qname), fmt("HostEndian<%s>: ToBig(FromBig(bytes %s)) = bytes %s", qname, bits(x).c_str(), bits(back).c_str()), case_desc(qname, -1, "cv"));
  rep().count("c20_values_through_cv_qualified_types_and_bool", 4);
}
static void c20_cv() {
  if (!mine(21)) return;
  Rng r = case_rng("cv", 0);
  cv_one<bool, bool>("bool", false); cv_one<bool, bool>("bool", true);
  for (int i = 0; i < 3000; i++) {
    uint64_t u = i < 8 ? (0x0102030405060708ull << (i * 8 % 64)) | (uint64_t)i : r.next(); float f; uint32_t fb = (uint32_t)(u >> 7); if (i % 5 == 0) fb = (fb & 0x007fffffu) | 0x7f800000u | (fb & 0x80000000u); memcpy(&f, &fb, 4);
    double d; uint64_t db = (i % 5 == 1) ? ((u & 0x000fffffffffffffull) | 0x7ff0000000000000ull) : u; memcpy(&d, &db, 8);
    cv_one<const float, float>("const float", f); cv_one<volatile float, float>("volatile float", f); cv_one<const double, double>("const double", d); cv_one<const volatile double, double>("const volatile double", d);
    // (const-qualified integral types are not accepted by the integral specialisation - it assigns to a local of type T - so only the floating-point ones exist)
  }
}
template <typename T, typename U> static void c20_type(const char* tname, int unit) {
  // U = unsigned integer of the same width, used to enumerate bit patterns
  if (!selected(tname, -1) && !args().only_type.empty()) return;
  EndianCheck<T> ck; ck.tname = tname;
  auto from_bits = [](U u) { T t; memcpy(&t, &u, sizeof(T)); return t; };
  const int W = sizeof(T) * 8; const bool thorough = args().thorough();
  set_current("%s", case_desc(tname, -1, "sweep").c_str());
  uint64_t before = ck.n;
  int nw = args().nworkers, w = args().worker;
  if (W <= 16) {           // exhaustive, split by value
    for (uint64_t v = 0; v < (1ull << W); v++) if ((int)((v + unit) % nw) == w) ck.one(from_bits((U)v));
    rep().count(fmt("c20_%s_exhaustive", tname), ck.n - before);
    rep().evaluations += ck.n - before; rep().enumerated_distinct += ck.nontrivial;
    rep().count("c20_exhaustive_small_width_values", ck.n - before);
  } else if (W == 32) {
    uint64_t n0 = ck.n, nt0 = ck.nontrivial;
    if (thorough) {        // all 2^32 bit patterns, contiguous slice per worker
      uint64_t lo = (1ull << 32) * w / nw, hi = (1ull << 32) * (w + 1) / nw;
      for (uint64_t v = lo; v < hi; v++) ck.one(from_bits((U)v));
      rep().count(fmt("c20_%s_exhaustive", tname), ck.n - n0); rep().count("c20_exhaustive_32bit_values", ck.n - n0);
    } else {               // 2^24 strided (odd stride: visits distinct values) + all single-lane patterns
      uint64_t per = (1ull << 24) / nw; uint64_t x = (uint64_t)w * 0x9e3779b1ull + args().seed * 0x85ebca6bull;
      for (uint64_t i = 0; i < per; i++) { x += 0x9e3779b1ull * (uint64_t)nw; ck.one(from_bits((U)x)); }
      rep().count(fmt("c20_%s_strided", tname), ck.n - n0);
    }
    rep().evaluations += ck.n - n0; rep().enumerated_distinct += ck.nontrivial - nt0;
  }
  if (W >= 32 && mine(unit)) {
    // structured patterns (hashed for distinctness): every byte-lane value, walking ones/zeros, boundaries, NaN classes
    auto pat = [&](uint64_t u) { T t = from_bits((U)u); uint64_t nb = ck.nontrivial; ck.one(t); rep().note(hash_combine(hash_str(tname), u & (W == 64 ? ~0ull : 0xffffffffull)), ck.nontrivial > nb); };
    for (int lane = 0; lane < W / 8; lane++) for (uint64_t b = 0; b < 256; b++) { pat(b << (8 * lane)); pat(~(b << (8 * lane))); pat((b << (8 * lane)) | 0x0102030405060708ull); }
    for (int i = 0; i < W; i++) { pat(1ull << i); pat(~(1ull << i)); pat((1ull << i) - 1); }
    static const uint64_t edges[] = {0, 1, 0x7f, 0x80, 0xff, 0x100, 0x7fff, 0x8000, 0xffff, 0x10000, 0x7fffffffull, 0x80000000ull, 0xffffffffull, 0x100000000ull, 0x7fffffffffffffffull, 0x8000000000000000ull, ~0ull,
                                     0x0102030405060708ull, 0x1122334455667788ull, 0xfffefdfcfbfaf9f8ull,
                                     0x7ff0000000000000ull, 0xfff0000000000000ull, 0x7ff8000000000000ull, 0x7ff0000000000001ull, 0x7ff8000000012345ull, 0xfff8deadbeefcafeull, 0x3ff0000000000000ull,
                                     0x7f800000ull, 0xff800000ull, 0x7fc00000ull, 0x7f800001ull, 0x7fc12345ull, 0xffc00001ull, 0x3f800000ull};
    for (uint64_t e : edges) pat(e);
    if (W == 64) {
      Rng r = case_rng(tname, 0);
      uint64_t nrand = thorough ? (1ull << 26) : (1ull << 20);
      for (uint64_t i = 0; i < nrand / (uint64_t)1; i++) { uint64_t u = r.next(); if (r.chance(1, 4)) u = (u & 0x000fffffffffffffull) | 0x7ff0000000000000ull | (r.next() << 63); T t = from_bits((U)u); uint64_t nb = ck.nontrivial; ck.one(t); rep().note(hash_combine(hash_str(tname), u), ck.nontrivial > nb); }
      rep().count(fmt("c20_%s_random", tname), nrand);
    }
  }
  if (rep().want_sample(tname, 1)) { T x = from_bits((U)0x0102030405060708ull); rep().sample(tname, J().s("type", tname).s("x_bytes", bits(x)).s("FromBig_bytes", bits(nop::HostEndian<T>::FromBig(x))).s("FromLittle_bytes", bits(nop::HostEndian<T>::FromLittle(x))).str(), 1); }
  rep().count("c20_values_checked", ck.n);
  rep().infos["host_little_endian"] = host_little() ? "true" : "false";
  clear_current();
}

int vf::engine_main() {
  const Args& a = args();
  { // self-test of the reference against the official SipHash-2-4 test vector (key 00..0f, input 00..0e)
    uint8_t in[15]; for (int i = 0; i < 15; i++) in[i] = (uint8_t)i;
    if (refsip::siphash24(in, 15, 0x0706050403020100ull, 0x0f0e0d0c0b0a0908ull) != 0xa129ca6149be45e5ull) { fprintf(stderr, "reference SipHash-2-4 self-test failed\n"); return 2; }
  }
  if (a.prop == "C18") {
    c18_random(a.thorough() ? (1ull << 20) : (1ull << 14));
    if (a.only_type.empty() || a.only_type != "siphash-random") c18_names();
    return 0;
  }
  if (a.prop == "C20") {
    c20_type<int8_t, uint8_t>("int8_t", 0); c20_type<uint8_t, uint8_t>("uint8_t", 1);
    c20_type<int16_t, uint16_t>("int16_t", 2); c20_type<uint16_t, uint16_t>("uint16_t", 3);
    c20_type<int32_t, uint32_t>("int32_t", 4); c20_type<uint32_t, uint32_t>("uint32_t", 5);
    c20_type<int64_t, uint64_t>("int64_t", 6); c20_type<uint64_t, uint64_t>("uint64_t", 7);
    c20_type<float, uint32_t>("float", 8); c20_type<double, uint64_t>("double", 9);
    // the integral types that are distinct from every fixed-width typedef on this ABI ("every integral value" is not only the <cstdint> names)
    c20_type<long long, uint64_t>("long long", 10); c20_type<unsigned long long, uint64_t>("unsigned long long", 11);
    c20_lean(); c20_early(); c20_ndebug(); c20_const(); c20_cv();
    c20_type<char, uint8_t>("char", 12); c20_type<wchar_t, uint32_t>("wchar_t", 13); c20_type<char16_t, uint16_t>("char16_t", 14); c20_type<char32_t, uint32_t>("char32_t", 15);
    return 0;
  }
  fprintf(stderr, "hash engine: unknown property %s\n", a.prop.c_str());
  return 2;
}
