// C20 where the compiler may evaluate the conversions itself: namespace-scope and function-local static `const` objects initialised from the
// conversions with constant arguments (tables of pre-converted constants). The compiler first tries such an initialiser as a constant expression;
// a library that takes another path under constant evaluation answers differently here than at run time.
#define nop nop_const
#include <nop/utility/endian.h>

namespace vf_const {
struct Row { const char* what; unsigned size; unsigned char in[8]; unsigned char out[8]; bool reversed; };
template <typename T> static Row row(const char* what, T in, T out, bool reversed) { Row r{what, (unsigned)sizeof(T), {0}, {0}, reversed}; __builtin_memcpy(r.in, &in, sizeof(T)); __builtin_memcpy(r.out, &out, sizeof(T)); return r; }
const std::uint16_t k_FromBig_u16 = nop::HostEndian<std::uint16_t>::FromBig(0x1122);
const std::uint16_t k_ToBig_u16 = nop::HostEndian<std::uint16_t>::ToBig(0x1122);
const std::uint16_t k_FromLittle_u16 = nop::HostEndian<std::uint16_t>::FromLittle(0x1122);
const std::uint16_t k_ToLittle_u16 = nop::HostEndian<std::uint16_t>::ToLittle(0x1122);
const std::uint32_t k_FromBig_u32 = nop::HostEndian<std::uint32_t>::FromBig(0x11223344u);
const std::uint32_t k_ToBig_u32 = nop::HostEndian<std::uint32_t>::ToBig(0x11223344u);
const std::uint32_t k_FromLittle_u32 = nop::HostEndian<std::uint32_t>::FromLittle(0x11223344u);
const std::uint32_t k_ToLittle_u32 = nop::HostEndian<std::uint32_t>::ToLittle(0x11223344u);
const std::int32_t k_FromBig_i32 = nop::HostEndian<std::int32_t>::FromBig(-0x11223345);
const std::int32_t k_ToBig_i32 = nop::HostEndian<std::int32_t>::ToBig(-0x11223345);
const std::int32_t k_FromLittle_i32 = nop::HostEndian<std::int32_t>::FromLittle(-0x11223345);
const std::int32_t k_ToLittle_i32 = nop::HostEndian<std::int32_t>::ToLittle(-0x11223345);
const std::uint64_t k_FromBig_u64 = nop::HostEndian<std::uint64_t>::FromBig(0x1122334455667788ull);
const std::uint64_t k_ToBig_u64 = nop::HostEndian<std::uint64_t>::ToBig(0x1122334455667788ull);
const std::uint64_t k_FromLittle_u64 = nop::HostEndian<std::uint64_t>::FromLittle(0x1122334455667788ull);
const std::uint64_t k_ToLittle_u64 = nop::HostEndian<std::uint64_t>::ToLittle(0x1122334455667788ull);
const std::int64_t k_FromBig_i64 = nop::HostEndian<std::int64_t>::FromBig(-0x1122334455667789ll);
const std::int64_t k_ToBig_i64 = nop::HostEndian<std::int64_t>::ToBig(-0x1122334455667789ll);
const std::int64_t k_FromLittle_i64 = nop::HostEndian<std::int64_t>::FromLittle(-0x1122334455667789ll);
const std::int64_t k_ToLittle_i64 = nop::HostEndian<std::int64_t>::ToLittle(-0x1122334455667789ll);
const float k_FromBig_f32 = nop::HostEndian<float>::FromBig(1.5f);
const float k_ToBig_f32 = nop::HostEndian<float>::ToBig(1.5f);
const float k_FromLittle_f32 = nop::HostEndian<float>::FromLittle(1.5f);
const float k_ToLittle_f32 = nop::HostEndian<float>::ToLittle(1.5f);
const double k_FromBig_f64 = nop::HostEndian<double>::FromBig(-2.75);
const double k_ToBig_f64 = nop::HostEndian<double>::ToBig(-2.75);
const double k_FromLittle_f64 = nop::HostEndian<double>::FromLittle(-2.75);
const double k_ToLittle_f64 = nop::HostEndian<double>::ToLittle(-2.75);
unsigned rows(const Row** out) {
  static const std::uint16_t s_FromBig_u16 = nop::HostEndian<std::uint16_t>::FromBig(0x1122);
  static const std::uint16_t s_ToBig_u16 = nop::HostEndian<std::uint16_t>::ToBig(0x1122);
  static const std::uint16_t s_FromLittle_u16 = nop::HostEndian<std::uint16_t>::FromLittle(0x1122);
  static const std::uint16_t s_ToLittle_u16 = nop::HostEndian<std::uint16_t>::ToLittle(0x1122);
  static const std::uint32_t s_FromBig_u32 = nop::HostEndian<std::uint32_t>::FromBig(0x11223344u);
  static const std::uint32_t s_ToBig_u32 = nop::HostEndian<std::uint32_t>::ToBig(0x11223344u);
  static const std::uint32_t s_FromLittle_u32 = nop::HostEndian<std::uint32_t>::FromLittle(0x11223344u);
  static const std::uint32_t s_ToLittle_u32 = nop::HostEndian<std::uint32_t>::ToLittle(0x11223344u);
  static const std::int32_t s_FromBig_i32 = nop::HostEndian<std::int32_t>::FromBig(-0x11223345);
  static const std::int32_t s_ToBig_i32 = nop::HostEndian<std::int32_t>::ToBig(-0x11223345);
  static const std::int32_t s_FromLittle_i32 = nop::HostEndian<std::int32_t>::FromLittle(-0x11223345);
  static const std::int32_t s_ToLittle_i32 = nop::HostEndian<std::int32_t>::ToLittle(-0x11223345);
  static const std::uint64_t s_FromBig_u64 = nop::HostEndian<std::uint64_t>::FromBig(0x1122334455667788ull);
  static const std::uint64_t s_ToBig_u64 = nop::HostEndian<std::uint64_t>::ToBig(0x1122334455667788ull);
  static const std::uint64_t s_FromLittle_u64 = nop::HostEndian<std::uint64_t>::FromLittle(0x1122334455667788ull);
  static const std::uint64_t s_ToLittle_u64 = nop::HostEndian<std::uint64_t>::ToLittle(0x1122334455667788ull);
  static const std::int64_t s_FromBig_i64 = nop::HostEndian<std::int64_t>::FromBig(-0x1122334455667789ll);
  static const std::int64_t s_ToBig_i64 = nop::HostEndian<std::int64_t>::ToBig(-0x1122334455667789ll);
  static const std::int64_t s_FromLittle_i64 = nop::HostEndian<std::int64_t>::FromLittle(-0x1122334455667789ll);
  static const std::int64_t s_ToLittle_i64 = nop::HostEndian<std::int64_t>::ToLittle(-0x1122334455667789ll);
  static const float s_FromBig_f32 = nop::HostEndian<float>::FromBig(1.5f);
  static const float s_ToBig_f32 = nop::HostEndian<float>::ToBig(1.5f);
  static const float s_FromLittle_f32 = nop::HostEndian<float>::FromLittle(1.5f);
  static const float s_ToLittle_f32 = nop::HostEndian<float>::ToLittle(1.5f);
  static const double s_FromBig_f64 = nop::HostEndian<double>::FromBig(-2.75);
  static const double s_ToBig_f64 = nop::HostEndian<double>::ToBig(-2.75);
  static const double s_FromLittle_f64 = nop::HostEndian<double>::FromLittle(-2.75);
  static const double s_ToLittle_f64 = nop::HostEndian<double>::ToLittle(-2.75);
  static const Row table[] = {
    row<std::uint16_t>("namespace-scope const HostEndian<std::uint16_t>::FromBig(0x1122)", 0x1122, k_FromBig_u16, true),
    row<std::uint16_t>("namespace-scope const HostEndian<std::uint16_t>::ToBig(0x1122)", 0x1122, k_ToBig_u16, true),
    row<std::uint16_t>("namespace-scope const HostEndian<std::uint16_t>::FromLittle(0x1122)", 0x1122, k_FromLittle_u16, false),
    row<std::uint16_t>("namespace-scope const HostEndian<std::uint16_t>::ToLittle(0x1122)", 0x1122, k_ToLittle_u16, false),
    row<std::uint32_t>("namespace-scope const HostEndian<std::uint32_t>::FromBig(0x11223344u)", 0x11223344u, k_FromBig_u32, true),
    row<std::uint32_t>("namespace-scope const HostEndian<std::uint32_t>::ToBig(0x11223344u)", 0x11223344u, k_ToBig_u32, true),
    row<std::uint32_t>("namespace-scope const HostEndian<std::uint32_t>::FromLittle(0x11223344u)", 0x11223344u, k_FromLittle_u32, false),
    row<std::uint32_t>("namespace-scope const HostEndian<std::uint32_t>::ToLittle(0x11223344u)", 0x11223344u, k_ToLittle_u32, false),
    row<std::int32_t>("namespace-scope const HostEndian<std::int32_t>::FromBig(-0x11223345)", -0x11223345, k_FromBig_i32, true),
    row<std::int32_t>("namespace-scope const HostEndian<std::int32_t>::ToBig(-0x11223345)", -0x11223345, k_ToBig_i32, true),
    row<std::int32_t>("namespace-scope const HostEndian<std::int32_t>::FromLittle(-0x11223345)", -0x11223345, k_FromLittle_i32, false),
    row<std::int32_t>("namespace-scope const HostEndian<std::int32_t>::ToLittle(-0x11223345)", -0x11223345, k_ToLittle_i32, false),
    row<std::uint64_t>("namespace-scope const HostEndian<std::uint64_t>::FromBig(0x1122334455667788ull)", 0x1122334455667788ull, k_FromBig_u64, true),
    row<std::uint64_t>("namespace-scope const HostEndian<std::uint64_t>::ToBig(0x1122334455667788ull)", 0x1122334455667788ull, k_ToBig_u64, true),
    row<std::uint64_t>("namespace-scope const HostEndian<std::uint64_t>::FromLittle(0x1122334455667788ull)", 0x1122334455667788ull, k_FromLittle_u64, false),
    row<std::uint64_t>("namespace-scope const HostEndian<std::uint64_t>::ToLittle(0x1122334455667788ull)", 0x1122334455667788ull, k_ToLittle_u64, false),
    row<std::int64_t>("namespace-scope const HostEndian<std::int64_t>::FromBig(-0x1122334455667789ll)", -0x1122334455667789ll, k_FromBig_i64, true),
    row<std::int64_t>("namespace-scope const HostEndian<std::int64_t>::ToBig(-0x1122334455667789ll)", -0x1122334455667789ll, k_ToBig_i64, true),
    row<std::int64_t>("namespace-scope const HostEndian<std::int64_t>::FromLittle(-0x1122334455667789ll)", -0x1122334455667789ll, k_FromLittle_i64, false),
    row<std::int64_t>("namespace-scope const HostEndian<std::int64_t>::ToLittle(-0x1122334455667789ll)", -0x1122334455667789ll, k_ToLittle_i64, false),
    row<float>("namespace-scope const HostEndian<float>::FromBig(1.5f)", 1.5f, k_FromBig_f32, true),
    row<float>("namespace-scope const HostEndian<float>::ToBig(1.5f)", 1.5f, k_ToBig_f32, true),
    row<float>("namespace-scope const HostEndian<float>::FromLittle(1.5f)", 1.5f, k_FromLittle_f32, false),
    row<float>("namespace-scope const HostEndian<float>::ToLittle(1.5f)", 1.5f, k_ToLittle_f32, false),
    row<double>("namespace-scope const HostEndian<double>::FromBig(-2.75)", -2.75, k_FromBig_f64, true),
    row<double>("namespace-scope const HostEndian<double>::ToBig(-2.75)", -2.75, k_ToBig_f64, true),
    row<double>("namespace-scope const HostEndian<double>::FromLittle(-2.75)", -2.75, k_FromLittle_f64, false),
    row<double>("namespace-scope const HostEndian<double>::ToLittle(-2.75)", -2.75, k_ToLittle_f64, false),
    row<std::uint16_t>("function-local static const HostEndian<std::uint16_t>::FromBig(0x1122)", 0x1122, s_FromBig_u16, true),
    row<std::uint16_t>("function-local static const HostEndian<std::uint16_t>::ToBig(0x1122)", 0x1122, s_ToBig_u16, true),
    row<std::uint16_t>("function-local static const HostEndian<std::uint16_t>::FromLittle(0x1122)", 0x1122, s_FromLittle_u16, false),
    row<std::uint16_t>("function-local static const HostEndian<std::uint16_t>::ToLittle(0x1122)", 0x1122, s_ToLittle_u16, false),
    row<std::uint32_t>("function-local static const HostEndian<std::uint32_t>::FromBig(0x11223344u)", 0x11223344u, s_FromBig_u32, true),
    row<std::uint32_t>("function-local static const HostEndian<std::uint32_t>::ToBig(0x11223344u)", 0x11223344u, s_ToBig_u32, true),
    row<std::uint32_t>("function-local static const HostEndian<std::uint32_t>::FromLittle(0x11223344u)", 0x11223344u, s_FromLittle_u32, false),
    row<std::uint32_t>("function-local static const HostEndian<std::uint32_t>::ToLittle(0x11223344u)", 0x11223344u, s_ToLittle_u32, false),
    row<std::int32_t>("function-local static const HostEndian<std::int32_t>::FromBig(-0x11223345)", -0x11223345, s_FromBig_i32, true),
    row<std::int32_t>("function-local static const HostEndian<std::int32_t>::ToBig(-0x11223345)", -0x11223345, s_ToBig_i32, true),
    row<std::int32_t>("function-local static const HostEndian<std::int32_t>::FromLittle(-0x11223345)", -0x11223345, s_FromLittle_i32, false),
    row<std::int32_t>("function-local static const HostEndian<std::int32_t>::ToLittle(-0x11223345)", -0x11223345, s_ToLittle_i32, false),
    row<std::uint64_t>("function-local static const HostEndian<std::uint64_t>::FromBig(0x1122334455667788ull)", 0x1122334455667788ull, s_FromBig_u64, true),
    row<std::uint64_t>("function-local static const HostEndian<std::uint64_t>::ToBig(0x1122334455667788ull)", 0x1122334455667788ull, s_ToBig_u64, true),
    row<std::uint64_t>("function-local static const HostEndian<std::uint64_t>::FromLittle(0x1122334455667788ull)", 0x1122334455667788ull, s_FromLittle_u64, false),
    row<std::uint64_t>("function-local static const HostEndian<std::uint64_t>::ToLittle(0x1122334455667788ull)", 0x1122334455667788ull, s_ToLittle_u64, false),
    row<std::int64_t>("function-local static const HostEndian<std::int64_t>::FromBig(-0x1122334455667789ll)", -0x1122334455667789ll, s_FromBig_i64, true),
    row<std::int64_t>("function-local static const HostEndian<std::int64_t>::ToBig(-0x1122334455667789ll)", -0x1122334455667789ll, s_ToBig_i64, true),
    row<std::int64_t>("function-local static const HostEndian<std::int64_t>::FromLittle(-0x1122334455667789ll)", -0x1122334455667789ll, s_FromLittle_i64, false),
    row<std::int64_t>("function-local static const HostEndian<std::int64_t>::ToLittle(-0x1122334455667789ll)", -0x1122334455667789ll, s_ToLittle_i64, false),
    row<float>("function-local static const HostEndian<float>::FromBig(1.5f)", 1.5f, s_FromBig_f32, true),
    row<float>("function-local static const HostEndian<float>::ToBig(1.5f)", 1.5f, s_ToBig_f32, true),
    row<float>("function-local static const HostEndian<float>::FromLittle(1.5f)", 1.5f, s_FromLittle_f32, false),
    row<float>("function-local static const HostEndian<float>::ToLittle(1.5f)", 1.5f, s_ToLittle_f32, false),
    row<double>("function-local static const HostEndian<double>::FromBig(-2.75)", -2.75, s_FromBig_f64, true),
    row<double>("function-local static const HostEndian<double>::ToBig(-2.75)", -2.75, s_ToBig_f64, true),
    row<double>("function-local static const HostEndian<double>::FromLittle(-2.75)", -2.75, s_FromLittle_f64, false),
    row<double>("function-local static const HostEndian<double>::ToLittle(-2.75)", -2.75, s_ToLittle_f64, false)};
  *out = table; return (unsigned)(sizeof table / sizeof table[0]);
}
}  // namespace vf_const
