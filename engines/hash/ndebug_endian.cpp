// VF-FLAGS(asan,plain,gasan,tsan,fuzz): -DNDEBUG
// C20 in a release build: this translation unit is compiled with NDEBUG defined, as the users of a header-only library compile it. Work that the
// library does inside an assert() disappears here (and only here: the unit tests and the other translation units are built without NDEBUG).
// The library namespace is renamed so that this unit's instantiations are not merged with the ones main.cpp compiles without NDEBUG.
#define nop nop_ndebug
#include <nop/utility/endian.h>

namespace vf_ndebug {
std::uint16_t FromBig_u16(std::uint16_t v) { return nop::HostEndian<std::uint16_t>::FromBig(v); }
std::uint16_t ToBig_u16(std::uint16_t v) { return nop::HostEndian<std::uint16_t>::ToBig(v); }
std::uint16_t FromLittle_u16(std::uint16_t v) { return nop::HostEndian<std::uint16_t>::FromLittle(v); }
std::uint16_t ToLittle_u16(std::uint16_t v) { return nop::HostEndian<std::uint16_t>::ToLittle(v); }
std::int32_t FromBig_i32(std::int32_t v) { return nop::HostEndian<std::int32_t>::FromBig(v); }
std::int32_t ToBig_i32(std::int32_t v) { return nop::HostEndian<std::int32_t>::ToBig(v); }
std::int32_t FromLittle_i32(std::int32_t v) { return nop::HostEndian<std::int32_t>::FromLittle(v); }
std::int32_t ToLittle_i32(std::int32_t v) { return nop::HostEndian<std::int32_t>::ToLittle(v); }
std::uint64_t FromBig_u64(std::uint64_t v) { return nop::HostEndian<std::uint64_t>::FromBig(v); }
std::uint64_t ToBig_u64(std::uint64_t v) { return nop::HostEndian<std::uint64_t>::ToBig(v); }
std::uint64_t FromLittle_u64(std::uint64_t v) { return nop::HostEndian<std::uint64_t>::FromLittle(v); }
std::uint64_t ToLittle_u64(std::uint64_t v) { return nop::HostEndian<std::uint64_t>::ToLittle(v); }
std::int64_t FromBig_i64(std::int64_t v) { return nop::HostEndian<std::int64_t>::FromBig(v); }
std::int64_t ToBig_i64(std::int64_t v) { return nop::HostEndian<std::int64_t>::ToBig(v); }
std::int64_t FromLittle_i64(std::int64_t v) { return nop::HostEndian<std::int64_t>::FromLittle(v); }
std::int64_t ToLittle_i64(std::int64_t v) { return nop::HostEndian<std::int64_t>::ToLittle(v); }
float FromBig_f32(float v) { return nop::HostEndian<float>::FromBig(v); }
float ToBig_f32(float v) { return nop::HostEndian<float>::ToBig(v); }
float FromLittle_f32(float v) { return nop::HostEndian<float>::FromLittle(v); }
float ToLittle_f32(float v) { return nop::HostEndian<float>::ToLittle(v); }
double FromBig_f64(double v) { return nop::HostEndian<double>::FromBig(v); }
double ToBig_f64(double v) { return nop::HostEndian<double>::ToBig(v); }
double FromLittle_f64(double v) { return nop::HostEndian<double>::FromLittle(v); }
double ToLittle_f64(double v) { return nop::HostEndian<double>::ToLittle(v); }
}  // namespace vf_ndebug
