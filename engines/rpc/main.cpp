// Engine `rpc`: C14 — dispatch calls exactly the selected handler with the sent arguments, exactly once; unbound
// selectors / undecodable arguments run no handler and send nothing; calls stay in frame.
#define VF_RT_MAIN
#include <sys/socket.h>
#include <thread>
#include "engines/rpc/rpc_rt.h"
#include "ref/mutate.h"

using namespace vf;
static std::vector<MethodRow> g_rows;
namespace vf { std::vector<Sch> method_arg_schemas(int iface, int method) { for (auto& r : g_rows) if (r.iface == iface && r.method == method) return r.arg_schemas; return {}; } }

static Sch tuple_schema(const std::vector<Sch>& a) { Sch s{K::TUPLE}; s.kids = a; return s; }
static Sch selector_schema(int bits) { Sch s{K::UINT}; s.bits = bits; return s; }
static std::vector<Val> canon_args(const MethodRow& m, std::vector<Val> a) { for (size_t i = 0; i < a.size() && i < m.arg_schemas.size(); i++) canon(m.arg_schemas[i], a[i]); return a; }
static std::string mname(const MethodRow& m) { return std::string(m.iname) + "::" + m.mname; }

// one call on the loopback transport; returns false on violation
static bool loop_call(const MethodRow& m, Wire& wire, Client& cl, Rng& r, const std::string& cd, uint64_t* hash_out) {
  size_t log0 = hlog().size(); uint64_t disp0 = wire.dispatches; size_t req0 = wire.req.size(), rep0 = wire.rep.size();
  // one call in eight: the reply direction has room for only a few more bytes (the reply write may fail)
  bool squeezed = m.bound && r.below(8) == 0; size_t room = squeezed ? (size_t)r.below(12) : 0;
  if (squeezed) wire.rep_cap = wire.rep.size() + room;
  CallResult cr = m.invoke(cl, r);
  if (wire.pending) wire.run_server();                    // nothing was read back by the client: let the server see the request now
  size_t nlog = hlog().size() - log0; size_t req_bytes = wire.req.size() - req0, rep_bytes = wire.rep.size() - rep0;
  *hash_out = hash_combine(hash_bytes(wire.req.data() + req0, req_bytes), (uint64_t)m.iface * 64 + (uint64_t)m.method);
  rep().count("c14_calls"); rep().count("c14_request_bytes", req_bytes); rep().count("c14_reply_bytes", rep_bytes);
  std::string who = mname(m);
  // the captured request, decoded independently: selector + argument tuple
  { Val sv; DecResult ds = RefDecode(selector_schema(m.bits), wire.req.data() + req0, req_bytes, &sv, nullptr);
    if (ds.cat != Cat::OK || sv.u != m.selector) { rep().violation("C14:request-selector", fmt("%s: the request does not start with the method selector %" PRIx64 " (decoded %" PRIx64 ")", who.c_str(), m.selector, sv.u), cd); return false; }
    Val av; DecResult da = RefDecode(tuple_schema(m.arg_schemas), wire.req.data() + req0 + ds.consumed, req_bytes - ds.consumed, &av, nullptr);
    if (da.cat != Cat::OK || ds.consumed + da.consumed != req_bytes) { rep().violation("C14:request-arguments", fmt("%s: the request is not selector + argument tuple (reference decoder: %s, %zu of %zu bytes)", who.c_str(), catname(da.cat), ds.consumed + da.consumed, req_bytes), cd); return false; }
    if (canon_args(m, av.kids) != canon_args(m, cr.args)) { rep().violation("C14:request-argument-values", fmt("%s: the argument tuple on the wire differs from what the caller passed", who.c_str()), cd); return false; } }
  if (wire.dispatches - disp0 != 1) { rep().violation("C14:dispatch-count", fmt("%s: the server dispatched %" PRIu64 " times for one call", who.c_str(), wire.dispatches - disp0), cd); return false; }
  if (squeezed) {
    // expected reply size from the reference encoder; if it does not fit, the dispatcher must not claim success and the
    // caller must not get a value; either way "success" implies exactly one complete reply
    Sch rs0 = m.ret_schema(); Enc re; RefEncode(rs0, m.expected_ret(cr.args, m.iface, m.method), re);
    rep().count("c14_calls_with_bounded_reply_capacity");
    if (re.out.size() > room) {
      rep().count("c14_reply_write_failures_injected");
      if (wire.last_ok) { rep().violation("C14:dispatch-success-without-complete-reply", fmt("%s: the reply (%zu bytes) did not fit the %zu bytes of room but the dispatcher reported success with %zu reply bytes written", who.c_str(), re.out.size(), room, rep_bytes), cd); return false; }
      if (cr.ok) { rep().violation("C14:invoke-success-without-complete-reply", fmt("%s: Invoke reported success although the reply could not be written", who.c_str()), cd); return false; }
      if (nlog != 1) { rep().violation("C14:handler-invocations:squeezed", fmt("%s: %zu handler invocations", who.c_str(), nlog), cd); return false; }
      wire.reset(); return true;
    }
    wire.rep_cap = SIZE_MAX;
  }
  if (m.bound) {
    if (nlog != 1) { rep().violation(fmt("C14:handler-invocations:%zu", nlog > 2 ? (size_t)2 : nlog), fmt("%s: %zu handler invocations for one call", who.c_str(), nlog), cd); return false; }
    const LogEntry& e = hlog().back();
    if (e.iface != m.iface || e.method != m.method) { rep().violation("C14:wrong-handler", fmt("%s: handler of method #%d ran instead of #%d", who.c_str(), e.method, m.method), cd); return false; }
    if (e.inst != m.inst_id || e.tag != m.tag) { rep().violation("C14:passthrough-arguments", fmt("%s: handler saw passthrough (%d, %d), the dispatcher was given (%d, %d)", who.c_str(), e.inst, e.tag, m.inst_id, m.tag), cd); return false; }
    if (canon_args(m, e.args) != canon_args(m, cr.args)) { rep().violation("C14:argument-values", fmt("%s: handler received %s..., the caller passed %s...", who.c_str(), e.args.empty() ? "()" : str(e.args[0]).substr(0, 80).c_str(), cr.args.empty() ? "()" : str(cr.args[0]).substr(0, 80).c_str()), cd); return false; }
    if (!wire.last_ok) { rep().violation("C14:dispatch-status", fmt("%s: the dispatcher returned '%s' for a valid call", who.c_str(), errname(wire.last_err)), cd); return false; }
    if (!cr.ok) { rep().violation("C14:invoke-status", fmt("%s: Invoke returned '%s' for a valid call", who.c_str(), errname(cr.err)), cd); return false; }
    Sch rs = m.ret_schema(); Val expect = canoned(rs, m.expected_ret(cr.args, m.iface, m.method));
    if (canoned(rs, cr.ret) != expect) { rep().violation("C14:return-value", fmt("%s: Invoke returned %s, the handler returned %s", who.c_str(), str(cr.ret).substr(0, 100).c_str(), str(expect).substr(0, 100).c_str()), cd); return false; }
    // the reply decoded independently
    { Val rv; DecResult dr = RefDecode(rs, wire.rep.data() + rep0, rep_bytes, &rv, nullptr); if (dr.cat != Cat::OK || dr.consumed != rep_bytes || canoned(rs, rv) != expect) { rep().violation("C14:reply-bytes", fmt("%s: the reply is not exactly one encoding of the handler's return value", who.c_str()), cd); return false; } }
    if (wire.req_pos != wire.req.size()) { rep().violation("C14:request-not-consumed", fmt("%s: %zu request bytes left unread after a successful call", who.c_str(), wire.req.size() - wire.req_pos), cd); return false; }
    if (wire.rep_pos != wire.rep.size()) { rep().violation("C14:reply-not-consumed", fmt("%s: %zu reply bytes left unread", who.c_str(), wire.rep.size() - wire.rep_pos), cd); return false; }
    rep().count("c14_bound_calls_checked");
  } else {
    rep().count("c14_unbound_calls_checked");
    if (nlog != 0) { rep().violation("C14:handler-ran-for-unbound-selector", fmt("%s is not bound but a handler ran", who.c_str()), cd); return false; }
    if (wire.last_ok || wire.last_err != nop::ErrorStatus::InvalidInterfaceMethod) { rep().violation("C14:unbound-status", fmt("%s is not bound: dispatcher returned '%s'", who.c_str(), wire.last_ok ? "ok" : errname(wire.last_err)), cd); return false; }
    if (rep_bytes != 0) { rep().violation("C14:reply-for-unbound-selector", fmt("%s is not bound but %zu reply bytes were sent", who.c_str(), rep_bytes), cd); return false; }
    if (cr.ok) { rep().violation("C14:invoke-success-for-unbound", fmt("%s is not bound but Invoke reported success", who.c_str()), cd); return false; }
    wire.reset();      // the connection is out of frame after a rejected request
  }
  return true;
}

// feed raw request bytes to a dispatcher: expectation from the reference decoder
static void raw_request(const MethodRow& anyrow, const std::vector<MethodRow*>& iface_rows, const Bytes& req, const std::string& what, const std::string& cd) {
  Wire wire; Server sv(&wire); wire.req = req; size_t log0 = hlog().size();
  auto st = anyrow.serve(sv);
  size_t nlog = hlog().size() - log0;
  rep().count("c14_raw_requests");
  // reference: selector, then the argument tuple of the method it selects (if bound)
  Val sel; DecResult ds = RefDecode(selector_schema(anyrow.bits), req.data(), req.size(), &sel, nullptr);
  const MethodRow* target = nullptr; if (ds.cat == Cat::OK) for (auto* r : iface_rows) if (r->selector == sel.u && r->bound) target = r;
  bool expect_ok = false, dup_keys = false, whole = false; Val av;
  if (target) { DecResult da = RefDecode(tuple_schema(target->arg_schemas), req.data() + ds.consumed, req.size() - ds.consumed, &av, nullptr); expect_ok = da.cat == Cat::OK; dup_keys = da.dup_keys; whole = expect_ok && ds.consumed + da.consumed == req.size(); }
  std::string who = std::string(anyrow.iname);
  if (expect_ok) {
    rep().count("c14_raw_requests_valid");
    if (!st || nlog != 1 || hlog().back().method != target->method) rep().violation("C14:valid-raw-request-rejected", fmt("%s (%s): a well-formed request for %s gave status '%s', %zu handler runs", who.c_str(), what.c_str(), target->mname, st ? "ok" : errname(st.error()), nlog), cd);
    else if (!dup_keys && canon_args(*target, hlog().back().args) != canon_args(*target, av.kids)) rep().violation("C14:argument-values", fmt("%s (%s): handler arguments differ from the bytes of the request", who.c_str(), what.c_str()), cd);
    else if (wire.rep.empty()) rep().violation("C14:no-reply", "a successful dispatch produced no reply", cd);
  } else {
    rep().count("c14_raw_requests_invalid");
    if (st) rep().violation(fmt("C14:invalid-request-accepted:%s", ds.cat != Cat::OK ? "selector" : target ? "arguments" : "unbound"), fmt("%s (%s): the dispatcher reported success for a request that is %s", who.c_str(), what.c_str(), ds.cat != Cat::OK ? "not even a selector" : target ? "not a well-formed argument tuple" : "for an unbound selector"), cd);
    if (nlog != 0) rep().violation(fmt("C14:handler-ran-for-invalid-request:%s", ds.cat != Cat::OK ? "selector" : target ? "arguments" : "unbound"), fmt("%s (%s): a handler ran", who.c_str(), what.c_str()), cd);
    if (!wire.rep.empty()) rep().violation(fmt("C14:reply-for-invalid-request:%s", ds.cat != Cat::OK ? "selector" : target ? "arguments" : "unbound"), fmt("%s (%s): %zu reply bytes were sent", who.c_str(), what.c_str(), wire.rep.size()), cd);
    if (!st && ds.cat == Cat::OK && !target && st.error() != nop::ErrorStatus::InvalidInterfaceMethod) rep().violation("C14:unbound-status", fmt("%s (%s): unbound selector gave '%s'", who.c_str(), what.c_str(), errname(st.error())), cd);
  }
  // the same request as one datagram: the shipped BufferReader over exactly the request bytes, the reply into a BufferWriter of exactly the reply's size.
  // Same status, same handler run with the same arguments, same reply bytes; a hostile length must come back as a status, not as an exception.
  {
    const size_t cap = st ? wire.rep.size() : 4096; ExactBuf rq(req.data(), req.size()); ExactBuf rp; rp.alloc(cap);
    size_t log1 = hlog().size(); bool threw = false; std::string ex; nop::Status<void> st2; size_t replied = 0;
    try { BufServer bs(rq.p, req.size(), rp.p, cap); st2 = anyrow.serve_buf(bs); replied = bs.ser.writer().size(); } catch (const std::exception& e) { threw = true; ex = e.what(); }
    size_t nlog2 = hlog().size() - log1; rep().count("c14_raw_requests_through_BufferReader");
    if (threw) rep().violation("C14:buffer-transport:exception", fmt("%s (%s): dispatching the request from a BufferReader threw %s instead of returning a status", who.c_str(), what.c_str(), ex.c_str()), cd);
    else {
      if ((bool)st2 != (bool)st || (!st && st2.error() != st.error())) rep().violation("C14:buffer-transport:status", fmt("%s (%s): status '%s' from a BufferReader, '%s' from the reference transport", who.c_str(), what.c_str(), st2 ? "ok" : errname(st2.error()), st ? "ok" : errname(st.error())), cd);
      if (nlog2 != nlog) rep().violation("C14:buffer-transport:handler-invocations", fmt("%s (%s): %zu handler runs from a BufferReader, %zu from the reference transport", who.c_str(), what.c_str(), nlog2, nlog), cd);
      else if (nlog == 1 && (hlog().back().method != hlog()[log0].method || hlog().back().args.size() != hlog()[log0].args.size())) rep().violation("C14:buffer-transport:wrong-handler", fmt("%s (%s): another handler ran", who.c_str(), what.c_str()), cd);
      if (st && st2 && (replied != wire.rep.size() || memcmp(rp.p, wire.rep.data(), replied) != 0)) rep().violation("C14:buffer-transport:reply", fmt("%s (%s): the reply written to a BufferWriter differs from the reference transport's", who.c_str(), what.c_str()), cd);
      if (!st2 && replied != 0) rep().violation("C14:buffer-transport:reply-for-invalid-request", fmt("%s (%s): %zu reply bytes written for a failed dispatch", who.c_str(), what.c_str(), replied), cd);
    }
  }
  // successive calls on one connection: the same well-formed request queued twice (and followed by half of a third) in ONE BufferReader; the dispatcher is
  // called three times - two successes that each consume exactly their own request and append exactly their own reply, then a decode error
  if (whole && st && !wire.rep.empty()) {
    Bytes q = req; q.insert(q.end(), req.begin(), req.end()); const size_t half = req.size() / 2; q.insert(q.end(), req.begin(), req.begin() + half);
    ExactBuf rq(q.data(), q.size()); const size_t cap = 2 * wire.rep.size(); ExactBuf rp; rp.alloc(cap);
    try {
      BufServer bs(rq.p, q.size(), rp.p, cap); rep().count("c14_queued_requests_in_one_BufferReader", 2);
      for (int k = 0; k < 2; k++) {
        size_t l0 = hlog().size(); auto s3 = anyrow.serve_buf(bs);
        if (!s3 || hlog().size() - l0 != 1) { rep().violation("C14:queued-requests:rejected", fmt("%s (%s): request %d of two queued back to back in one BufferReader gave status '%s', %zu handler runs", who.c_str(), what.c_str(), k + 1, s3 ? "ok" : errname(s3.error()), hlog().size() - l0), cd); break; }
        if (bs.des.reader().remaining() != q.size() - (size_t)(k + 1) * req.size()) { rep().violation("C14:queued-requests:out-of-frame", fmt("%s (%s): after request %d the reader has %zu bytes left, expected %zu", who.c_str(), what.c_str(), k + 1, bs.des.reader().remaining(), q.size() - (size_t)(k + 1) * req.size()), cd); break; }
        if (bs.ser.writer().size() != (size_t)(k + 1) * wire.rep.size() || memcmp(rp.p + (size_t)k * wire.rep.size(), wire.rep.data(), wire.rep.size()) != 0) { rep().violation("C14:queued-requests:reply", fmt("%s (%s): reply %d differs from the reply to the same request sent alone", who.c_str(), what.c_str(), k + 1), cd); break; }
        if (k == 1 && half > 0) { size_t l1 = hlog().size(); auto s4 = anyrow.serve_buf(bs); if (s4 && half < req.size()) { /* a prefix may itself be a complete request only if the rest was optional - never for a tuple */ rep().violation("C14:queued-requests:truncated-accepted", fmt("%s (%s): half a request after two complete ones was dispatched successfully", who.c_str(), what.c_str()), cd); } else if (hlog().size() != l1) rep().violation("C14:queued-requests:handler-ran-for-truncated", fmt("%s (%s): a handler ran for half a request", who.c_str(), what.c_str()), cd); }
      }
    } catch (const std::exception& e) { rep().violation("C14:buffer-transport:exception", fmt("%s (%s): dispatching queued requests from a BufferReader threw %s", who.c_str(), what.c_str(), e.what()), cd); }
  }
}

// ---- re-entrant dispatch: a handler that, while it runs, causes another request for the same method to be dispatched on the same thread
// (a relay / callback style service). The running handler's arguments are its own: the nested call must not change them, and every level's
// Invoke must return what that level's handler returned.
struct RelayIf : nop::Interface<RelayIf> {
  NOP_INTERFACE("verif.rpc.Relay");
  NOP_METHOD(Echo, std::string(const std::string&, int));
  NOP_METHOD(Sum, std::vector<int>(const std::vector<int>&, int));
  NOP_INTERFACE_API(Echo, Sum);
};
struct RelayNode { Wire out; Client cl{&out}; int id = 0; uint64_t handled = 0; };
static std::string relay_model(const std::string& msg, int hops) { return hops <= 0 ? msg + "()" : msg + "(" + relay_model(msg + "+", hops - 1) + ")"; }
static std::vector<int> relay_sum_model(std::vector<int> v, int hops) { if (hops > 0) { std::vector<int> w = v; w.push_back(hops); std::vector<int> r = relay_sum_model(w, hops - 1); v.insert(v.end(), r.begin(), r.end()); } v.push_back(-hops); return v; }
static void relay_cases() {
  if (!mine(12) && args().only_type.empty()) return;
  if (!args().only_type.empty() && args().only_type != "RelayIf") return;
  auto bindings = nop::BindInterface<RelayNode*>(
      RelayIf::Echo::Bind([](RelayNode* self, const std::string& msg, int hops) -> std::string {
        self->handled++;
        if (hops <= 0) return msg + "()";
        auto r = RelayIf::Echo::Invoke(&self->cl.sender, msg + "+", hops - 1);
        return msg + "(" + (r ? r.get() : std::string("<error>")) + ")";          // msg is read after the nested dispatch
      }),
      RelayIf::Sum::Bind([](RelayNode* self, const std::vector<int>& v, int hops) -> std::vector<int> {
        self->handled++;
        std::vector<int> out;
        if (hops > 0) { std::vector<int> w = v; w.push_back(hops); auto r = RelayIf::Sum::Invoke(&self->cl.sender, w, hops - 1); out = v; if (r) out.insert(out.end(), r.get().begin(), r.get().end()); }   // v is read after the nested dispatch
        else out = v;
        out.push_back(-hops); return out;
      }));
  RelayNode a, b; a.id = 1; b.id = 2;
  Server sv_b(&a.out), sv_a(&b.out);                                    // a.out carries a's calls to b, b.out carries b's calls to a
  a.out.serve = [&]() { return bindings(&sv_b.receiver, &b); }; b.out.serve = [&]() { return bindings(&sv_a.receiver, &a); };
  Wire root; Server sv_root(&root); Client cl(&root); root.serve = [&]() { return bindings(&sv_root.receiver, &a); };
  Rng r = case_rng("RelayIf", 0, 5);
  for (int i = 0; i < 150; i++) {
    std::string cd = case_desc("RelayIf", i, "relay"); set_current("%s", cd.c_str());
    int hops = i % 6; std::string msg(1 + r.below(40), 'm'); for (auto& ch : msg) ch = (char)('a' + r.below(26));
    auto e = RelayIf::Echo::Invoke(&cl.sender, msg, hops); if (root.pending) root.run_server();
    rep().count("c14_reentrant_dispatch_calls"); rep().count("c14_reentrant_dispatch_depth_total", (uint64_t)hops); rep().note(hash_combine(hash_str("relay"), hash_combine(hash_str(msg), (uint64_t)hops)), hops > 0);
    std::string want = relay_model(msg, hops);
    if (!e || e.get() != want) rep().violation("C14:return-value:re-entrant-dispatch", fmt("Echo(\"%s\", hops=%d) through relaying handlers: Invoke returned %s, the handlers compute \"%s\"", msg.c_str(), hops, e ? ("\"" + e.get() + "\"").c_str() : errname(e.error()), want.c_str()), cd);
    std::vector<int> v; for (size_t k = 0; k < r.below(5); k++) v.push_back((int)r.below(1000));
    auto su = RelayIf::Sum::Invoke(&cl.sender, v, hops); if (root.pending) root.run_server();
    if (!su || su.get() != relay_sum_model(v, hops)) rep().violation("C14:return-value:re-entrant-dispatch", fmt("Sum(vector of %zu, hops=%d) through relaying handlers returned a different vector than the handlers compute", v.size(), hops), cd);
    for (Wire* w : {&root, &a.out, &b.out}) if (w->req_pos != w->req.size() || w->rep_pos != w->rep.size()) { rep().violation("C14:request-not-consumed", "relay interface out of frame", cd); i = 1000; break; }
  }
  clear_current();
}

// ---- handlers that return a reference into their (decoded) arguments: legal, the reply must carry the referenced value
struct EchoIf : nop::Interface<EchoIf> {
  NOP_INTERFACE("verif.rpc.Echo");
  NOP_METHOD(Echo, std::string(const std::string&));
  NOP_METHOD(Pick, std::vector<std::string>(const std::vector<std::string>&, int));
  NOP_METHOD(First, std::string(const std::pair<std::string, std::string>&));
  NOP_INTERFACE_API(Echo, Pick, First);
};
struct EchoSvc { const std::vector<std::string>& OnPick(const std::vector<std::string>& v, int) { return v; } };
static const std::string& echo_fn(const std::string& s) { return s; }
static void echo_cases() {
  if (!mine(11) && args().only_type.empty()) return;
  if (!args().only_type.empty() && args().only_type != "EchoIf") return;
  Wire wire; Server sv(&wire); Client cl(&wire);
  auto bindings = nop::BindInterface<EchoSvc*>(EchoIf::Echo::Bind([](EchoSvc*, const std::string& s) -> const std::string& { return s; }), EchoIf::Pick::Bind(&EchoSvc::OnPick),
                                               EchoIf::First::Bind([](EchoSvc*, const std::pair<std::string, std::string>& p) -> const std::string& { return p.first; }));
  EchoSvc svc; wire.serve = [&]() { return bindings(&sv.receiver, &svc); };
  (void)&echo_fn;
  Rng r = case_rng("EchoIf", 0, 3);
  for (int i = 0; i < 200; i++) {
    std::string cd = case_desc("EchoIf", i, "echo"); set_current("%s", cd.c_str());
    size_t n = i < 40 ? (size_t)i : 10 + r.below(400); std::string s(n, 'a'); for (auto& ch : s) ch = (char)('a' + r.below(26));
    auto e = EchoIf::Echo::Invoke(&cl.sender, s); if (wire.pending) wire.run_server();
    rep().count("c14_reference_returning_handler_calls"); rep().note(hash_combine(hash_str("echo"), hash_str(s)), true);
    if (!e || e.get() != s) rep().violation("C14:return-value:reference-returning-handler", fmt("Echo(%zu chars): Invoke returned %s, the handler returned its argument", n, e ? "a different string" : errname(e.error())), cd);
    std::vector<std::string> v; for (size_t k = 0; k < 1 + r.below(4); k++) v.push_back(std::string(5 + r.below(60), (char)('A' + k)));
    auto p = EchoIf::Pick::Invoke(&cl.sender, v, 3); if (wire.pending) wire.run_server();
    if (!p || p.get() != v) rep().violation("C14:return-value:reference-returning-handler", "Pick: Invoke did not return the handler's argument vector", cd);
    auto f = EchoIf::First::Invoke(&cl.sender, std::make_pair(s, std::string("second"))); if (wire.pending) wire.run_server();
    if (!f || f.get() != s) rep().violation("C14:return-value:reference-returning-handler", "First: Invoke did not return the referenced pair member", cd);
    if (wire.req_pos != wire.req.size() || wire.rep_pos != wire.rep.size()) { rep().violation("C14:request-not-consumed", "echo interface out of frame", cd); break; }
  }
  clear_current();
}

int vf::engine_main() {
  set_watchdog(120);
  g_rows = rpc_methods();
  bool th = args().thorough();
  std::map<int, std::vector<MethodRow*>> by_iface; for (auto& r : g_rows) by_iface[r.iface].push_back(&r);
  rep().counters["programs_interfaces"] = args().worker == 0 ? by_iface.size() : 0; rep().counters["programs_methods"] = args().worker == 0 ? g_rows.size() : 0;
  int nseq = th ? 400 : 40;
  echo_cases(); relay_cases();
  for (auto& kv : by_iface) {
    auto& rows = kv.second; const MethodRow& first = *rows[0];
    std::string iname = first.iname;
    if (!args().only_type.empty() && args().only_type != iname) continue;
    // ---- (1) call sequences on the loopback transport
    for (int si = 0; si < nseq; si++) {
      if (args().only_case >= 0 ? args().only_case != si : !mine((uint64_t)kv.first * 97 + (uint64_t)si)) continue;
      if (!args().only_stage.empty() && args().only_stage != "loop") continue;
      Rng r = case_rng(iname, (uint64_t)si, 14);
      Wire wire; Server sv(&wire); Client cl(&wire); wire.serve = [&]() { return first.serve(sv); };
      int len = 1 + (int)r.below(th ? 50 : 20); uint64_t h = 0; std::string calls;
      for (int c = 0; c < len; c++) {
        const MethodRow& m = *rows[r.below(rows.size())];
        calls += (c ? "," : "") + std::string(m.mname);
        std::string cd = case_desc(iname, si, "loop", J().s("calls", calls).str());
        set_current("%s", cd.c_str());
        uint64_t hc; if (!loop_call(m, wire, cl, r, cd, &hc)) break;
        h = hash_combine(h, hc);
      }
      rep().note(hash_combine(hash_str(iname), h), len >= 2); rep().count("c14_call_sequences");
      if (rep().want_sample("sequence", 2)) rep().sample("sequence", J().s("interface", iname).s("calls", calls).u("request_bytes", wire.req.size()).u("reply_bytes", wire.rep.size()).str(), 2);
      clear_current();
    }
    // ---- (2) raw requests: selectors (adjacent, extreme, random, wrong class) and corrupted argument tuples
    if ((args().only_stage.empty() || args().only_stage == "raw") && (args().only_case >= 0 || mine((uint64_t)kv.first))) {
      Rng r = case_rng(iname, 0, 15);
      std::vector<uint64_t> sels;
      for (auto* m : rows) { sels.push_back(m->selector); sels.push_back(m->selector + 1); sels.push_back(m->selector - 1); sels.push_back(m->selector ^ (1ull << 31)); sels.push_back(m->selector ^ (1ull << 32)); sels.push_back(m->selector | 0xffffffff00000000ull); sels.push_back(m->selector & 0xffffffffull); }
      for (uint64_t x : {0ull, 1ull, 0x7fffffffull, 0xffffffffull, 0x100000000ull, ~0ull}) sels.push_back(x);
      for (int i = 0; i < 20; i++) sels.push_back(r.next());
      int idx = 0;
      for (uint64_t s : sels) for (auto* m : rows) {
        if (args().only_case >= 0 && args().only_case != idx++) continue;
        // a request for selector s carrying well-formed arguments of method m
        Enc e; Val sv; sv.u = s; if (first.bits == 32 && s > 0xffffffffull) { e.put_uint(s, Role::INTVAL, 64); } else RefEncode(selector_schema(first.bits), sv, e);
        Val av; Gen g(r); av = g.gen(tuple_schema(m->arg_schemas), 1); RefEncode(tuple_schema(m->arg_schemas), av, e);
        std::string cd = case_desc(iname, idx - 1, "raw", J().s("request", hex(e.out, 120)).str());
        set_current("%s", cd.c_str());
        raw_request(first, rows, e.out, fmt("selector %" PRIx64 " with arguments shaped for %s", s, m->mname), cd);
        rep().note(hash_combine(hash_str(iname), hash_bytes(e.out.data(), e.out.size())), true);
        // corrupted / truncated argument tuples for the real selector of m
        if (s == m->selector) {
          std::vector<Mut> muts; for (size_t fi = 0; fi < e.fields.size() && fi < 24; fi++) field_mutations(e, fi, false, muts); noise_mutations(e.out, r, 8, muts);
          for (size_t k = 0; k < e.out.size(); k++) { Mut mu; mu.bytes.assign(e.out.begin(), e.out.begin() + k); mu.desc = fmt("cut@%zu", k); muts.push_back(mu); }
          for (auto& mu : muts) { std::string cd2 = case_desc(iname, idx - 1, "raw", J().s("request", hex(mu.bytes, 120)).s("mutation", mu.desc).str()); set_current("%s", cd2.c_str()); raw_request(first, rows, mu.bytes, mu.desc, cd2); rep().note(hash_combine(hash_str(iname), hash_bytes(mu.bytes.data(), mu.bytes.size())), true); }
        }
      }
      clear_current();
    }
    // ---- (4) the shipped StreamReader / StreamWriter as the transport (queue streambufs, single thread): successive calls on one connection
    if ((args().only_stage.empty() || args().only_stage == "stream") && (args().only_case >= 0 || mine((uint64_t)kv.first + 9))) {
      std::vector<const MethodRow*> bound; for (auto* m : rows) if (m->bound) bound.push_back(m);
      int rounds = th ? 40 : 6;
      for (int rd = 0; rd < rounds && !bound.empty(); rd++) {
        std::string cd = case_desc(iname, rd, "stream"); set_current("%s", cd.c_str());
        QueueBuf req, rpl; nop::Status<void> served; bool served_any = false;
        rpl.on_empty = [&]() { if (req.unread() == 0) return; StServer ss(&req, &rpl); served = first.serve_st(ss); served_any = true; };
        Rng r = case_rng(iname, (uint64_t)rd, 21); int n = 1 + (int)r.below(10);
        for (int c = 0; c < n; c++) {
          const MethodRow& m = *bound[r.below(bound.size())];
          size_t log0 = hlog().size(); served_any = false;
          CallResult res; { StClient sc(&req, &rpl); res = m.invoke_st(sc, r); }
          if (req.unread() && !served_any) rpl.on_empty();           // a void-like reply may not have been awaited
          rep().count("c14_stream_transport_calls"); rep().note(hash_combine(hash_combine(hash_str(iname), (uint64_t)rd * 131 + (uint64_t)c), hash_str(m.mname)), true);
          if (hlog().size() - log0 != 1) { rep().violation("C14:stream:handler-invocations", fmt("%s over StreamReader/StreamWriter: %zu handler invocations for one call (call %d of %d)", mname(m).c_str(), hlog().size() - log0, c, n), cd); break; }
          const LogEntry& e = hlog()[log0];
          if (e.method != m.method || canon_args(m, e.args) != canon_args(m, res.args)) { rep().violation("C14:stream:wrong-handler-or-arguments", fmt("%s over StreamReader/StreamWriter: the call reached method #%d with other arguments", mname(m).c_str(), e.method), cd); break; }
          Sch rs = m.ret_schema(); if (!res.ok || canoned(rs, res.ret) != canoned(rs, m.expected_ret(res.args, m.iface, m.method))) { rep().violation("C14:stream:return-value", fmt("%s over StreamReader/StreamWriter: Invoke returned %s instead of the handler's value (call %d of %d)", mname(m).c_str(), res.ok ? "another value" : errname(res.err), c, n), cd); break; }
          if (req.unread() || rpl.unread()) { rep().violation("C14:stream:out-of-frame", fmt("%s over StreamReader/StreamWriter: %zu request and %zu reply bytes left after the call", mname(m).c_str(), req.unread(), rpl.unread()), cd); break; }
        }
        clear_current();
      }
    }
    // ---- (3) two threads over a socketpair through FdReader/FdWriter
    if (first.serve_fd == nullptr) rep().count("c14_interfaces_with_table_arguments_(no_fd_transport)");
    if (first.serve_fd != nullptr && (args().only_stage.empty() || args().only_stage == "fd") && (args().only_case >= 0 || mine((uint64_t)kv.first + 5))) {
      std::vector<const MethodRow*> bound; for (auto* m : rows) if (m->bound) bound.push_back(m);
      int rounds = th ? 20 : 3;
      for (int rd = 0; rd < rounds; rd++) {
        int sp[2]; if (socketpair(AF_UNIX, SOCK_STREAM, 0, sp) != 0) break;
        std::string cd = case_desc(iname, rd, "fd"); set_current("%s", cd.c_str());
        size_t log0; { std::lock_guard<std::mutex> lk(hlog_mu()); log0 = hlog().size(); }
        std::thread server([&]() { FdServer fs(dup(sp[1]), dup(sp[1])); for (;;) { auto st = first.serve_fd(fs); if (!st) break; } });
        std::vector<CallResult> results; std::vector<const MethodRow*> called; Rng r = case_rng(iname, (uint64_t)rd, 16);
        { FdClient fc(dup(sp[0]), dup(sp[0])); int n = 1 + (int)r.below(12); for (int c = 0; c < n; c++) { const MethodRow* m = bound[r.below(bound.size())]; called.push_back(m); results.push_back(m->invoke_fd(fc, r)); tick(); } }
        ::shutdown(sp[0], SHUT_RDWR); ::close(sp[0]); server.join(); ::close(sp[1]);
        std::lock_guard<std::mutex> lk(hlog_mu());
        rep().count("c14_fd_transport_calls", called.size()); rep().note(hash_combine(hash_str(iname), (uint64_t)rd * 977 + called.size()), true);
        if (hlog().size() - log0 != called.size()) rep().violation("C14:fd:handler-invocations", fmt("%s over a socketpair: %zu handler invocations for %zu calls", iname.c_str(), hlog().size() - log0, called.size()), cd);
        else for (size_t c = 0; c < called.size(); c++) {
          const LogEntry& e = hlog()[log0 + c]; const MethodRow& m = *called[c];
          if (e.method != m.method || canon_args(m, e.args) != canon_args(m, results[c].args)) { rep().violation("C14:fd:wrong-handler-or-arguments", fmt("%s over a socketpair: call %zu reached method #%d with other arguments", mname(m).c_str(), c, e.method), cd); break; }
          Sch rs = m.ret_schema(); if (!results[c].ok || canoned(rs, results[c].ret) != canoned(rs, m.expected_ret(results[c].args, m.iface, m.method))) { rep().violation("C14:fd:return-value", fmt("%s over a socketpair: Invoke did not return the handler's value (call %zu of %zu: out of frame?)", mname(m).c_str(), c, called.size()), cd); break; }
        }
        clear_current();
      }
    }
  }
  return 0;
}
