// Run-time support for the generated RPC interfaces (C14): deterministic in-process loopback transport with exact
// byte accounting, fd transport, handler invocation log, expected-return oracle.
#pragma once
#include <nop/utility/buffer_reader.h>
#include <nop/utility/buffer_writer.h>
#include <array>
#include <functional>
#include <map>
#include <mutex>
#include <string>
#include <vector>
#include <nop/rpc/interface.h>
#include <nop/rpc/simple_method_receiver.h>
#include <nop/rpc/simple_method_sender.h>
#include <nop/serializer.h>
#include <nop/utility/fd_reader.h>
#include <nop/utility/fd_writer.h>
#include <nop/utility/stream_reader.h>
#include <nop/utility/stream_writer.h>
#include <istream>
#include <ostream>
#include <streambuf>
#include "ref/genval.h"
#include "vlib/reflect.h"
#include "vlib/nopio.h"

namespace vf {

// ---- loopback wire: client -> req -> server -> rep -> client; the client's reader triggers the server when it first
// needs reply bytes, so everything runs on one thread with exact byte accounting
struct Wire {
  std::vector<uint8_t> req, rep; size_t req_pos = 0, rep_pos = 0;
  size_t rep_cap = SIZE_MAX;     // reply direction can be given a capacity: writes beyond it fail with WriteLimitReached
  bool pending = false; uint64_t dispatches = 0; bool last_ok = false; nop::ErrorStatus last_err = nop::ErrorStatus::None;
  std::function<nop::Status<void>()> serve;
  void run_server() { pending = false; dispatches++; auto st = serve(); last_ok = (bool)st; last_err = st ? nop::ErrorStatus::None : st.error(); }
  void reset() { req.clear(); rep.clear(); req_pos = rep_pos = 0; pending = false; rep_cap = SIZE_MAX; }
};
struct ReqWriter {   // client side
  Wire* w;
  nop::Status<void> Prepare(std::size_t) { return {}; }
  nop::Status<void> Write(std::uint8_t b) { w->req.push_back(b); w->pending = true; return {}; }
  template <typename T, typename E = nop::EnableIfArithmetic<T>> nop::Status<void> Write(const T* b, const T* e) { const uint8_t* p = reinterpret_cast<const uint8_t*>(b); w->req.insert(w->req.end(), p, p + (e - b) * sizeof(T)); w->pending = true; return {}; }
  nop::Status<void> Skip(std::size_t n, std::uint8_t v = 0) { w->req.insert(w->req.end(), n, v); w->pending = true; return {}; }
};
struct ReqReader {   // server side
  Wire* w;
  nop::Status<void> Ensure(std::size_t n) { return n <= w->req.size() - w->req_pos ? nop::Status<void>{} : nop::Status<void>{nop::ErrorStatus::ReadLimitReached}; }
  nop::Status<void> Read(std::uint8_t* b) { if (w->req_pos >= w->req.size()) return nop::ErrorStatus::ReadLimitReached; *b = w->req[w->req_pos++]; return {}; }
  template <typename T, typename E = nop::EnableIfArithmetic<T>> nop::Status<void> Read(T* b, T* e) { size_t k = (size_t)(e - b) * sizeof(T); if (k > w->req.size() - w->req_pos) return nop::ErrorStatus::ReadLimitReached; if (k) memcpy(b, w->req.data() + w->req_pos, k); w->req_pos += k; return {}; }
  nop::Status<void> Skip(std::size_t n) { if (n > w->req.size() - w->req_pos) return nop::ErrorStatus::ReadLimitReached; w->req_pos += n; return {}; }
};
struct RepWriter {   // server side
  Wire* w;
  bool room(size_t n) const { return n <= w->rep_cap - std::min(w->rep_cap, w->rep.size()); }
  nop::Status<void> Prepare(std::size_t) { return {}; }
  nop::Status<void> Write(std::uint8_t b) { if (!room(1)) return nop::ErrorStatus::WriteLimitReached; w->rep.push_back(b); return {}; }
  template <typename T, typename E = nop::EnableIfArithmetic<T>> nop::Status<void> Write(const T* b, const T* e) { size_t k = (size_t)(e - b) * sizeof(T); if (!room(k)) return nop::ErrorStatus::WriteLimitReached; const uint8_t* p = reinterpret_cast<const uint8_t*>(b); w->rep.insert(w->rep.end(), p, p + k); return {}; }
  nop::Status<void> Skip(std::size_t n, std::uint8_t v = 0) { if (!room(n)) return nop::ErrorStatus::WriteLimitReached; w->rep.insert(w->rep.end(), n, v); return {}; }
};
struct RepReader {   // client side
  Wire* w;
  void want() { if (w->rep_pos == w->rep.size() && w->pending) w->run_server(); }
  nop::Status<void> Ensure(std::size_t n) { want(); return n <= w->rep.size() - w->rep_pos ? nop::Status<void>{} : nop::Status<void>{nop::ErrorStatus::ReadLimitReached}; }
  nop::Status<void> Read(std::uint8_t* b) { want(); if (w->rep_pos >= w->rep.size()) return nop::ErrorStatus::ReadLimitReached; *b = w->rep[w->rep_pos++]; return {}; }
  template <typename T, typename E = nop::EnableIfArithmetic<T>> nop::Status<void> Read(T* b, T* e) { want(); size_t k = (size_t)(e - b) * sizeof(T); if (k > w->rep.size() - w->rep_pos) return nop::ErrorStatus::ReadLimitReached; if (k) memcpy(b, w->rep.data() + w->rep_pos, k); w->rep_pos += k; return {}; }
  nop::Status<void> Skip(std::size_t n) { want(); if (n > w->rep.size() - w->rep_pos) return nop::ErrorStatus::ReadLimitReached; w->rep_pos += n; return {}; }
};
struct Client {
  Wire* wire; ReqWriter ww; RepReader rr; nop::Serializer<ReqWriter*> ser; nop::Deserializer<RepReader*> des;
  nop::SimpleMethodSender<nop::Serializer<ReqWriter*>, nop::Deserializer<RepReader*>> sender;
  explicit Client(Wire* w) : wire(w), ww{w}, rr{w}, ser{&ww}, des{&rr}, sender{&ser, &des} {}
};
struct Server {
  Wire* wire; RepWriter ww; ReqReader rr; nop::Serializer<RepWriter*> ser; nop::Deserializer<ReqReader*> des;
  nop::SimpleMethodReceiver<nop::Serializer<RepWriter*>, nop::Deserializer<ReqReader*>> receiver;
  explicit Server(Wire* w) : wire(w), ww{w}, rr{w}, ser{&ww}, des{&rr}, receiver{&ser, &des} {}
};
// ---- fd transport (socketpair / pipes) through the shipped FdReader / FdWriter
struct FdClient {
  nop::Serializer<nop::FdWriter> ser; nop::Deserializer<nop::FdReader> des;
  nop::SimpleMethodSender<nop::Serializer<nop::FdWriter>, nop::Deserializer<nop::FdReader>> sender;
  FdClient(int wfd, int rfd) : ser{wfd}, des{rfd}, sender{&ser, &des} {}
};
struct FdServer {
  nop::Serializer<nop::FdWriter> ser; nop::Deserializer<nop::FdReader> des;
  nop::SimpleMethodReceiver<nop::Serializer<nop::FdWriter>, nop::Deserializer<nop::FdReader>> receiver;
  FdServer(int wfd, int rfd) : ser{wfd}, des{rfd}, receiver{&ser, &des} {}
};

// ---- datagram-like transport through the shipped BufferReader / BufferWriter: one request in a buffer, the reply into a buffer
struct BufServer {
  nop::Serializer<nop::BufferWriter> ser; nop::Deserializer<nop::BufferReader> des;
  nop::SimpleMethodReceiver<nop::Serializer<nop::BufferWriter>, nop::Deserializer<nop::BufferReader>> receiver;
  BufServer(const std::uint8_t* req, std::size_t n, std::uint8_t* rep, std::size_t cap) : ser{rep, cap}, des{req, n}, receiver{&ser, &des} {}
};

// ---- stream transport through the shipped StreamReader / StreamWriter: two queue streambufs (request, reply); the reply buffer runs the server
// when the client needs reply bytes that are not there yet, so everything stays on one thread. The stream objects live inside the
// (de)serializers and are created per call over the persistent buffers (an istream that has seen EOF stays failed).
struct QueueBuf : std::streambuf {
  std::string data; size_t rpos = 0; std::function<void()> on_empty; char cur = 0;
  int_type overflow(int_type c) override { if (!traits_type::eq_int_type(c, traits_type::eof())) data.push_back(traits_type::to_char_type(c)); return traits_type::not_eof(c); }
  std::streamsize xsputn(const char* p, std::streamsize n) override { data.append(p, (size_t)n); return n; }
  int_type underflow() override { if (rpos >= data.size() && on_empty) on_empty(); if (rpos >= data.size()) return traits_type::eof(); cur = data[rpos]; setg(&cur, &cur, &cur + 1); return traits_type::to_int_type(cur); }
  int_type uflow() override { int_type c = underflow(); if (!traits_type::eq_int_type(c, traits_type::eof())) { rpos++; setg(nullptr, nullptr, nullptr); } return c; }
  size_t unread() const { return data.size() - rpos; }
};
struct StClient {
  nop::Serializer<nop::StreamWriter<std::ostream>> ser; nop::Deserializer<nop::StreamReader<std::istream>> des;
  nop::SimpleMethodSender<nop::Serializer<nop::StreamWriter<std::ostream>>, nop::Deserializer<nop::StreamReader<std::istream>>> sender;
  StClient(QueueBuf* req, QueueBuf* rep) : ser{req}, des{rep}, sender{&ser, &des} {}
};
struct StServer {
  nop::Serializer<nop::StreamWriter<std::ostream>> ser; nop::Deserializer<nop::StreamReader<std::istream>> des;
  nop::SimpleMethodReceiver<nop::Serializer<nop::StreamWriter<std::ostream>>, nop::Deserializer<nop::StreamReader<std::istream>>> receiver;
  StServer(QueueBuf* req, QueueBuf* rep) : ser{rep}, des{req}, receiver{&ser, &des} {}
};

// ---- handler invocation log
struct LogEntry { int iface, method, inst, tag; std::vector<Val> args; };
inline std::vector<LogEntry>& hlog() { static std::vector<LogEntry> l; return l; }
inline std::mutex& hlog_mu() { static std::mutex m; return m; }

template <typename T> Val GenFor(Rng& r) { Gen g(r); Sch s = SchemaOf<T>(); return g.gen(s, 1); }
inline uint64_t args_digest(const std::vector<Sch>& schemas, std::vector<Val> args) {
  uint64_t h = 1469598103934665603ull;
  for (size_t i = 0; i < args.size(); i++) { if (i < schemas.size()) canon(schemas[i], args[i]); h = hash_combine(h, hash_str(str(args[i]))); h = hash_combine(h, hash_str(args[i].bytes)); }
  return h;
}
// expected return value: a deterministic function of (interface, method, canonical argument values)
std::vector<Sch> method_arg_schemas(int iface, int method);
template <typename R> Val RetFor(const std::vector<Val>& args, int iface, int method) {
  Rng r(hash_combine(args_digest(method_arg_schemas(iface, method), args), (uint64_t)iface * 131 + (uint64_t)method)); Gen g(r); Sch s = SchemaOf<R>(); return g.gen(s, 1);
}
template <typename R> R Handle(int iface, int method, int inst, int tag, std::vector<Val> args) {
  { std::lock_guard<std::mutex> lk(hlog_mu()); hlog().push_back(LogEntry{iface, method, inst, tag, args}); }
  Val rv = RetFor<R>(args, iface, method); R r{}; FromVal<R>(rv, &r); return r;
}

struct CallResult { bool ok = false; nop::ErrorStatus err = nop::ErrorStatus::None; Val ret; std::vector<Val> args; };
struct MethodRow {
  int iface, method; const char* iname; const char* mname; uint64_t selector; int bits; bool bound; int inst_id, tag;
  CallResult (*invoke)(Client&, Rng&); CallResult (*invoke_fd)(FdClient&, Rng&);
  nop::Status<void> (*serve)(Server&); nop::Status<void> (*serve_fd)(FdServer&);
  CallResult (*invoke_st)(StClient&, Rng&); nop::Status<void> (*serve_st)(StServer&); nop::Status<void> (*serve_buf)(BufServer&);
  std::vector<Sch> arg_schemas; Sch (*ret_schema)(); Val (*expected_ret)(const std::vector<Val>&, int, int);
};
std::vector<MethodRow> rpc_methods();

}  // namespace vf
