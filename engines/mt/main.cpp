// Engine `mt`: C19 — no hidden shared state across threads (TSan + sequential-equivalence digests), ThreadLocal is
// private per thread and per (T, Slot). Built with -fsanitize=thread.
#define VF_RT_MAIN
#include <csignal>
#include <sys/mman.h>
#ifndef VF_OPS_FEW
#define VF_OPS_FEW
#endif
#include <atomic>
#include <condition_variable>
#include <memory>
#include <mutex>
#include <thread>
#include "vlib/ops.h"
#include "vlib/sigstorm.h"
#include "ref/genval.h"
#include <nop/rpc/interface.h>
#include <nop/rpc/simple_method_receiver.h>
#include <nop/rpc/simple_method_sender.h>
#include <nop/types/thread_local.h>
#include <nop/utility/sip_hash.h>

using namespace vf;
namespace vf { std::vector<TypeOps>& registry() { static std::vector<TypeOps> r; return r; } }

// ---------------------------------------------------------------- barrier / schedule signature
struct Barrier {
  std::mutex m; std::condition_variable cv; int n, waiting = 0; uint64_t gen = 0;
  explicit Barrier(int k) : n(k) {}
  void wait() { std::unique_lock<std::mutex> l(m); uint64_t g = gen; if (++waiting == n) { waiting = 0; gen++; cv.notify_all(); } else cv.wait(l, [&] { return gen != g; }); }
};
static std::atomic<uint32_t> g_ticket{0};
static std::atomic<uint8_t> g_order[4096];
static inline void boundary(int tid, Rng& r, bool yields) {   // between library calls only
  uint32_t t = g_ticket.fetch_add(1, std::memory_order_relaxed); if (t < 4096) g_order[t].store((uint8_t)tid, std::memory_order_relaxed);
  uint64_t k = r.below(16), ns = r.below(20000);      // drawn in both runs so that the work itself is identical with and without yields
  if (yields) { if (k == 0) std::this_thread::yield(); else if (k == 1) { struct timespec ts = {0, (long)ns}; nanosleep(&ts, nullptr); } }
}

// ---------------------------------------------------------------- a tiny RPC interface (loopback, per-thread objects)
struct MtIface : nop::Interface<MtIface> {
  NOP_INTERFACE("verif.mt.Iface");
  NOP_METHOD(Sum, std::int64_t(std::int64_t, std::int64_t));
  NOP_METHOD(Echo, std::string(const std::string&, std::vector<int>));
  NOP_INTERFACE_API(Sum, Echo);
};
struct MemW { std::vector<uint8_t>* v; nop::Status<void> Prepare(std::size_t) { return {}; } nop::Status<void> Write(std::uint8_t b) { v->push_back(b); return {}; }
  template <typename T, typename E = nop::EnableIfArithmetic<T>> nop::Status<void> Write(const T* b, const T* e) { const uint8_t* p = reinterpret_cast<const uint8_t*>(b); v->insert(v->end(), p, p + (e - b) * sizeof(T)); return {}; }
  nop::Status<void> Skip(std::size_t n, std::uint8_t x = 0) { v->insert(v->end(), n, x); return {}; } };
struct MemR { std::vector<uint8_t>* v; size_t* pos; std::function<void()> fill;
  void want() { if (*pos == v->size() && fill) fill(); }
  nop::Status<void> Ensure(std::size_t n) { want(); return n <= v->size() - *pos ? nop::Status<void>{} : nop::Status<void>{nop::ErrorStatus::ReadLimitReached}; }
  nop::Status<void> Read(std::uint8_t* b) { want(); if (*pos >= v->size()) return nop::ErrorStatus::ReadLimitReached; *b = (*v)[(*pos)++]; return {}; }
  template <typename T, typename E = nop::EnableIfArithmetic<T>> nop::Status<void> Read(T* b, T* e) { want(); size_t k = (size_t)(e - b) * sizeof(T); if (k > v->size() - *pos) return nop::ErrorStatus::ReadLimitReached; if (k) memcpy(b, v->data() + *pos, k); *pos += k; return {}; }
  nop::Status<void> Skip(std::size_t n) { want(); if (n > v->size() - *pos) return nop::ErrorStatus::ReadLimitReached; *pos += n; return {}; } };

static uint64_t rpc_work(Rng& r) {
  std::vector<uint8_t> req, rep_; size_t rq = 0, rp = 0;
  MemW cw{&req}; MemR sr{&req, &rq, nullptr}; MemW sw{&rep_}; MemR cr{&rep_, &rp, nullptr};
  nop::Serializer<MemW*> cser{&cw}; nop::Deserializer<MemR*> cdes{&cr}; nop::Serializer<MemW*> sser{&sw}; nop::Deserializer<MemR*> sdes{&sr};
  auto sender = nop::MakeSimpleMethodSender(&cser, &cdes); auto receiver = nop::MakeSimpleMethodReceiver(&sser, &sdes);
  auto bindings = nop::BindInterface<>(MtIface::Sum::Bind([](std::int64_t a, std::int64_t b) { return a + b; }), MtIface::Echo::Bind([](const std::string& s, std::vector<int> v) { return s + std::to_string(v.size()); }));
  cr.fill = [&]() { if (rq < req.size()) { auto st = bindings(&receiver); (void)st; } };
  uint64_t d = 0;
  for (int i = 0; i < 4; i++) {
    int64_t a = (int64_t)r.next() >> 8, b = (int64_t)r.next() >> 8; auto s = MtIface::Sum::Invoke(&sender, a, b); d = hash_combine(d, s ? (uint64_t)s.get() : 0xdeadull);
    std::string str((size_t)r.below(20), 'q'); std::vector<int> v((size_t)r.below(6), 7); auto e = MtIface::Echo::Invoke(&sender, str, v); d = hash_combine(d, e ? hash_str(e.get()) : 0xbeefull);
  }
  return hash_combine(d, hash_combine(req.size(), rep_.size()));
}

// ---------------------------------------------------------------- ThreadLocal monitor
struct SlotA; struct SlotB;
using TL0 = nop::ThreadLocal<uint64_t, nop::ThreadLocalSlot<SlotA, 0>>; using TL1 = nop::ThreadLocal<uint64_t, nop::ThreadLocalSlot<SlotA, 1>>; using TL2 = nop::ThreadLocal<uint64_t, nop::ThreadLocalSlot<SlotB, 0>>;
using TL3 = nop::ThreadLocal<std::string, nop::ThreadLocalSlot<SlotA, 0>>; using TL4 = nop::ThreadLocal<std::string, nop::ThreadLocalTypeSlot<SlotB>>; using TL5 = nop::ThreadLocal<std::vector<uint64_t>, nop::ThreadLocalIndexSlot<3>>;
struct TlReport { std::string err; const void* addr[6] = {nullptr, nullptr, nullptr, nullptr, nullptr, nullptr}; };
static uint64_t uniq(int round, int tid, int k, int phase) { return ((uint64_t)round << 32) ^ ((uint64_t)tid << 16) ^ ((uint64_t)k << 8) ^ (uint64_t)phase ^ 0x5000000000000000ull; }
template <typename TL> static void tl_u64(int round, int tid, int k, Rng& r, bool yields, TlReport* rp) {
  uint64_t v1 = uniq(round, tid, k, 1), v2 = uniq(round, tid, k, 2), v3 = uniq(round, tid, k, 3);
  TL a{v1}; boundary(tid, r, yields);
  if (a.Get() != v1) { if (rp->err.empty()) rp->err = fmt("first-initialisation-lost|slot %d: a fresh thread initialised the slot with %" PRIx64 " but Get() returns %" PRIx64 " (a value of another thread, slot or an earlier thread)", k, v1, (uint64_t)a.Get()); return; }
  TL b{v2}; boundary(tid, r, yields);
  if (b.Get() != v1 || &b.Get() != &a.Get()) { if (rp->err.empty()) rp->err = fmt("second-initialisation-overrides|slot %d: the first initialisation in a thread must win until Clear", k); return; }
  a.Initialize(v2); if (a.Get() != v1) { if (rp->err.empty()) rp->err = fmt("second-initialisation-overrides|slot %d: Initialize() replaced an initialised value", k); return; }
  { a.Initialize(uint64_t(v2 + 1)); uint64_t tmp = v2 + 2; b.Initialize(std::move(tmp)); const uint64_t cv = v2 + 3; a.Initialize(cv);      // temporaries, moved-from and const values of exactly T
    if (a.Get() != v1) { if (rp->err.empty()) rp->err = fmt("second-initialisation-overrides|slot %d: Initialize(T&&) / Initialize(const T&) replaced an initialised value without Clear()", k); return; } }
  a.Get() = v2; boundary(tid, r, yields); if (b.Get() != v2) { if (rp->err.empty()) rp->err = fmt("write-not-visible-in-same-thread|slot %d", k); return; }
  b.Clear(); a.Initialize(v3); boundary(tid, r, yields); if (a.Get() != v3 || b.Get() != v3) { if (rp->err.empty()) rp->err = fmt("value-survives-clear|slot %d: after Clear + Initialize the slot holds %" PRIx64 ", expected %" PRIx64, k, (uint64_t)a.Get(), v3); return; }
  rp->addr[k] = &a.Get();
  if ((tid + k + round) % 3 == 0) a.Clear();          // some slots are left initialised when the thread exits
}
// every slot-tag form on ONE value type: privacy per (T, Slot) pair means these nine are nine different thread-local values
using X0 = nop::ThreadLocal<uint32_t>; using X1 = nop::ThreadLocal<uint32_t, nop::ThreadLocalSlot<void, 1>>; using X2 = nop::ThreadLocal<uint32_t, nop::ThreadLocalIndexSlot<0>>;
using X3 = nop::ThreadLocal<uint32_t, nop::ThreadLocalIndexSlot<1>>; using X4 = nop::ThreadLocal<uint32_t, nop::ThreadLocalSlot<SlotA, 0>>; using X5 = nop::ThreadLocal<uint32_t, nop::ThreadLocalSlot<SlotA, 1>>;
using X6 = nop::ThreadLocal<uint32_t, nop::ThreadLocalSlot<SlotB, 0>>; using X7 = nop::ThreadLocal<uint32_t, nop::ThreadLocalTypeSlot<SlotA>>; using X8 = nop::ThreadLocal<uint32_t, nop::ThreadLocalTypeSlot<SlotB>>;
static void tl_cross_slots(int round, int tid, Rng& r, bool yields, TlReport* rp) {
  auto val = [&](int k, int phase) { return (uint32_t)(0x40000000u ^ ((uint32_t)round << 16) ^ ((uint32_t)tid << 8) ^ ((uint32_t)k << 4) ^ (uint32_t)phase); };
  X0 x0{val(0, 1)}; X1 x1{val(1, 1)}; X2 x2{val(2, 1)}; boundary(tid, r, yields); X3 x3{val(3, 1)}; X4 x4{val(4, 1)}; X5 x5{val(5, 1)}; X6 x6{val(6, 1)}; X7 x7{val(7, 1)}; X8 x8{val(8, 1)};
  uint32_t* p[9] = {&x0.Get(), &x1.Get(), &x2.Get(), &x3.Get(), &x4.Get(), &x5.Get(), &x6.Get(), &x7.Get(), &x8.Get()};
  auto fail = [&](const std::string& m) { if (rp->err.empty()) rp->err = m; };
  for (int i = 0; i < 9; i++) { if (*p[i] != val(i, 1)) { fail(fmt("slot-not-private|slot form %d of one value type holds %x after every form was initialised with its own value (expected %x): another slot's initialisation is visible", i, *p[i], val(i, 1))); return; }
    for (int j = 0; j < i; j++) if (p[i] == p[j]) { fail(fmt("slot-not-private|slot forms %d and %d of one value type share one thread-local value", j, i)); return; } }
  boundary(tid, r, yields);
  for (int i = 0; i < 9; i++) { *p[i] = val(i, 2); for (int j = 0; j < 9; j++) if (*p[j] != val(j, j <= i ? 2 : 1)) { fail(fmt("slot-not-private|a write through slot form %d changed slot form %d", i, j)); return; } }
  // Clear in one slot is not observable from another
  x2.Clear(); x7.Clear(); boundary(tid, r, yields);
  { X0 a{7u}; X1 b{7u}; X3 c{7u}; X4 d{7u}; X5 e{7u}; X6 f{7u}; X8 g{7u};
    if (a.Get() != val(0, 2) || b.Get() != val(1, 2) || c.Get() != val(3, 2) || d.Get() != val(4, 2) || e.Get() != val(5, 2) || f.Get() != val(6, 2) || g.Get() != val(8, 2)) { fail("slot-not-private|Clear of one slot emptied another slot of the same value type"); return; }
    X2 h{val(2, 3)}; X7 i{val(7, 3)}; if (h.Get() != val(2, 3) || i.Get() != val(7, 3)) { fail("value-survives-clear|cross-slot test"); return; } }
  x0.Clear(); x1.Clear(); x2.Clear(); x3.Clear(); x4.Clear(); x5.Clear(); x6.Clear(); x7.Clear(); x8.Clear();
}
static void tl_work(int round, int tid, Rng& r, bool yields, TlReport* rp) {
  tl_cross_slots(round, tid, r, yields, rp); if (!rp->err.empty()) return;
  tl_u64<TL0>(round, tid, 0, r, yields, rp); tl_u64<TL1>(round, tid, 1, r, yields, rp); tl_u64<TL2>(round, tid, 2, r, yields, rp);
  std::string s1 = fmt("r%d-t%d-s3", round, tid), s2 = fmt("r%d-t%d-s4", round, tid);
  { TL3 a{s1}; TL4 b{s2}; boundary(tid, r, yields); if (a.Get() != s1 || b.Get() != s2) { if (rp->err.empty()) rp->err = fmt("first-initialisation-lost|string slots: got '%s' / '%s', initialised '%s' / '%s'", a.Get().c_str(), b.Get().c_str(), s1.c_str(), s2.c_str()); return; }
    a.Initialize(std::string("zzz")); { std::string mv = "yyy"; b.Initialize(std::move(mv)); } if (a.Get() != s1 || b.Get() != s2) { if (rp->err.empty()) rp->err = "second-initialisation-overrides|string slot: Initialize(T&&) replaced an initialised value without Clear()"; return; }
    a.Get() += "x"; TL3 c{std::string("other")}; if (c.Get() != s1 + "x") { if (rp->err.empty()) rp->err = "write-not-visible-in-same-thread|string slot"; return; }
    rp->addr[3] = &a.Get(); rp->addr[4] = &b.Get(); if (tid % 2) a.Clear(); }
  { TL5 v{std::vector<uint64_t>{uniq(round, tid, 5, 1)}}; boundary(tid, r, yields); if (v.Get().size() != 1 || v.Get()[0] != uniq(round, tid, 5, 1)) { if (rp->err.empty()) rp->err = "first-initialisation-lost|vector slot"; return; } v.Get().push_back(1); rp->addr[5] = &v.Get(); }
}

// ---------------------------------------------------------------- per-thread work (own objects only)
struct TypeCtx { const TypeOps* t; Sch sch; };
static std::vector<TypeCtx> g_types;
static uint64_t codec_work(int tid, Rng& r, bool yields) {
  uint64_t d = 0;
  for (int i = 0; i < 3; i++) {
    const TypeCtx& c = g_types[r.below(g_types.size())];
    Gen g(r); Val v = g.gen(c.sch);
    void* o = c.t->create(); c.t->from_val(v, o);
    static const int wk[] = {W_LOG, W_PEDANTIC, W_STREAM}; static const int rk[] = {R_PEDANTIC, R_BUFFER, R_STREAM, R_CHUNKED, R_B_PEDANTIC, R_LOG};
    int w = wk[r.below(3)], rd = rk[r.below(6)];
    size_t gs = c.t->get_size(o); Sink s; s.init(w, gs, gs);
    boundary(tid, r, yields);
    auto ws = c.t->write(s, o); Bytes b = s.bytes();
    boundary(tid, r, yields);
    d = hash_combine(d, hash_combine(hash_bytes(b.data(), b.size()), ws ? 1 : 0));
    // a table written by one version is read by the other version of the same table
    const TypeCtx* reader = &c; if (strncmp(c.t->name, "T1<", 3) == 0) for (auto& x : g_types) if (strncmp(x.t->name, "T1_R", 4) == 0) reader = &x;
    Source src; src.init(rd, b.data(), b.size(), b.size(), 1 + (unsigned)r.below(5));
    void* o2 = reader->t->create(); auto rs = reader->t->read(src, o2);
    boundary(tid, r, yields);
    Val back = canoned(reader->sch, reader->t->to_val(o2));
    d = hash_combine(d, hash_combine(hash_str(str(back)), rs ? src.consumed() : 0xffff));
    reader->t->destroy(o2); c.t->destroy(o);
  }
  return d;
}
static uint64_t primitive_work(int tid, Rng& r, bool yields) {
  // writer primitives incl. Skip with a thread-specific padding value on every writer kind
  uint64_t d = 0; uint8_t pad = (uint8_t)(0x10 + tid * 7);
  { SStreamWriter w; w.Prepare(64); w.Write((uint8_t)tid); boundary(tid, r, yields); w.Skip(1 + r.below(90), pad); uint32_t blk[3] = {1, 2, (uint32_t)tid}; w.Write(blk, blk + 3); boundary(tid, r, yields); w.Skip(r.below(70), (uint8_t)(pad + 1)); std::string s = w.stream().str(); d = hash_combine(d, hash_str(s)); for (char ch : s) if ((uint8_t)ch != (uint8_t)tid && (uint8_t)ch != pad && (uint8_t)ch != (uint8_t)(pad + 1) && (uint8_t)ch > 3 && (uint8_t)ch != 0) d ^= 0xbad; }
  { uint8_t buf[200]; nop::PedanticBufferWriter w(buf, sizeof buf); w.Skip(1 + r.below(60), pad); boundary(tid, r, yields); nop::BoundedWriter<nop::PedanticBufferWriter> bw(&w, 40); bw.Write((uint8_t)1); bw.WritePadding((uint8_t)(pad + 2)); d = hash_combine(d, hash_bytes(buf, w.size())); }
  { uint8_t buf[128]; nop::ConstexprBufferWriter w(buf, sizeof buf); uint64_t x[2] = {r.next(), (uint64_t)tid}; w.Write(x, x + 2); w.Skip(r.below(50), pad); d = hash_combine(d, hash_bytes(buf, w.size())); }
  { std::string data(100, 0); for (size_t i = 0; i < data.size(); i++) data[i] = (char)(i * 3 + tid); SStreamReader rd(data); uint8_t b = 0; rd.Read(&b); boundary(tid, r, yields); rd.Skip(1 + r.below(40)); uint16_t h[2]; auto st = rd.Read(h, h + 2); d = hash_combine(d, hash_combine(b, st ? (uint64_t)h[0] * 65536 + h[1] : 0)); }
  return d;
}
static uint64_t value_work(int tid, Rng& r, bool yields) {
  uint64_t d = 0; using V = nop::Variant<int, std::string, std::vector<int>>;
  V a, b; nop::Optional<std::string> o; nop::Result<nop::ErrorStatus, std::string> res;
  for (int i = 0; i < 12; i++) {
    switch (r.below(8)) { case 0: a = (int)r.below(1000); break; case 1: a = std::string((size_t)r.below(30), 'v'); break; case 2: a = std::vector<int>((size_t)r.below(9), tid); break; case 3: b = a; break; case 4: a = std::move(b); break; case 5: a.Become((int)r.below(5) - 1); break;
      case 6: o = std::string((size_t)r.below(12), 'o'); if (r.below(2)) o.clear(); break; default: if (r.below(2)) res = std::string("ok"); else res = nop::ErrorStatus::IOError; break; }
    d = hash_combine(d, hash_combine((uint64_t)(a.index() + 2) * 31 + (uint64_t)(b.index() + 2), (o.empty() ? 0 : o.get().size() + 1) * 7 + (res.has_value() ? 3 : res.has_error() ? 5 : 0)));
    boundary(tid, r, yields);
  }
  // error messages, incl. codes outside the named enumerators (legal on the wire: the enum decodes from its integer)
  for (int i = 0; i < 4; i++) { int code = r.below(2) ? (int)r.below(19) : 19 + (int)r.below(60); nop::Status<int> st{(nop::ErrorStatus)code}; nop::Status<void> sv{(nop::ErrorStatus)code}; std::string m1 = st.GetErrorMessage(), m2 = sv.GetErrorMessage(); boundary(tid, r, yields); d = hash_combine(d, hash_combine(hash_str(m1), hash_str(m2))); if (m1 != m2) d ^= 0xbad1; }
  uint8_t buf[40]; for (auto& x : buf) x = (uint8_t)r.next();
  d = hash_combine(d, nop::SipHash::Compute(nop::BlockReader<uint8_t>(buf, sizeof buf), r.next(), (uint64_t)tid));
  return d;
}
// FdWriter / FdReader on the thread's own descriptors (memfd): many single-byte and block transfers.
// Monitor over the process's descriptor table (the one piece of state every reader/writer shares with every other thread): each thread claims the
// descriptor numbers it obtains and gives the claim up just before the object owning the descriptor is destroyed. A number handed out by the kernel
// while another thread still claims it, or a claimed descriptor that is no longer open, means some object closed a descriptor it did not own.
static std::atomic<int> g_fd_owner[4096];
static std::atomic<uint64_t> g_fd_claims{0};
static std::string g_fd_fault; static std::mutex g_fd_fault_mu;
static void fd_fault(const std::string& m) { std::lock_guard<std::mutex> lk(g_fd_fault_mu); if (g_fd_fault.empty()) g_fd_fault = m; }
static int fd_claim(int fd, int tid) { if (fd < 0 || fd >= 4096) return fd; int prev = g_fd_owner[fd].exchange(tid + 1); g_fd_claims.fetch_add(1, std::memory_order_relaxed);
  if (prev != 0) fd_fault(fmt("descriptor %d was handed to thread %d while thread %d still owns it: it was closed behind its owner's back", fd, tid, prev - 1)); return fd; }
static void fd_unclaim(int fd, int tid) { if (fd < 0 || fd >= 4096) return; if (fcntl(fd, F_GETFD) < 0) fd_fault(fmt("descriptor %d owned by thread %d is no longer open: another object closed it", fd, tid));
  int prev = g_fd_owner[fd].exchange(0); if (prev != tid + 1) fd_fault(fmt("descriptor %d owned by thread %d was re-issued to thread %d in the meantime", fd, tid, prev - 1)); }
static uint64_t fd_work(int tid, Rng& r, bool yields) {
  uint64_t d = 0; int fd = fd_claim(memfd_create("vfmt", 0), tid); if (fd < 0) return 0;
  const unsigned form = (unsigned)r.below(3);
  size_t n = 20 + r.below(200); uint32_t blk[8]; for (auto& x : blk) x = (uint32_t)r.next();
  if (form == 0) { int wfd = fd_claim(::dup(fd), tid); nop::FdWriter w(wfd); for (size_t i = 0; i < n; i++) { (void)w.Write((uint8_t)(i * 7 + (size_t)tid)); if (i % 64 == 0) boundary(tid, r, yields); }
    (void)w.Write(blk, blk + 8); fd_unclaim(wfd, tid); }
  else {   // the writer handed over by value: moved into a Serializer (form 1) or into another writer (form 2); the moved-from object outlives the new owner
    int wfd = fd_claim(::dup(fd), tid); nop::FdWriter outer(wfd);
    if (form == 1) { nop::Serializer<nop::FdWriter> ser{std::move(outer)}; for (size_t i = 0; i < n; i++) { (void)ser.writer().Write((uint8_t)(i * 7 + (size_t)tid)); if (i % 64 == 0) boundary(tid, r, yields); } (void)ser.writer().Write(blk, blk + 8); fd_unclaim(wfd, tid); }
    else { nop::FdWriter w(std::move(outer)); for (size_t i = 0; i < n; i++) { (void)w.Write((uint8_t)(i * 7 + (size_t)tid)); if (i % 64 == 0) boundary(tid, r, yields); } (void)w.Write(blk, blk + 8); fd_unclaim(wfd, tid); }
    boundary(tid, r, yields); if (yields) std::this_thread::yield();         // other threads obtain descriptors here; `outer` is destroyed afterwards
    boundary(tid, r, yields);
  }
  d = hash_combine(d, n);
  ::lseek(fd, 0, SEEK_SET);
  uint64_t h = 0; size_t got = 0;
  if (form == 0) { int rfd = fd_claim(::dup(fd), tid); nop::FdReader rd(rfd); uint8_t b = 0; while (rd.Read(&b)) { h = hash_combine(h, b); got++; if (got % 64 == 0) boundary(tid, r, yields); } fd_unclaim(rfd, tid); }
  else {
    int rfd = fd_claim(::dup(fd), tid); nop::FdReader outer(rfd);
    if (form == 1) { nop::Deserializer<nop::FdReader> des{std::move(outer)}; uint8_t b = 0; while (des.reader().Read(&b)) { h = hash_combine(h, b); got++; if (got % 64 == 0) boundary(tid, r, yields); } fd_unclaim(rfd, tid); }
    else { nop::FdReader rd(std::move(outer)); uint8_t b = 0; while (rd.Read(&b)) { h = hash_combine(h, b); got++; if (got % 64 == 0) boundary(tid, r, yields); } fd_unclaim(rfd, tid); }
    boundary(tid, r, yields); if (yields) std::this_thread::yield();
    boundary(tid, r, yields);
  }
  d = hash_combine(d, hash_combine(h, got));
  if (got != n + sizeof blk) fd_fault(fmt("thread %d read %zu bytes back from its own file, wrote %zu", tid, got, n + sizeof blk));
  fd_unclaim(fd, tid); ::close(fd);
  return d;
}
// process-wide state the library must not touch behind the caller's back: the SIGPIPE disposition installed by the application
static void vf_sigpipe_handler(int) {}
static bool sigpipe_disposition_intact() { struct sigaction cur; if (sigaction(SIGPIPE, nullptr, &cur) != 0) return true; return cur.sa_handler == &vf_sigpipe_handler; }
static uint64_t thread_work(int round, int tid, uint64_t seed, bool yields, TlReport* rp, bool with_tl) {
  Rng r(hash_combine(seed, (uint64_t)round * 1009 + (uint64_t)tid));
  uint64_t d = 0;
  for (int step = 0; step < 6; step++) {
    switch (r.below(5)) { case 0: d = hash_combine(d, codec_work(tid, r, yields)); break; case 1: d = hash_combine(d, primitive_work(tid, r, yields)); break; case 2: d = hash_combine(d, value_work(tid, r, yields)); break; case 3: d = hash_combine(d, fd_work(tid, r, yields)); break; default: d = hash_combine(d, rpc_work(r)); boundary(tid, r, yields); break; }
  }
  if (with_tl) tl_work(round, tid, r, yields, rp);
  return d;
}

// Objects handed from one thread to another: FdWriter / FdReader constructed by the coordinating thread (whose own errno is then dirtied by an unrelated
// failing call), used by worker threads on a small blocking pipe under a signal storm (partial and EINTR system calls). A reader / writer must not keep
// anything that belongs to the constructing thread (its errno location, TLS addresses): the transfer must complete exactly as it does on one thread.
static void handoff_round(int round, uint64_t seed) {
  const int K = 3; int fds[K][2]; std::unique_ptr<nop::FdWriter> wr[K]; std::unique_ptr<nop::FdReader> rd[K]; std::vector<uint8_t> data[K], got[K]; std::string werr[K], rerr[K];
  for (int i = 0; i < K; i++) { if (pipe(fds[i]) != 0) return; shrink_pipe(fds[i][1]); wr[i].reset(new nop::FdWriter(fds[i][1])); rd[i].reset(new nop::FdReader(fds[i][0]));
    Rng r(hash_combine(seed, (uint64_t)round * 31 + (uint64_t)i)); data[i].resize(20000 + r.below(30000)); for (auto& b : data[i]) b = (uint8_t)r.next(); }
  ::close(-1);                                   // the constructing thread's errno is now EBADF and stays so while the workers run
  std::vector<std::thread> ths;
  for (int i = 0; i < K; i++) {
    ths.emplace_back([&, i] { SignalStorm storm(pthread_self(), 60); Rng r(hash_combine(seed, 77 + (uint64_t)i)); size_t off = 0; const std::vector<uint8_t>& d = data[i];
      while (off < d.size()) { size_t k = r.below(4) == 0 ? 1 : 1 + r.below(3000); if (k > d.size() - off) k = d.size() - off;
        auto st = k == 1 ? wr[i]->Write(d[off]) : wr[i]->Write(d.data() + off, d.data() + off + k);
        if (!st) { werr[i] = fmt("Write of %zu bytes at offset %zu failed with '%s'", k, off, st.GetErrorMessage()); break; } off += k; }
      wr[i].reset(); });                        // closes the write end: EOF for the reader
    ths.emplace_back([&, i] { SignalStorm storm(pthread_self(), 80); Rng r(hash_combine(seed, 99 + (uint64_t)i)); std::vector<uint8_t>& g = got[i]; g.reserve(data[i].size());
      while (g.size() < data[i].size()) { size_t k = r.below(4) == 0 ? 1 : 1 + r.below(2000); if (k > data[i].size() - g.size()) k = data[i].size() - g.size(); size_t at = g.size(); g.resize(at + k);
        auto st = k == 1 ? rd[i]->Read(&g[at]) : rd[i]->Read(g.data() + at, g.data() + at + k);
        if (!st) { g.resize(at); rerr[i] = fmt("Read of %zu bytes at offset %zu failed with '%s'", k, at, st.GetErrorMessage()); break; }
        if (r.below(3) == 0) usleep(20 + (unsigned)r.below(100)); }
      rd[i].reset(); });
  }
  for (auto& t : ths) t.join();
  for (int i = 0; i < K; i++) {
    rep().count("c19_cross_thread_handoff_transfers"); rep().count("c19_cross_thread_handoff_bytes", data[i].size());
    std::string cd = case_desc("handoff", round, "handoff", J().u("pipe", (uint64_t)i).u("bytes", data[i].size()).str());
    if (!werr[i].empty()) rep().violation("C19:handoff:write-failed", fmt("an FdWriter constructed by one thread and used by another (blocking pipe, signals without SA_RESTART): %s", werr[i].c_str()), cd);
    else if (!rerr[i].empty()) rep().violation("C19:handoff:read-failed", fmt("an FdReader constructed by one thread and used by another (blocking pipe, signals without SA_RESTART): %s", rerr[i].c_str()), cd);
    else if (got[i] != data[i]) rep().violation("C19:handoff:bytes-differ", fmt("the bytes read through a handed-over FdReader differ from the bytes written through a handed-over FdWriter (%zu of %zu)", got[i].size(), data[i].size()), cd);
  }
  rep().count("c19_signals_delivered_during_handoff", storm_delivered().exchange(0));
}
int vf::engine_main() {
  const Args& a = args(); bool th = a.thorough();
  if (a.prop != "C19") { fprintf(stderr, "mt engine: unknown property %s\n", a.prop.c_str()); return 2; }
  set_watchdog(300);
  { struct sigaction sa; sigemptyset(&sa.sa_mask); sa.sa_handler = &vf_sigpipe_handler; sa.sa_flags = SA_RESTART; sigaction(SIGPIPE, &sa, nullptr); }   // the "application's" handler
  auto& reg = registry(); std::sort(reg.begin(), reg.end(), [](const TypeOps& x, const TypeOps& y) { return strcmp(x.name, y.name) < 0; });
  for (auto& t : reg) g_types.push_back(TypeCtx{&t, t.schema()});
  int rounds = th ? 4000 : 240; rounds = rounds / a.nworkers + 1;
  std::set<uint64_t> signatures;
  static const int kN[] = {2, 4, 8, 16};
  for (int round = 0; round < rounds; round++) {
    if (a.only_case >= 0 && a.only_case != round) continue;
    int N = kN[(round + a.worker) % 4];
    uint64_t seed = hash_combine(a.seed * 7919 + (uint64_t)a.worker, 0xC19);
    std::string cd = case_desc("threads", round, "round", J().u("threads", N).u("worker", a.worker).str());
    set_current("%s", cd.c_str());
    // ---- parallel run
    g_ticket.store(0); for (auto& o : g_order) o.store(0xff, std::memory_order_relaxed);
    std::vector<uint64_t> par(N), seq(N); std::vector<TlReport> tl(N), tl_seq(N);
    { Barrier start(N), end(N + 1); std::vector<std::thread> ths;
      for (int i = 0; i < N; i++) ths.emplace_back([&, i] { start.wait(); par[i] = thread_work(round, i, seed, true, &tl[i], true); end.wait(); /* park: TLS of all threads of the round is alive while addresses are audited */ end.wait(); });
      end.wait();
      // address audit among concurrently live threads: every (thread, slot) has its own storage
      { std::set<const void*> seen; for (int i = 0; i < N; i++) for (int k = 0; k < 6; k++) if (tl[i].addr[k]) { if (!seen.insert(tl[i].addr[k]).second) rep().violation("C19:threadlocal:address-shared", fmt("two live (thread, T, Slot) triples share the address %p (thread %d slot %d)", tl[i].addr[k], i, k), cd); rep().count("c19_threadlocal_addresses_audited"); } }
      end.wait(); for (auto& t : ths) t.join(); }
    uint32_t nt = g_ticket.load(); uint64_t sig = 0; for (uint32_t i = 0; i < nt && i < 4096; i++) sig = hash_combine(sig, g_order[i].load(std::memory_order_relaxed)); signatures.insert(sig);
    // ---- the same work, one thread at a time (fresh threads so that ThreadLocal starts empty, as in the parallel run)
    for (int i = 0; i < N; i++) { std::thread t([&, i] { seq[i] = thread_work(round, i, seed, false, &tl_seq[i], true); }); t.join(); }
    if (!sigpipe_disposition_intact()) { rep().violation("C19:process-signal-disposition-changed", fmt("after a round of %d threads using their own readers/writers the process-wide SIGPIPE disposition is no longer the handler the application installed", N), cd);
      struct sigaction sa; sigemptyset(&sa.sa_mask); sa.sa_handler = &vf_sigpipe_handler; sa.sa_flags = SA_RESTART; sigaction(SIGPIPE, &sa, nullptr); }
    rep().count("c19_signal_disposition_audits");
    if (round % 8 == 0) handoff_round(round, seed);
    { std::lock_guard<std::mutex> lk(g_fd_fault_mu); if (!g_fd_fault.empty()) { rep().violation("C19:descriptor-table:closed-by-a-foreign-object", fmt("round of %d threads, each with its own FdReader/FdWriter objects: %s", N, g_fd_fault.c_str()), cd); g_fd_fault.clear(); for (auto& o : g_fd_owner) o.store(0); } }
    rep().count("c19_descriptor_claims_audited", g_fd_claims.exchange(0));
    rep().count("c19_rounds"); rep().count("c19_threads_run", (uint64_t)N * 2); rep().count("c19_operation_boundaries", nt);
    rep().note(hash_combine(sig, (uint64_t)round * 131 + (uint64_t)a.worker), N >= 2);
    for (int i = 0; i < N; i++) {
      if (par[i] != seq[i]) rep().violation("C19:digest-differs-from-sequential-run", fmt("thread %d of %d: result digest %016" PRIx64 " in the concurrent run, %016" PRIx64 " when the same work runs alone", i, N, par[i], seq[i]), cd);
      for (TlReport* r : {&tl[i], &tl_seq[i]}) if (!r->err.empty()) { size_t bar = r->err.find('|'); rep().violation("C19:threadlocal:" + r->err.substr(0, bar), fmt("thread %d of %d (%s run): %s", i, N, r == &tl[i] ? "concurrent" : "one-at-a-time", r->err.substr(bar + 1).c_str()), cd); }
    }
    if (rep().want_sample("round", 2)) rep().sample("round", J().u("threads", N).u("operation_boundaries", nt).s("interleaving_signature", fmt("%016" PRIx64, sig)).s("digest_thread0", fmt("%016" PRIx64, par[0])).str(), 2);
    clear_current();
  }
  rep().counters["max_distinct_interleaving_signatures_per_worker"] = signatures.size();
  rep().counters["c19_distinct_interleaving_signatures"] = signatures.size();
  return 0;
}
