// Dynamic schema and value trees for the reference codec (independent of nop::Encoding).
#pragma once
#include <cstdint>
#include <string>
#include <vector>
#include <sstream>
namespace vf {
enum class K : uint8_t { BOOL, CHAR, UINT, INT, F32, F64, STR, BIN, ARY, TUPLE, MAP, STU, OPT, RES, VAR, HND, TAB, NILV /*EmptyVariant*/ };
enum class Len : uint8_t { FIXED, VAR, CAP };
struct Sch {
  K k; int bits = 0;            // UINT/INT: width; STR: char size*8; BIN: element width*8
  Len len = Len::VAR; uint64_t n = 0;   // BIN/ARY: fixed count / capacity (elements)
  uint64_t hash = 0;            // TAB hash, HND type tag
  bool ordered = true;          // MAP
  std::vector<Sch> kids;        // children (ARY:1, MAP:2, TUPLE/STU/VAR:n, OPT:1, RES: [err int sch, value], TAB: entries)
  std::vector<uint64_t> ids;    // TAB: entry ids
  std::vector<uint8_t> active;  // TAB: 1 active, 0 deleted
  std::string name;
  bool boolel = false;           // BIN of bool elements: generated payload bytes are 0/1 only
};
struct Val {
  uint64_t u = 0;               // UINT/BOOL/CHAR value, INT (two's complement), F32/F64 bits, VAR index(+1), RES state(0 empty,1 err,2 val), OPT engaged, HND ref (as u), TAB unused
  std::string bytes;            // STR/BIN payload
  std::vector<Val> kids;        // ARY/TUPLE/STU elems; MAP: k0,v0,k1,v1..; OPT/RES/VAR: payload; TAB: one per schema entry (OPT-like: u=present)
  bool operator==(const Val& o) const { return u == o.u && bytes == o.bytes && kids == o.kids; }
  bool operator!=(const Val& o) const { return !(*this == o); }
};
inline void dump(const Val& v, std::ostream& os) {
  os << "{" << v.u; if (!v.bytes.empty()) { os << " b" << v.bytes.size(); }
  for (auto& k : v.kids) { os << " "; dump(k, os); } os << "}";
}
inline std::string str(const Val& v) { std::ostringstream os; dump(v, os); return os.str(); }
}  // namespace vf
