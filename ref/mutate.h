// Structure-aware hostile-input derivation (DESIGN.md appendix C) over annotated reference encodings.
#pragma once
#include "ref/genval.h"
#include "ref/refcodec.h"
namespace vf {

enum class MutKind : uint8_t { Cut, Prefix, Class, Value, Structural, Noise, Random, TableOp };
struct Mut {
  Bytes bytes; MutKind kind; std::string desc;
  // where the injected defect sits (offset in the mutated bytes) and whether the error *category* may be compared
  // when the reference reports its first error exactly there (single local defect, check-order independent)
  size_t defect_off = SIZE_MAX; bool category_comparable = false;
};
inline const char* rolename(Role r) { static const char* n[] = {"prefix", "int", "length", "count", "id", "size", "hash", "index", "tag", "ref", "payload", "padding"}; return n[(int)r]; }

inline Bytes splice(const Bytes& b, size_t off, size_t len, const Bytes& rep) {
  Bytes m(b.begin(), b.begin() + off); m.insert(m.end(), rep.begin(), rep.end()); m.insert(m.end(), b.begin() + off + len, b.end()); return m;
}
inline Bytes enc_class(int cls, uint64_t val) {   // cls 0..3 = U8..U64, 4..7 = I8..I64; raw little-endian payload
  Bytes e; int w = 1 << (cls & 3); e.push_back((uint8_t)(0x80 + cls)); for (int k = 0; k < w; k++) e.push_back((uint8_t)(val >> (8 * k))); return e;
}
inline bool class_holds(int cls, bool is_signed, uint64_t cur, int64_t scur) {
  int w = 1 << (cls & 3);
  if (cls < 4) { if (is_signed && scur < 0) return false; uint64_t v = is_signed ? (uint64_t)scur : cur; return w == 8 || v < (1ull << (8 * w)); }
  if (!is_signed && cur >= (1ull << 63)) return false;
  int64_t v = is_signed ? scur : (int64_t)cur; return w == 8 || (v >= -(1LL << (8 * w - 1)) && v < (1LL << (8 * w - 1)));
}

// all mutations of one annotated field
inline void field_mutations(const Enc& e, size_t fi, bool all_prefixes, std::vector<Mut>& out) {
  const Field& f = e.fields[fi];
  if (f.role == Role::PADDING || f.role == Role::PAYLOAD) return;
  if (f.role == Role::PREFIX) {
    static const int few[] = {0x00, 0x01, 0x02, 0x7f, 0x80, 0x81, 0x82, 0x83, 0x84, 0x85, 0x86, 0x87, 0x88, 0x89, 0x8a, 0xb4, 0xb5, 0xb6, 0xb7, 0xb8, 0xb9, 0xba, 0xbb, 0xbc, 0xbd, 0xbe, 0xbf, 0xc0, 0xff};
    if (all_prefixes) { for (int pb = 0; pb < 256; pb++) { if (pb == e.out[f.off]) continue; Mut m; m.bytes = e.out; m.bytes[f.off] = (uint8_t)pb; m.kind = MutKind::Prefix; m.desc = fmt("prefix@%zu=%02x", f.off, pb); m.defect_off = f.off; m.category_comparable = true; out.push_back(std::move(m)); } }
    else for (int pb : few) { if (pb == e.out[f.off]) continue; Mut m; m.bytes = e.out; m.bytes[f.off] = (uint8_t)pb; m.kind = MutKind::Prefix; m.desc = fmt("prefix@%zu=%02x", f.off, pb); m.defect_off = f.off; m.category_comparable = true; out.push_back(std::move(m)); }
    return;
  }
  uint64_t cur = 0; int64_t scur = 0;
  { Dec dd{e.out.data() + f.off, f.len}; if (f.is_signed) dd.intv(64, &scur); else dd.uintv(64, &cur); }
  // every class that can hold the value: legal wider classes must be accepted with the same value, too-wide /
  // other-signedness classes must be rejected with UnexpectedEncodingType (single local defect)
  for (int cls = 0; cls < 8; cls++) {
    if (!class_holds(cls, f.is_signed, cur, scur)) continue;
    Mut m; m.bytes = splice(e.out, f.off, f.len, enc_class(cls, f.is_signed ? (uint64_t)scur : cur)); m.kind = MutKind::Class;
    m.desc = fmt("%s@%zu class=%s%d", rolename(f.role), f.off, cls < 4 ? "U" : "I", 8 << (cls & 3)); m.defect_off = f.off; m.category_comparable = true; out.push_back(std::move(m));
  }
  // value substitutions (encoded minimally)
  bool cmp = !(f.role == Role::LENGTH || f.role == Role::SIZE || f.role == Role::INTVAL || f.role == Role::REF || f.role == Role::ID);
  if (!f.is_signed) {
    const uint64_t vals[] = {0, cur + 1, cur - 1, cur + 2, cur * 2, 127, 128, 255, 256, 65535, 65536, (1ull << 31), 0xffffffffull, 0x100000000ull, 1ull << 40, (1ull << 63) - 1, 1ull << 63, ~0ull, ~0ull - 9, ~0ull - f.off, ~0ull - (e.out.size() - f.off)};
    for (uint64_t nv : vals) { if (nv == cur) continue; Enc t; t.put_uint(nv, f.role, 64); Mut m; m.bytes = splice(e.out, f.off, f.len, t.out); m.kind = MutKind::Value; m.desc = fmt("%s@%zu=%" PRIu64, rolename(f.role), f.off, nv); m.defect_off = f.off; m.category_comparable = cmp; out.push_back(std::move(m)); }
  } else {
    const int64_t vals[] = {0, (int64_t)((uint64_t)scur + 1), (int64_t)((uint64_t)scur - 1), -1, -2, -3, -64, -65, 127, 128, 32767, 32768, INT32_MAX, INT32_MIN, (int64_t)INT32_MAX + 1, INT64_MAX, INT64_MIN};
    for (int64_t nv : vals) { if (nv == scur) continue; Enc t; t.put_int(nv, f.role, 64); Mut m; m.bytes = splice(e.out, f.off, f.len, t.out); m.kind = MutKind::Value; m.desc = fmt("%s@%zu=%" PRId64, rolename(f.role), f.off, nv); m.defect_off = f.off; m.category_comparable = cmp; out.push_back(std::move(m)); }
  }
}

// Val-level single defects: the mutated value is encoded by the reference encoder (which does not validate),
// so the payload matches the corrupted length/count and exactly one rule is broken.
struct ValMutator {
  Rng& r; int target; int variant; int seen = 0; bool done = false; std::string desc;   // variant: -1 = random, else forces the mode of capacity mutations
  ValMutator(Rng& rng, int tgt, int var = -1) : r(rng), target(tgt), variant(var) {}
  bool candidate(const Sch& s) const {
    if (s.k == K::STR) return s.bits > 8;
    if (s.k == K::BIN) return s.bits > 8 || s.len != Len::VAR;
    if (s.k == K::ARY) return s.len != Len::VAR;
    return false;
  }
  void walk(const Sch& s, Val& v) {
    if (done) return;
    if (candidate(s)) {
      if (seen++ == target) { apply(s, v); done = true; return; }
    }
    switch (s.k) {
      case K::ARY: for (auto& k : v.kids) walk(s.kids[0], k); break;
      case K::TUPLE: case K::STU: for (size_t i = 0; i < s.kids.size() && i < v.kids.size(); i++) walk(s.kids[i], v.kids[i]); break;
      case K::MAP: for (size_t i = 0; i < v.kids.size(); i++) walk(s.kids[i & 1], v.kids[i]); break;
      case K::OPT: if (v.u && !v.kids.empty()) walk(s.kids[0], v.kids[0]); break;
      case K::RES: if (v.u == 2) walk(s.kids[1], v.kids[0]); break;
      case K::VAR: if (v.u) walk(s.kids[v.u - 1], v.kids[0]); break;
      case K::TAB: for (size_t i = 0; i < s.kids.size(); i++) if (v.kids[i].u) walk(s.kids[i], v.kids[i].kids[0]); break;
      default: break;
    }
  }
  void apply(const Sch& s, Val& v) {
    size_t w = s.bits / 8;
    if (s.k == K::STR) { size_t k = 1 + r.below(w - 1); v.bytes.append(k, 'x'); desc = fmt("STR(char%zu) byte length +%zu (not a multiple)", w, k); return; }
    if (s.k == K::BIN) {
      int mode = (int)r.below(3);
      if (w > 1 && (mode == 0 || s.len == Len::VAR)) { size_t k = 1 + r.below(w - 1); if (s.len == Len::CAP && v.bytes.size() + k > s.n * w) { v.bytes.resize(v.bytes.size() >= w ? v.bytes.size() - w : 0); } v.bytes.append(k, 'y'); desc = fmt("BIN(elem%zu) byte length not a multiple (+%zu)", w, k); return; }
      if (s.len == Len::FIXED) { if (mode == 1 || v.bytes.empty()) { v.bytes.append(w, 'z'); desc = "fixed BIN one element too many"; } else { v.bytes.resize(v.bytes.size() - w); desc = "fixed BIN one element short"; } return; }
      if (s.len == Len::CAP) { size_t extra = (r.below(2) ? 1 : 1 + r.below(200)); int mode2 = variant >= 0 ? variant % 4 : (int)r.below(4); if (mode2 == 1) extra = 256 - s.n % 256 + r.below(s.n + 1); else if (mode2 == 2) extra = 65536 - s.n % 65536 + r.below(s.n + 1); v.bytes.assign((s.n + extra) * w, 'c'); desc = fmt("logical buffer BIN length capacity+%zu", extra); return; }
    }
    if (s.k == K::ARY) {
      Rng r2(r.next()); Gen g(r2);
      if (s.len == Len::FIXED) { if (r.below(2) || v.kids.empty()) { v.kids.push_back(g.gen(s.kids[0], 2)); desc = "fixed ARY one element too many"; } else { v.kids.pop_back(); desc = "fixed ARY one element short"; } return; }
      if (s.len == Len::CAP) {
        // counts just above the capacity, and counts that wrap back into the capacity when narrowed to an 8/16-bit size member
        size_t extra = 1 + r.below(3); int mode = variant >= 0 ? variant % 4 : (int)r.below(4); K ek = s.kids[0].k; bool small_elem = ek == K::UINT || ek == K::INT || ek == K::BOOL || ek == K::CHAR || ek == K::F32 || ek == K::F64;
        size_t target = s.n + extra;
        if (mode == 1) target = 256 + r.below(s.n + 1); else if (mode == 2 && small_elem) target = 65536 + r.below(s.n + 1);
        if (target <= s.n) target = s.n + extra;
        Val proto = g.gen(s.kids[0], 2);
        while (v.kids.size() < target) v.kids.push_back(v.kids.size() < s.n + 4 ? g.gen(s.kids[0], 2) : proto);
        desc = fmt("logical buffer ARY count capacity+%zu", target - s.n); return; }
    }
  }
};
inline int count_struct_candidates(const Sch& s, const Val& v) { Rng r(1); ValMutator m(r, -1); Val c = v; m.walk(s, c); return m.seen; }

// Two cooperating fields of a table: an entry size that makes a skip wrap around the reader's position together with an
// inflated entry count (a reader whose Skip check overflows walks the same entry forever or far past the data).
inline void table_wrap_mutations(const Enc& e, std::vector<Mut>& out) {
  for (size_t ei = 0; ei < e.entries.size() && ei < 6; ei++) {
    const EntrySpan& sp = e.entries[ei]; const Field& cf = e.fields[sp.count_field];
    size_t hdr = sp.val_off - sp.id_off;
    for (uint64_t back : {(uint64_t)hdr, (uint64_t)hdr + 1, (uint64_t)1, (uint64_t)(sp.val_off), (uint64_t)(sp.val_off + 1)}) {
      for (int unknown_id = 0; unknown_id < 2; unknown_id++) for (int huge_count = 0; huge_count < 2; huge_count++) {
        Enc sz; sz.put_uint(0ull - back, Role::SIZE, 64);                               // 2^64 - back
        Bytes m = splice(e.out, sp.size_off, sp.val_off - sp.size_off, sz.out);         // (later offsets shift; earlier ones do not)
        if (unknown_id) { Enc id; id.put_uint(0x7fffffffffffff01ull, Role::ID, 64); m = splice(m, sp.id_off, sp.size_off - sp.id_off, id.out); }
        if (huge_count) { Enc c; c.put_uint(~0ull, Role::COUNT, 64); m = splice(m, cf.off, cf.len, c.out); }   // the count field precedes the entry
        Mut mu; mu.bytes = std::move(m); mu.kind = MutKind::TableOp; mu.desc = fmt("entry@%zu size=2^64-%" PRIu64 "%s%s", sp.id_off, back, unknown_id ? " id=unknown" : "", huge_count ? " count=2^64-1" : "");
        out.push_back(std::move(mu));
      }
    }
  }
}

// *Valid* variants of an encoding in which a table that is not enclosed in another entry's frame carries additional entries with
// ids no definition knows (what a newer revision of the table sends): the count grows beyond the number of entries any reader
// declares, the extra entries sit before the known ones, after them, or both. The format says unknown ids are skipped.
inline uint64_t field_uint(const Bytes& b, const Field& f) { uint8_t p = b[f.off]; if (p < 0x80) return p; uint64_t v = 0; for (size_t i = 1; i < f.len && i <= 8; i++) v |= (uint64_t)b[f.off + i] << (8 * (i - 1)); return v; }
inline void table_unknown_entries_mutations(const Enc& e, std::vector<Mut>& out) {
  int done = 0;
  for (size_t fi = 0; fi + 1 < e.fields.size() && done < 3; fi++) {
    if (e.fields[fi].role != Role::HASH || e.fields[fi + 1].role != Role::COUNT) continue;
    const Field& cf = e.fields[fi + 1];
    bool nested = false; for (auto& sp : e.entries) if (sp.val_off <= e.fields[fi].off && e.fields[fi].off < sp.end_off) nested = true;
    if (nested) continue;
    size_t front = cf.off + cf.len, back = front; uint64_t present = 0;
    for (auto& sp : e.entries) if (sp.count_field == fi + 1) { present++; back = std::max(back, sp.end_off); }
    uint64_t count = field_uint(e.out, cf);
    done++;
    for (unsigned extra : {1u, 2u, 9u}) for (int where = 0; where < 3; where++) {
      auto mk = [&](unsigned n, unsigned salt) { Enc x; for (unsigned j = 0; j < n; j++) { x.put_uint(0x7ffffffffffffe00ull + ((j + salt) % 3), Role::ID, 64); unsigned sz = (j + salt) % 4 == 3 ? 5 : (j + salt) % 4; x.put_uint(sz, Role::SIZE, 64); for (unsigned k = 0; k < sz; k++) x.out.push_back((uint8_t)(0xb9 + k)); } return x.out; };
      unsigned nf = where == 0 ? extra : where == 1 ? 0 : extra / 2, nb = extra - nf;
      Bytes m(e.out.begin(), e.out.begin() + cf.off);
      Enc c; c.put_uint(count + extra, Role::COUNT, 64); m.insert(m.end(), c.out.begin(), c.out.end());
      Bytes f = mk(nf, 0), b = mk(nb, 1);
      m.insert(m.end(), f.begin(), f.end()); m.insert(m.end(), e.out.begin() + front, e.out.begin() + back); m.insert(m.end(), b.begin(), b.end()); m.insert(m.end(), e.out.begin() + back, e.out.end());
      Mut mu; mu.bytes = std::move(m); mu.kind = MutKind::TableOp; mu.desc = fmt("table@%zu: %u entries with unknown ids added (%u before, %u after the %" PRIu64 " present ones)", e.fields[fi].off, extra, nf, nb, present);
      out.push_back(std::move(mu));
    }
  }
}

// A *valid* variant of an encoding in which every table entry that is not enclosed in another entry's frame declares a
// larger size and carries that many padding bytes (what a writer with a coarser size estimate would emit).
inline Bytes pad_outer_entries(const Enc& e, Rng& r) {
  std::vector<const EntrySpan*> outer;
  for (auto& s : e.entries) { bool inside = false; for (auto& t : e.entries) if (&t != &s && t.val_off <= s.id_off && s.end_off <= t.end_off) inside = true; if (!inside) outer.push_back(&s); }
  std::sort(outer.begin(), outer.end(), [](const EntrySpan* a, const EntrySpan* b) { return a->id_off < b->id_off; });
  Bytes out; size_t pos = 0;
  for (const EntrySpan* s : outer) {
    out.insert(out.end(), e.out.begin() + pos, e.out.begin() + s->size_off);       // everything up to and including the id
    size_t vlen = s->end_off - s->val_off; size_t pad = 1 + r.below(5);
    Enc sz; sz.put_uint(vlen + pad, Role::SIZE, 64); out.insert(out.end(), sz.out.begin(), sz.out.end());
    out.insert(out.end(), e.out.begin() + s->val_off, e.out.begin() + s->end_off); out.insert(out.end(), pad, (uint8_t)(r.below(2) ? 0 : 0xA5));
    pos = s->end_off;
  }
  out.insert(out.end(), e.out.begin() + pos, e.out.end());
  return out;
}

inline void noise_mutations(const Bytes& b, Rng& r, int n, std::vector<Mut>& out) {
  for (int i = 0; i < n; i++) {
    Mut m; m.bytes = b; m.kind = MutKind::Noise; int op = (int)r.below(4);
    if (op == 0 && !m.bytes.empty()) { int k = 1 + (int)r.below(4); for (int j = 0; j < k; j++) m.bytes[r.below(m.bytes.size())] ^= (uint8_t)(1u << r.below(8)); m.desc = "bitflips"; }
    else if (op == 1 && !m.bytes.empty()) { size_t p = r.below(m.bytes.size()); static const uint8_t pb[] = {0x80, 0x81, 0x82, 0x83, 0x84, 0x87, 0xb5, 0xb8, 0xb9, 0xba, 0xbb, 0xbc, 0xbd, 0xbe, 0xff, 0x00}; m.bytes[p] = pb[r.below(16)]; m.desc = "byte-set"; }
    else if (op == 2) { size_t p = r.below(m.bytes.size() + 1); size_t k = 1 + r.below(4); Bytes ins; for (size_t j = 0; j < k; j++) ins.push_back((uint8_t)r.next()); m.bytes.insert(m.bytes.begin() + p, ins.begin(), ins.end()); m.desc = "insert"; }
    else if (!m.bytes.empty()) { size_t p = r.below(m.bytes.size()); size_t k = 1 + r.below(std::min<size_t>(4, m.bytes.size() - p)); m.bytes.erase(m.bytes.begin() + p, m.bytes.begin() + p + k); m.desc = "delete"; }
    else continue;
    out.push_back(std::move(m));
  }
}
inline Mut random_string(Rng& r) {
  Mut m; m.kind = MutKind::Random; m.desc = "random"; size_t n = r.below(65);
  for (size_t i = 0; i < n; i++) m.bytes.push_back(r.below(3) ? (uint8_t)(0x80 + r.below(0x40)) : (uint8_t)r.next());
  return m;
}
}  // namespace vf
