// Reference codec written from docs/format.md and the per-type format comments in nop/base/*.h.
// It shares no code with nop::Encoding: schema-directed encoder (with field annotations), decoder and size.
#pragma once
#include "val.h"
#include <functional>
namespace vf {
enum class Cat { OK, UnexpectedEncodingType, UnexpectedHandleType, UnexpectedVariantType, InvalidContainerLength,
                 InvalidMemberCount, InvalidStringLength, InvalidTableHash, DuplicateTableEntry, Truncated, HandleError };
inline const char* catname(Cat c){ static const char* n[]={"OK","UnexpectedEncodingType","UnexpectedHandleType","UnexpectedVariantType","InvalidContainerLength","InvalidMemberCount","InvalidStringLength","InvalidTableHash","DuplicateTableEntry","Truncated","HandleError"}; return n[(int)c]; }
enum class Role : uint8_t { PREFIX, INTVAL, LENGTH, COUNT, ID, SIZE, HASH, INDEX, TAG, REF, PAYLOAD, PADDING };
struct Field { size_t off, len; Role role; int bits; bool is_signed; };
using Bytes = std::vector<uint8_t>;

struct EntrySpan { size_t id_off, size_off, val_off, end_off; int depth; uint64_t id; size_t count_field; /* index in Enc::fields of the COUNT field of the enclosing table */ };
struct Enc {
  Bytes out; std::vector<Field> fields; std::vector<EntrySpan> entries; int tab_depth = 0;
  const std::vector<int64_t>* refs = nullptr; size_t next_ref = 0;   // references the writer returned for successive handles (else the value itself)
  void raw(uint64_t v, int nbytes){ for(int i=0;i<nbytes;i++) out.push_back((uint8_t)(v>>(8*i))); }
  void put_uint(uint64_t v, Role r, int bits){ size_t o=out.size();
    if(v<128) out.push_back((uint8_t)v); else if(v<256){out.push_back(0x80);raw(v,1);} else if(v<65536){out.push_back(0x81);raw(v,2);} else if(v<(1ull<<32)){out.push_back(0x82);raw(v,4);} else {out.push_back(0x83);raw(v,8);}
    fields.push_back({o,out.size()-o,r,bits,false}); }
  void put_int(int64_t v, Role r, int bits){ size_t o=out.size();
    if(v>=-64&&v<=127) out.push_back((uint8_t)(int8_t)v); else if(v>=-128&&v<=127){out.push_back(0x84);raw((uint64_t)v,1);} else if(v>=-32768&&v<=32767){out.push_back(0x85);raw((uint64_t)v,2);}
    else if(v>=-2147483648LL&&v<=2147483647LL){out.push_back(0x86);raw((uint64_t)v,4);} else {out.push_back(0x87);raw((uint64_t)v,8);}
    fields.push_back({o,out.size()-o,r,bits,true}); }
  void prefix(uint8_t p){ fields.push_back({out.size(),1,Role::PREFIX,0,false}); out.push_back(p); }
};
inline int64_t sext(uint64_t u,int bits){ return bits==64?(int64_t)u:(int64_t)(u<<(64-bits))>>(64-bits); }
size_t RefSizeUpper(const Sch& s, const Val& v);
inline void RefEncode(const Sch& s, const Val& v, Enc& e){
  switch(s.k){
    case K::BOOL: e.fields.push_back({e.out.size(),1,Role::PREFIX,0,false}); e.out.push_back(v.u?1:0); break;
    case K::CHAR: e.put_uint(v.u&0xff,Role::INTVAL,8); break;
    case K::UINT: e.put_uint(v.u,Role::INTVAL,s.bits); break;
    case K::INT: e.put_int(sext(v.u,s.bits),Role::INTVAL,s.bits); break;
    case K::F32: e.prefix(0x88); e.raw(v.u,4); break;
    case K::F64: e.prefix(0x89); e.raw(v.u,8); break;
    case K::STR: e.prefix(0xbd); e.put_uint(v.bytes.size(),Role::LENGTH,64); e.out.insert(e.out.end(),v.bytes.begin(),v.bytes.end()); break;
    case K::BIN: e.prefix(0xbc); e.put_uint(v.bytes.size(),Role::LENGTH,64); e.out.insert(e.out.end(),v.bytes.begin(),v.bytes.end()); break;
    case K::ARY: e.prefix(0xba); e.put_uint(v.kids.size(),Role::COUNT,64); for(auto&k:v.kids) RefEncode(s.kids[0],k,e); break;
    case K::TUPLE: e.prefix(0xba); e.put_uint(s.kids.size(),Role::COUNT,64); for(size_t i=0;i<s.kids.size();i++) RefEncode(s.kids[i],v.kids[i],e); break;
    case K::MAP: e.prefix(0xbb); e.put_uint(v.kids.size()/2,Role::COUNT,64); for(size_t i=0;i<v.kids.size();i++) RefEncode(s.kids[i&1],v.kids[i],e); break;
    case K::STU: e.prefix(0xb9); e.put_uint(s.kids.size(),Role::COUNT,64); for(size_t i=0;i<s.kids.size();i++) RefEncode(s.kids[i],v.kids[i],e); break;
    case K::OPT: if(v.u) RefEncode(s.kids[0],v.kids[0],e); else e.prefix(0xbe); break;
    case K::RES: if(v.u==2) RefEncode(s.kids[1],v.kids[0],e); else { e.prefix(0xb6); Val ev; ev.u=(v.u==1)?v.kids[0].u:0; RefEncode(s.kids[0],ev,e);} break;
    case K::VAR: e.prefix(0xb8); e.put_int((int64_t)v.u-1,Role::INDEX,32); if(v.u==0) e.prefix(0xbe); else RefEncode(s.kids[v.u-1],v.kids[0],e); break;
    case K::NILV: e.prefix(0xbe); break;
    case K::HND: { e.prefix(0xb7); e.put_uint(s.hash,Role::TAG,s.bits); int64_t ref = (e.refs && e.next_ref < e.refs->size()) ? (*e.refs)[e.next_ref++] : (int64_t)v.u; e.put_int(ref,Role::REF,64); } break;
    case K::TAB: { e.prefix(0xb5); e.put_uint(s.hash,Role::HASH,64); uint64_t n=0; for(size_t i=0;i<s.kids.size();i++) if(s.active[i]&&v.kids[i].u) n++; size_t cfi=e.fields.size(); e.put_uint(n,Role::COUNT,64);
      for(size_t i=0;i<s.kids.size();i++) if(s.active[i]&&v.kids[i].u){ size_t ido=e.out.size(); e.put_uint(s.ids[i],Role::ID,64); size_t sz=RefSizeUpper(s.kids[i],v.kids[i].kids[0]); size_t szo=e.out.size(); e.put_uint(sz,Role::SIZE,64); size_t o=e.out.size();
        e.tab_depth++; RefEncode(s.kids[i],v.kids[i].kids[0],e); e.tab_depth--; size_t used=e.out.size()-o; if(used<sz){ e.fields.push_back({e.out.size(),sz-used,Role::PADDING,0,false}); e.out.insert(e.out.end(),sz-used,0);}
        e.entries.push_back({ido,szo,o,e.out.size(),e.tab_depth+1,s.ids[i],cfi}); } } break;
  }
}
inline size_t usz(uint64_t v){ return v<128?1:v<256?2:v<65536?3:v<(1ull<<32)?5:9; }
inline size_t isz(int64_t v){ return (v>=-64&&v<=127)?1:(v>=-128&&v<=127)?2:(v>=-32768&&v<=32767)?3:(v>=-2147483648LL&&v<=2147483647LL)?5:9; }
inline size_t RefSizeUpper(const Sch& s, const Val& v){   // exact size, except handle references counted as 9 bytes (documented over-estimate)
  switch(s.k){
    case K::BOOL: return 1; case K::CHAR: return usz(v.u&0xff); case K::UINT: return usz(v.u); case K::INT: return isz(sext(v.u,s.bits)); case K::F32: return 5; case K::F64: return 9;
    case K::STR: case K::BIN: return 1+usz(v.bytes.size())+v.bytes.size();
    case K::ARY: { size_t t=1+usz(v.kids.size()); for(auto&k:v.kids) t+=RefSizeUpper(s.kids[0],k); return t; }
    case K::TUPLE: case K::STU: { size_t t=1+usz(s.kids.size()); for(size_t i=0;i<s.kids.size();i++) t+=RefSizeUpper(s.kids[i],v.kids[i]); return t; }
    case K::MAP: { size_t t=1+usz(v.kids.size()/2); for(size_t i=0;i<v.kids.size();i++) t+=RefSizeUpper(s.kids[i&1],v.kids[i]); return t; }
    case K::OPT: return v.u?RefSizeUpper(s.kids[0],v.kids[0]):1;
    case K::RES: return v.u==2?RefSizeUpper(s.kids[1],v.kids[0]):1+ (s.kids[0].k==K::INT? isz(sext(v.u==1?v.kids[0].u:0,s.kids[0].bits)) : usz(v.u==1?v.kids[0].u:0));
    case K::VAR: return 1+isz((int64_t)v.u-1)+(v.u==0?1:RefSizeUpper(s.kids[v.u-1],v.kids[0]));
    case K::NILV: return 1; case K::HND: return 1+usz(s.hash)+9;
    case K::TAB: { uint64_t n=0; size_t t=0; for(size_t i=0;i<s.kids.size();i++) if(s.active[i]&&v.kids[i].u){ n++; size_t sz=RefSizeUpper(s.kids[i],v.kids[i].kids[0]); t+=usz(s.ids[i])+usz(sz)+sz; } return 1+usz(s.hash)+usz(n)+t; }
  } return 0; }

struct DecResult { Cat cat=Cat::OK; size_t consumed=0; size_t err_off=0; bool dup_keys=false; int handle_err=0; };
struct Dec {
  const uint8_t* p; size_t n; size_t i=0; std::vector<size_t> limits;  // bounded frames (absolute end offsets)
  std::function<int(int64_t,int64_t*)> resolver; bool dup_keys=false; int handle_err=0; size_t err_off=0;
  size_t avail() const { size_t end=n; for(auto l:limits) if(l<end) end=l; return end>i?end-i:0; }
  Cat need(size_t k){ if(avail()<k){ err_off=i; return Cat::Truncated;} return Cat::OK; }
  Cat byte(uint8_t* b){ Cat c=need(1); if(c!=Cat::OK) return c; *b=p[i++]; return Cat::OK; }
  Cat rawle(int nb, uint64_t* v){ Cat c=need(nb); if(c!=Cat::OK) return c; uint64_t x=0; for(int k=0;k<nb;k++) x|=(uint64_t)p[i+k]<<(8*k); i+=nb; *v=x; return Cat::OK; }
  Cat uintv(int bits, uint64_t* v){ uint8_t b; size_t o=i; Cat c=byte(&b); if(c!=Cat::OK) return c; return uint_payload(b,bits,v,o); }
  Cat uint_payload(uint8_t b,int bits,uint64_t* v,size_t o){ if(b<0x80){*v=b;return Cat::OK;} if(b>=0x80&&b<=0x83){ int w=8<<(b-0x80); if(w>bits){err_off=o;return Cat::UnexpectedEncodingType;} return rawle(w/8,v);} err_off=o; return Cat::UnexpectedEncodingType; }
  Cat intv(int bits, int64_t* v){ uint8_t b; size_t o=i; Cat c=byte(&b); if(c!=Cat::OK) return c; return int_payload(b,bits,v,o); }
  Cat int_payload(uint8_t b,int bits,int64_t* v,size_t o){ if(b<0x80||b>=0xc0){*v=(int8_t)b;return Cat::OK;} if(b>=0x84&&b<=0x87){ int w=8<<(b-0x84); if(w>bits){err_off=o;return Cat::UnexpectedEncodingType;} uint64_t u; Cat c=rawle(w/8,&u); if(c!=Cat::OK) return c; *v=sext(u,w); return Cat::OK;} err_off=o; return Cat::UnexpectedEncodingType; }
  Cat expect(uint8_t want){ uint8_t b; size_t o=i; Cat c=byte(&b); if(c!=Cat::OK) return c; if(b!=want){err_off=o; return Cat::UnexpectedEncodingType;} return Cat::OK; }
  Cat bytes(size_t k, std::string* out){ Cat c=need(k); if(c!=Cat::OK) return c; out->assign((const char*)p+i,k); i+=k; return Cat::OK; }
  Cat skip(size_t k){ Cat c=need(k); if(c!=Cat::OK) return c; i+=k; return Cat::OK; }
  Cat dec(const Sch& s, Val* v){ uint8_t b; size_t o=i; Cat c=byte(&b); if(c!=Cat::OK) return c; return payload(s,b,o,v); }
  // decode with the prefix byte already consumed (mirrors the prefix/payload structure of the format)
  Cat payload(const Sch& s, uint8_t b, size_t o, Val* v){ Cat c; uint64_t u; int64_t x; *v=Val();
    switch(s.k){
      case K::BOOL: if(b>1){err_off=o;return Cat::UnexpectedEncodingType;} v->u=b; return Cat::OK;
      case K::CHAR: c=uint_payload(b,8,&u,o); v->u=u; return c;
      case K::UINT: c=uint_payload(b,s.bits,&u,o); v->u=u; return c;
      case K::INT: c=int_payload(b,s.bits,&x,o); v->u= s.bits==64?(uint64_t)x:((uint64_t)x&((1ull<<s.bits)-1)); return c;
      case K::F32: if(b!=0x88){err_off=o;return Cat::UnexpectedEncodingType;} c=rawle(4,&u); v->u=u; return c;
      case K::F64: if(b!=0x89){err_off=o;return Cat::UnexpectedEncodingType;} c=rawle(8,&u); v->u=u; return c;
      case K::STR: { if(b!=0xbd){err_off=o;return Cat::UnexpectedEncodingType;} size_t lo=i; c=uintv(64,&u); if(c!=Cat::OK) return c; if(u%(s.bits/8)){err_off=lo;return Cat::InvalidStringLength;} return bytes(u,&v->bytes); }
      case K::BIN: { if(b!=0xbc){err_off=o;return Cat::UnexpectedEncodingType;} size_t lo=i; c=uintv(64,&u); if(c!=Cat::OK) return c; uint64_t w=s.bits/8;
        if((s.len==Len::FIXED&&u!=s.n*w)||(s.len==Len::CAP&&u>s.n*w)||u%w){err_off=lo;return Cat::InvalidContainerLength;} return bytes(u,&v->bytes); }
      case K::ARY: { if(b!=0xba){err_off=o;return Cat::UnexpectedEncodingType;} size_t lo=i; c=uintv(64,&u); if(c!=Cat::OK) return c;
        if((s.len==Len::FIXED&&u!=s.n)||(s.len==Len::CAP&&u>s.n)){err_off=lo;return Cat::InvalidContainerLength;}
        for(uint64_t k=0;k<u;k++){ Val e; c=dec(s.kids[0],&e); if(c!=Cat::OK) return c; v->kids.push_back(std::move(e)); } return Cat::OK; }
      case K::TUPLE: case K::STU: { uint8_t want= s.k==K::TUPLE?0xba:0xb9; if(b!=want){err_off=o;return Cat::UnexpectedEncodingType;} size_t lo=i; c=uintv(64,&u); if(c!=Cat::OK) return c;
        if(u!=s.kids.size()){err_off=lo; return s.k==K::TUPLE?Cat::InvalidContainerLength:Cat::InvalidMemberCount;}
        for(auto& ks:s.kids){ Val e; c=dec(ks,&e); if(c!=Cat::OK) return c; v->kids.push_back(std::move(e)); } return Cat::OK; }
      case K::MAP: { if(b!=0xbb){err_off=o;return Cat::UnexpectedEncodingType;} c=uintv(64,&u); if(c!=Cat::OK) return c;
        for(uint64_t k=0;k<u;k++){ Val kk,vv; c=dec(s.kids[0],&kk); if(c!=Cat::OK) return c; c=dec(s.kids[1],&vv); if(c!=Cat::OK) return c;
          for(size_t j=0;j<v->kids.size();j+=2) if(v->kids[j]==kk) dup_keys=true; v->kids.push_back(std::move(kk)); v->kids.push_back(std::move(vv)); } return Cat::OK; }
      case K::OPT: { if(b==0xbe){ v->u=0; return Cat::OK;} Val e; c=payload(s.kids[0],b,o,&e); if(c!=Cat::OK) return c; v->u=1; v->kids.push_back(std::move(e)); return Cat::OK; }
      case K::RES: { if(b==0xb6){ Val e; c=dec(s.kids[0],&e); if(c!=Cat::OK) return c; bool none= e.u==0; v->u=none?0:1; if(!none) v->kids.push_back(e); return Cat::OK; }
        Val e; c=payload(s.kids[1],b,o,&e); if(c!=Cat::OK) return c; v->u=2; v->kids.push_back(std::move(e)); return Cat::OK; }
      case K::VAR: { if(b!=0xb8){err_off=o;return Cat::UnexpectedEncodingType;} size_t io=i; c=intv(32,&x); if(c!=Cat::OK) return c; if(x<-1||x>=(int64_t)s.kids.size()){err_off=io;return Cat::UnexpectedVariantType;}
        if(x==-1){ v->u=0; return expect(0xbe);} Val e; c=dec(s.kids[x],&e); if(c!=Cat::OK) return c; v->u=x+1; v->kids.push_back(std::move(e)); return Cat::OK; }
      case K::NILV: if(b!=0xbe){err_off=o;return Cat::UnexpectedEncodingType;} return Cat::OK;
      case K::HND: { if(b!=0xb7){err_off=o;return Cat::UnexpectedEncodingType;} size_t to=i; c=uintv(s.bits,&u); if(c!=Cat::OK) return c; if(u!=s.hash){err_off=to;return Cat::UnexpectedHandleType;}
        c=intv(64,&x); if(c!=Cat::OK) return c; int64_t val = x < 0 ? -1 : x; if(resolver){ int e=resolver(x,&val); if(e){handle_err=e; return Cat::HandleError;} } v->u=(uint64_t)val; return Cat::OK; }
      case K::TAB: { if(b!=0xb5){err_off=o;return Cat::UnexpectedEncodingType;} size_t ho=i; c=uintv(64,&u); if(c!=Cat::OK) return c; if(u!=s.hash){err_off=ho;return Cat::InvalidTableHash;}
        uint64_t cnt; c=uintv(64,&cnt); if(c!=Cat::OK) return c; v->kids.assign(s.kids.size(),Val());
        for(uint64_t k=0;k<cnt;k++){ uint64_t id,sz; size_t ido=i; c=uintv(64,&id); if(c!=Cat::OK) return c; int idx=-1; for(size_t j=0;j<s.ids.size();j++) if(s.ids[j]==id) idx=(int)j;
          if(idx>=0&&s.active[idx]){ if(v->kids[idx].u){err_off=ido;return Cat::DuplicateTableEntry;} c=uintv(64,&sz); if(c!=Cat::OK) return c;
            size_t start=i; size_t lim = sz>(SIZE_MAX-start)?SIZE_MAX:start+sz; limits.push_back(lim); Val e; v->kids[idx].u=1; c=dec(s.kids[idx],&e); limits.pop_back(); if(c!=Cat::OK) return c; v->kids[idx].kids.push_back(std::move(e));
            c=skip(sz-(i-start)); if(c!=Cat::OK) return c; }
          else { c=uintv(64,&sz); if(c!=Cat::OK) return c; c=skip(sz); if(c!=Cat::OK) return c; } }
        return Cat::OK; }
    } return Cat::OK; }
};
inline DecResult RefDecode(const Sch& s, const uint8_t* p, size_t n, Val* out, std::function<int(int64_t,int64_t*)> resolver=nullptr){
  Dec d{p,n}; d.resolver=resolver; DecResult r; r.cat=d.dec(s,out); r.consumed=d.i; r.err_off=d.err_off; r.dup_keys=d.dup_keys; r.handle_err=d.handle_err; return r; }
}  // namespace vf
