// Boundary-biased value generation on the dynamic value tree, and canonicalisation for comparison.
#pragma once
#include <algorithm>
#include "ref/val.h"
#include "vlib/rt.h"
namespace vf {
struct GenOpts { size_t max_seq = 300; bool big = false; int handle_mode = 0; bool force_big = false; /* top-level STR/BIN: more than 64 KiB of payload */
  bool nonrepresentable_nestings = false; /* Optional<Optional<T>> engaged around empty, Result<E,Result<F,T>> value around error/empty: the format has one NIL / ERR marker (D13) */ };
struct Gen {
  Rng& r; GenOpts o;
  explicit Gen(Rng& rng, GenOpts opts = GenOpts()) : r(rng), o(opts) {}
  uint64_t edge_uint(int bits) {
    static const uint64_t e[] = {0, 1, 2, 126, 127, 128, 129, 254, 255, 256, 257, 65534, 65535, 65536, 65537, 0xfffffffeull, 0xffffffffull, 0x100000000ull, 0x100000001ull, ~0ull, ~0ull - 1, 1ull << 63, (1ull << 63) - 1, 1ull << 31, (1ull << 31) - 1, 1ull << 15, 1ull << 7};
    uint64_t v = r.below(3) ? e[r.below(sizeof(e) / sizeof(e[0]))] : r.next();
    if (r.chance(1, 16)) v = r.next() >> r.below(64);
    return bits == 64 ? v : (v & ((1ull << bits) - 1));
  }
  uint64_t edge_int(int bits) {
    static const int64_t e[] = {0, 1, -1, 2, -2, 62, 63, 64, 65, -62, -63, -64, -65, -66, 126, 127, 128, 129, -127, -128, -129, -130, 255, 256, 32766, 32767, 32768, 32769, -32767, -32768, -32769, -32770, 65535, 65536,
                                2147483646LL, 2147483647LL, 2147483648LL, 2147483649LL, -2147483647LL, -2147483648LL, -2147483649LL, -2147483650LL, 4294967295LL, 4294967296LL, INT64_MAX, INT64_MAX - 1, INT64_MIN, INT64_MIN + 1};
    int64_t v = r.below(3) ? e[r.below(sizeof(e) / sizeof(e[0]))] : (int64_t)r.next();
    if (r.chance(1, 16)) { v = (int64_t)(r.next() >> r.below(64)); if (r.chance(1, 2)) v = -v; }
    if (bits < 64) { int64_t lo = -(1LL << (bits - 1)), hi = (1LL << (bits - 1)) - 1; if (v < lo || v > hi) v = (int64_t)(r.next() % (uint64_t)(hi - lo + 1)) + lo; }
    return bits == 64 ? (uint64_t)v : ((uint64_t)v & ((1ull << bits) - 1));
  }
  size_t count() {
    static const size_t c[] = {0, 0, 1, 1, 2, 3, 5, 8, 31, 32, 33, 63, 64, 127, 128, 129, 255, 256, 257, 300};
    size_t n = r.below(4) ? c[r.below(8)] : c[r.below(sizeof(c) / sizeof(c[0]))];
    if (o.big && r.chance(1, 6)) n = r.chance(1, 2) ? 65535 + r.below(3) : 16383 + r.below(3);   // U16 -> U32 length class boundary
    return std::min(n, o.big ? (size_t)70000 : o.max_seq);
  }
  Val gen(const Sch& s, int depth = 0) {
    Val v;
    switch (s.k) {
      case K::BOOL: v.u = r.below(2); break;
      case K::CHAR: v.u = edge_uint(8); break;
      case K::UINT: v.u = edge_uint(s.bits); break;
      case K::INT: v.u = edge_int(s.bits); break;
      case K::F32: { static const uint32_t e[] = {0, 0x80000000u, 0x3f800000u, 0x7f800000u, 0xff800000u, 0x7fc00000u, 0x7fc12345u, 0xffc00001u, 0x7f800001u, 1, 0x7f7fffffu, 0x00800000u}; v.u = r.below(2) ? e[r.below(12)] : (uint32_t)r.next(); } break;
      case K::F64: { static const uint64_t e[] = {0, 0x8000000000000000ull, 0x3ff0000000000000ull, 0x7ff0000000000000ull, 0x7ff8000000000000ull, 0x7ff8000000012345ull, 0xfff0000000000001ull, 1, 0x7fefffffffffffffull}; v.u = r.below(2) ? e[r.below(9)] : r.next(); } break;
      case K::STR: { size_t n = depth > 1 ? count() % 40 : count(); if (o.force_big && depth == 0) n = 66000 + r.below(3000); size_t cs = s.bits / 8; v.bytes.resize(n * cs); int mode = (int)r.below(3); for (auto& c : v.bytes) c = mode == 0 ? (char)('a' + r.below(26)) : (char)r.next(); } break;
      case K::BIN: {
        size_t n = s.len == Len::FIXED ? s.n : s.len == Len::CAP ? std::min<size_t>(count(), s.n) : (depth > 1 ? count() % 40 : count());
        if (s.len == Len::CAP && r.chance(1, 4)) n = s.n;
        if (s.len == Len::CAP && r.chance(1, 8) && s.n > 0) n = s.n - 1;
        if (o.force_big && depth == 0 && s.len == Len::VAR) n = (66000 + r.below(3000)) / (s.bits / 8) + r.below(3);
        v.bytes.resize(n * (s.bits / 8)); for (auto& c : v.bytes) c = s.boolel ? (char)r.below(2) : (char)r.next();
      } break;
      case K::ARY: {
        size_t n = s.len == Len::FIXED ? s.n : s.len == Len::CAP ? std::min<size_t>(count() % 9, s.n) : (depth > 1 ? r.below(3) : (r.chance(1, 12) && depth == 0 ? 120 + r.below(20) : count() % 9));
        if (s.len == Len::CAP && r.chance(1, 4)) n = s.n;
        for (size_t i = 0; i < n; i++) v.kids.push_back(gen(s.kids[0], depth + 1));
      } break;
      case K::TUPLE: case K::STU: for (auto& k : s.kids) v.kids.push_back(gen(k, depth + 1)); break;
      case K::MAP: {
        size_t n = r.below(depth > 0 ? 4 : 7);
        for (size_t i = 0; i < n; i++) { Val k = gen(s.kids[0], depth + 1); bool dup = false; for (size_t j = 0; j < v.kids.size(); j += 2) if (v.kids[j] == k) dup = true; if (dup) continue; v.kids.push_back(k); v.kids.push_back(gen(s.kids[1], depth + 1)); }
      } break;
      case K::OPT: v.u = r.below(3) != 0; if (v.u) { v.kids.push_back(gen(s.kids[0], depth + 1)); if (!o.nonrepresentable_nestings && s.kids[0].k == K::OPT) { int guard = 0; while (!v.kids[0].u && guard++ < 64) v.kids[0] = gen(s.kids[0], depth + 1); if (!v.kids[0].u) { v.u = 0; v.kids.clear(); } } } break;
      case K::RES: v.u = r.below(3); if (v.u == 2) { v.kids.push_back(gen(s.kids[1], depth + 1)); if (!o.nonrepresentable_nestings && s.kids[1].k == K::RES) { int guard = 0; while (v.kids[0].u != 2 && guard++ < 64) v.kids[0] = gen(s.kids[1], depth + 1); if (v.kids[0].u != 2) { v.u = 0; v.kids.clear(); } } } else if (v.u == 1) { Val e = gen(s.kids[0]); if (e.u == 0) e.u = 1; v.kids.push_back(e); } break;
      case K::VAR: v.u = r.below(s.kids.size() + 1); if (s.kids.size() > 100 && r.chance(1, 2)) v.u = s.kids.size() - r.below(4);   /* high indices of wide variants */ if (v.u) v.kids.push_back(gen(s.kids[v.u - 1], depth + 1)); break;
      case K::NILV: break;
      case K::HND: { static const int64_t hv[] = {-1, 0, 1, 2, 3, 100, 127, 128, 1000, 65536, 2147483647}; v.u = (uint64_t)hv[r.below(11)]; } break;   // handle values are ints
      case K::TAB: for (size_t i = 0; i < s.kids.size(); i++) { Val e; e.u = s.active[i] && r.below(3) != 0; if (e.u) e.kids.push_back(gen(s.kids[i], depth + 1)); v.kids.push_back(e); } break;
    }
    return v;
  }
};

// order-insensitive maps: sort entries by a canonical text of the key (wire order of a foreign encoding need not be sorted)
inline void canon(const Sch& s, Val& v) {
  switch (s.k) {
    case K::ARY: for (auto& k : v.kids) canon(s.kids[0], k); break;
    case K::TUPLE: case K::STU: for (size_t i = 0; i < s.kids.size() && i < v.kids.size(); i++) canon(s.kids[i], v.kids[i]); break;
    case K::OPT: if (v.u && !v.kids.empty()) canon(s.kids[0], v.kids[0]); break;
    case K::RES: if (v.u == 2 && !v.kids.empty()) canon(s.kids[1], v.kids[0]); break;
    case K::VAR: if (v.u && v.u <= s.kids.size() && !v.kids.empty()) canon(s.kids[v.u - 1], v.kids[0]); break;
    case K::TAB: for (size_t i = 0; i < s.kids.size() && i < v.kids.size(); i++) if (v.kids[i].u && !v.kids[i].kids.empty()) canon(s.kids[i], v.kids[i].kids[0]); break;
    case K::MAP: {
      std::vector<std::pair<std::string, std::pair<Val, Val>>> es;
      for (size_t i = 0; i + 1 < v.kids.size(); i += 2) { canon(s.kids[0], v.kids[i]); canon(s.kids[1], v.kids[i + 1]); es.push_back({str(v.kids[i]) + "|" + v.kids[i].bytes, {v.kids[i], v.kids[i + 1]}}); }
      std::stable_sort(es.begin(), es.end(), [](const auto& a, const auto& b) { return a.first < b.first; });
      v.kids.clear(); for (auto& e : es) { v.kids.push_back(e.second.first); v.kids.push_back(e.second.second); }
    } break;
    default: break;
  }
}
inline Val canoned(const Sch& s, Val v) { canon(s, v); return v; }
// does the value exercise anything beyond a fixed-size scalar at its default? used for the non-trivial rule
inline size_t val_nodes(const Val& v) { size_t n = 1 + (v.bytes.empty() ? 0 : 1); for (auto& k : v.kids) n += val_nodes(k); return n; }
}  // namespace vf
